import CwMt.Model.Executor
import CwMt.Proofs.EngineBig
import CwMt.Proofs.EngineB_Wire
import CwMt.Proofs.Engine
/-
  CwMt.Proofs.Executor — the `Executor` helpers never fail after their transaction was committed: the
  cw-utils parsers accept everything the engine's encoders produce (C01, "the helpers built on them").
-/
namespace CwMt.ExecutorP
open CwMt CwMt.EngineBig

/-! ### the cw-utils parsers invert the encoders -/

theorem varintAux_succ (f n : Nat) : varintAux (f + 1) n =
    if n < 128 then [UInt8.ofNat n] else UInt8.ofNat (n % 128 + 128) :: varintAux f (n / 128) := rfl

theorem varintAux_fuel (k : Nat) : ∀ (j n : Nat), n < 128 ^ (k + 1) → varintAux (k + 1 + j) n = varintAux (k + 1) n := by
  induction k with
  | zero =>
    intro j n h
    have hn : n < 128 := by simpa using h
    rw [show 0 + 1 + j = j + 1 by omega]
    simp [varintAux, hn]
  | succ k ih =>
    intro j n h
    rw [show k + 1 + 1 + j = (k + 1 + j) + 1 by omega]
    by_cases hn : n < 128
    · simp [varintAux, hn]
    · have h4 : n / 128 < 128 ^ (k + 1) := by
        apply Nat.div_lt_of_lt_mul
        rw [Nat.pow_succ] at h; omega
      rw [varintAux_succ, varintAux_succ, if_neg hn, if_neg hn, ih j _ h4]

theorem parseVarint_varint (n : Nat) (rest : List UInt8) (h : n < 128 ^ 9) :
    parseVarint (varint n ++ rest) = some (n, rest) := by
  unfold parseVarint varint
  rw [show (10 : Nat) = 8 + 1 + 1 by rfl, varintAux_fuel 8 1 n h]
  rw [EngineB.unvarintAux_varintAux 8 n 0 0 rest h]
  simp

/-- a present (non-empty) length-delimited field with a tag byte of this field number and wire type 2 is read back -/
theorem parseLP_lenField (field : Nat) (tag : UInt8) (bs rest : List UInt8) (hf : tag.toNat / 8 = field)
    (hw : tag.toNat % 4 = 2) (hne : bs ≠ []) (h : bs.length < 128 ^ 9) :
    parseLP field (lenField tag bs ++ rest) = some (bs, rest) := by
  unfold lenField
  cases bs with
  | nil => exact absurd rfl hne
  | cons b bs' =>
    simp only [List.isEmpty_cons, Bool.false_eq_true, if_false, List.cons_append, parseLP, List.append_assoc]
    rw [if_neg (by simp [hf]), if_neg (by simp [hw])]
    rw [parseVarint_varint _ _ h]
    simp

theorem lenField_length_le (tag : UInt8) (bs : List UInt8) : bs.length ≤ (lenField tag bs).length := by
  unfold lenField
  split
  · rename_i h; simp [List.isEmpty_iff.mp h]
  · simp; omega

/-- `parse_instantiate_response_data ∘ instantiate_response` for a non-empty address -/
theorem parse_instantiate_encode (addr : String) (d : List UInt8) (ha : addr.toUTF8.toList ≠ [])
    (hlen : (encodeInstantiateResponse addr d).length < 128 ^ 9) :
    parseInstantiateResponseData (encodeInstantiateResponse addr d) =
      some (addr.toUTF8.toList, if d.isEmpty then none else some d) := by
  unfold encodeInstantiateResponse at hlen ⊢
  have h1 := lenField_length_le 0x0a addr.toUTF8.toList
  have h2 := lenField_length_le 0x12 d
  rw [List.length_append] at hlen
  unfold parseInstantiateResponseData
  rw [parseLP_lenField 1 0x0a _ _ (by decide) (by decide) ha (by omega)]
  cases d with
  | nil => simp [lenField, parseLP]
  | cons x xs =>
    have := parseLP_lenField 2 0x12 (x :: xs) [] (by decide) (by decide) (by simp) (by omega)
    rw [List.append_nil] at this
    simp [this]

/-- `parse_execute_response_data ∘ encode_response_data` -/
theorem parse_execute_encode (d : List UInt8) (hlen : (encodeExecuteResponse d).length < 128 ^ 9) :
    parseExecuteResponseData (encodeExecuteResponse d) = some (if d.isEmpty then none else some d) := by
  unfold encodeExecuteResponse at hlen ⊢
  have h1 := lenField_length_le 0x0a d
  unfold parseExecuteResponseData
  cases d with
  | nil => simp [lenField, parseLP]
  | cons x xs =>
    have := parseLP_lenField 1 0x0a (x :: xs) [] (by decide) (by decide) (by simp) (by omega)
    rw [List.append_nil] at this
    simp [this]

/-! ### what a successful `execute` of Instantiate / Execute returns as data -/

variable {E : Type}

/-- the address generators never hand out the empty address (as bytes) -/
def GenNonEmpty (cfg : Config E) : Prop :=
  (∀ c i a, cfg.addrClassic c i = .ok a → a.toUTF8.toList ≠ []) ∧
  (∀ k c s a, cfg.addrSalted k c s = .ok a → a.toUTF8.toList ≠ [])

theorem registerContract_addr (cfg : Config E) (hg : GenNonEmpty cfg) (ch ch₀ : Chain E) (codeId : Nat) (s : Addr)
    (admin : Option Addr) (label : String) (created : Nat) (salt : Option Val) (addr : Addr)
    (h : registerContract cfg ch codeId s admin label created salt = .ok (addr, ch₀)) : addr.toUTF8.toList ≠ [] := by
  unfold registerContract at h
  split at h
  · cases h
  · cases salt with
    | none =>
      simp only at h
      rcases hx : cfg.addrClassic codeId ch.contracts.length with a | _ | _ | _ <;> rw [hx] at h <;> simp only at h
      · split at h
        · cases h
        · simp only [Outcome.ok.injEq, Prod.mk.injEq] at h
          rw [← h.1]; exact hg.1 _ _ _ hx
      all_goals cases h
    | some sl =>
      simp only at h
      cases hcd : codeData? cfg codeId with
      | none => rw [hcd] at h; cases h
      | some cd =>
        rw [hcd] at h
        simp only at h
        by_cases hv : cfg.validAddr s = true
        · rw [if_pos hv] at h
          rcases hx : cfg.addrSalted cd.checksum s sl with a | _ | _ | _ <;> rw [hx] at h <;> simp only at h
          · split at h
            · cases h
            · simp only [Outcome.ok.injEq, Prod.mk.injEq] at h
              rw [← h.1]; exact hg.2 _ _ _ _ hx
          all_goals cases h
        · rw [if_neg hv] at h; cases h

/-- a successful `App::execute` of an Instantiate message returns `instantiate_response(addr, data)` for the
address that `register_contract` generated -/
theorem app_execute_instantiate_data (cfg : Config E) (blk : Block) (fuel : Nat) (ch : Chain E) (s : Addr)
    (admin : Option String) (codeId : Nat) (m : Val) (funds : Coins) (label : String) (salt : Option Val)
    (r : AppResponse) (ch' : Chain E) (tr : Trace)
    (h : App.execute cfg blk fuel ch s (.wasmInstantiate admin codeId m funds label salt) = (.ok r, ch', tr)) :
    ∃ addr ch₀ d, registerContract cfg ch codeId s admin label blk.height salt = .ok (addr, ch₀) ∧
      r.data = some (encodeInstantiateResponse addr d) := by
  have hx := app_execute_single cfg blk fuel ch s _ r ch' tr h
  rw [exec_wasm_instantiate] at hx
  split at hx
  · cases hx
  · rcases hreg : registerContract cfg ch codeId s admin label blk.height salt with ⟨addr, ch₀⟩ | _ | _ | _ <;>
      rw [hreg] at hx <;> simp only at hx
    · rcases hsf : sendFunds ch₀ s addr funds with ch₁ | _ | _ | _ <;> rw [hsf] at hx <;> simp only at hx
      · rcases hcc : (callContract cfg blk ch₁ addr (.instantiate ⟨s, funds⟩ m) []).1 with ⟨resp, ch₂⟩ | _ | _ | _ <;>
          rw [hcc] at hx <;> simp only at hx
        · obtain ⟨o', _, ho⟩ := hx
          cases o' with
          | ok p =>
            simp only [Outcome.ok.injEq, Prod.mk.injEq] at ho
            exact ⟨addr, ch₀, _, rfl, by rw [ho.1]⟩
          | err => cases ho
          | panic => cases ho
          | outOfFuel => cases ho
        all_goals first | cases hx | exact hx.elim
      all_goals first | cases hx | exact hx.elim
    all_goals first | cases hx | exact hx.elim

/-- a successful `App::execute` of an Execute message returns `encode_response_data` of whatever data the
message tree produced -/
theorem app_execute_execute_data (cfg : Config E) (blk : Block) (fuel : Nat) (ch : Chain E) (s : Addr)
    (contract : String) (m : Val) (funds : Coins) (r : AppResponse) (ch' : Chain E) (tr : Trace)
    (h : App.execute cfg blk fuel ch s (.wasmExecute contract m funds) = (.ok r, ch', tr)) :
    ∃ r₀ : AppResponse, r = { r₀ with data := r₀.data.map encodeExecuteResponse } := by
  have hx := app_execute_single cfg blk fuel ch s _ r ch' tr h
  rw [exec_wasm_execute] at hx
  split at hx
  · cases hx
  · rcases hsf : sendFunds ch s contract funds with ch₁ | _ | _ | _ <;> rw [hsf] at hx <;> simp only at hx
    · rcases hcc : (callContract cfg blk ch₁ contract (.execute ⟨s, funds⟩ m) []).1 with ⟨resp, ch₂⟩ | _ | _ | _ <;>
        rw [hcc] at hx <;> simp only at hx
      · obtain ⟨o', _, ho⟩ := hx
        cases o' with
        | ok p =>
          simp only [Outcome.ok.injEq, Prod.mk.injEq] at ho
          exact ⟨p.1, ho.1⟩
        | err => cases ho
        | panic => cases ho
        | outOfFuel => cases ho
      all_goals first | cases hx | exact hx.elim
    all_goals first | cases hx | exact hx.elim

/-! ### the helpers -/

/-- `instantiate_contract` / `instantiate2_contract`: whenever the helper does not return `Ok`, nothing was
persisted — in particular the parser never rejects the response of a committed transaction -/
theorem instantiate_contract_atomic (cfg : Config E) (hg : GenNonEmpty cfg) (blk : Block) (fuel : Nat) (ch : Chain E)
    (s : Addr) (codeId : Nat) (m : Val) (funds : Coins) (label : String) (admin : Option String) (salt : Option Val)
    (hsize : ∀ r c t, App.execute cfg blk fuel ch s (.wasmInstantiate admin codeId m funds label salt) = (.ok r, c, t) →
      (r.data.getD []).length < 128 ^ 9)
    (o : Outcome (List UInt8)) (ch' : Chain E) (tr : Trace)
    (h : Executor.instantiateContract cfg blk fuel ch s codeId m funds label admin salt = (o, ch', tr))
    (ho : o.isOk = false) : ch' = ch := by
  unfold Executor.instantiateContract at h
  rcases hx : App.execute cfg blk fuel ch s (.wasmInstantiate admin codeId m funds label salt) with ⟨o₁, c₁, t₁⟩
  rw [hx] at h
  cases o₁ with
  | ok r =>
    obtain ⟨addr, ch₀, d, hreg, hd⟩ := app_execute_instantiate_data cfg blk fuel ch s admin codeId m funds label salt r c₁ t₁ hx
    have hs := hsize r c₁ t₁ hx
    simp only at h
    rw [hd] at hs h
    simp only [Option.getD_some] at hs h
    rw [parse_instantiate_encode addr d (registerContract_addr cfg hg _ _ _ _ _ _ _ _ _ hreg) hs] at h
    simp only [Prod.mk.injEq] at h
    rw [← h.1] at ho
    simp [Outcome.isOk] at ho
  | err =>
    simp only [Prod.mk.injEq] at h
    rw [← h.2.1]; exact Engine.atomic_execute cfg blk fuel ch s _ _ c₁ t₁ hx rfl
  | panic =>
    simp only [Prod.mk.injEq] at h
    rw [← h.2.1]; exact Engine.atomic_execute cfg blk fuel ch s _ _ c₁ t₁ hx rfl
  | outOfFuel =>
    simp only [Prod.mk.injEq] at h
    rw [← h.2.1]; exact Engine.atomic_execute cfg blk fuel ch s _ _ c₁ t₁ hx rfl

/-- on `Ok` the helper returns the bytes of exactly the address `register_contract` generated, and the persisted
state is that of the underlying `execute` -/
theorem instantiate_contract_returns_address (cfg : Config E) (hg : GenNonEmpty cfg) (blk : Block) (fuel : Nat)
    (ch : Chain E) (s : Addr) (codeId : Nat) (m : Val) (funds : Coins) (label : String) (admin : Option String)
    (salt : Option Val)
    (hsize : ∀ r c t, App.execute cfg blk fuel ch s (.wasmInstantiate admin codeId m funds label salt) = (.ok r, c, t) →
      (r.data.getD []).length < 128 ^ 9)
    (a : List UInt8) (ch' : Chain E) (tr : Trace)
    (h : Executor.instantiateContract cfg blk fuel ch s codeId m funds label admin salt = (.ok a, ch', tr)) :
    ∃ addr ch₀ r, registerContract cfg ch codeId s admin label blk.height salt = .ok (addr, ch₀) ∧
      a = addr.toUTF8.toList ∧
      App.execute cfg blk fuel ch s (.wasmInstantiate admin codeId m funds label salt) = (.ok r, ch', tr) := by
  unfold Executor.instantiateContract at h
  rcases hx : App.execute cfg blk fuel ch s (.wasmInstantiate admin codeId m funds label salt) with ⟨o₁, c₁, t₁⟩
  rw [hx] at h
  cases o₁ with
  | ok r =>
    obtain ⟨addr, ch₀, d, hreg, hd⟩ := app_execute_instantiate_data cfg blk fuel ch s admin codeId m funds label salt r c₁ t₁ hx
    have hs := hsize r c₁ t₁ hx
    simp only at h
    rw [hd] at hs h
    simp only [Option.getD_some] at hs h
    rw [parse_instantiate_encode addr d (registerContract_addr cfg hg _ _ _ _ _ _ _ _ _ hreg) hs] at h
    simp only [Prod.mk.injEq, Outcome.ok.injEq] at h
    exact ⟨addr, ch₀, r, hreg, h.1.symm, by rw [h.2.1, h.2.2]⟩
  | err => simp at h
  | panic => simp at h
  | outOfFuel => simp at h

/-- `execute_contract`: the `unwrap()` of the parser never panics, so a result other than `Ok` means nothing was
persisted -/
theorem execute_contract_atomic (cfg : Config E) (blk : Block) (fuel : Nat) (ch : Chain E) (s : Addr)
    (contract : String) (m : Val) (funds : Coins)
    (hsize : ∀ r c t, App.execute cfg blk fuel ch s (.wasmExecute contract m funds) = (.ok r, c, t) →
      (r.data.getD []).length < 128 ^ 9)
    (o : Outcome AppResponse) (ch' : Chain E) (tr : Trace)
    (h : Executor.executeContract cfg blk fuel ch s contract m funds = (o, ch', tr)) (ho : o.isOk = false) :
    ch' = ch := by
  unfold Executor.executeContract at h
  rcases hx : App.execute cfg blk fuel ch s (.wasmExecute contract m funds) with ⟨o₁, c₁, t₁⟩
  rw [hx] at h
  cases o₁ with
  | ok r =>
    obtain ⟨r₀, hr⟩ := app_execute_execute_data cfg blk fuel ch s contract m funds r c₁ t₁ hx
    have hs := hsize r c₁ t₁ hx
    simp only at h
    cases hd : r.data with
    | none =>
      rw [hd] at h
      simp only [Prod.mk.injEq] at h
      rw [← h.1] at ho; simp [Outcome.isOk] at ho
    | some d =>
      rw [hd] at h hs
      simp only [Option.getD_some] at hs
      have hd' : r₀.data.map encodeExecuteResponse = some d := by rw [hr] at hd; exact hd
      cases hd0 : r₀.data with
      | none => rw [hd0] at hd'; cases hd'
      | some d₀ =>
        rw [hd0] at hd'
        simp only [Option.map_some, Option.some.injEq] at hd'
        rw [← hd'] at hs h
        simp only at h
        rw [parse_execute_encode d₀ hs] at h
        simp only [Prod.mk.injEq] at h
        rw [← h.1] at ho; simp [Outcome.isOk] at ho
  | err =>
    simp only [Prod.mk.injEq] at h
    rw [← h.2.1]; exact Engine.atomic_execute cfg blk fuel ch s _ _ c₁ t₁ hx rfl
  | panic =>
    simp only [Prod.mk.injEq] at h
    rw [← h.2.1]; exact Engine.atomic_execute cfg blk fuel ch s _ _ c₁ t₁ hx rfl
  | outOfFuel =>
    simp only [Prod.mk.injEq] at h
    rw [← h.2.1]; exact Engine.atomic_execute cfg blk fuel ch s _ _ c₁ t₁ hx rfl

end CwMt.ExecutorP
