import CwMt.Proofs.Overlay
import CwMt.Model.Client
/-
  CwMt.Proofs.Client — whole clients of the storage interface refine ordered-map semantics.
-/
namespace CwMt

/-! ### the stack beneath the top layer -/

theorem Stack.beneath_eq_discard (st : Stack) : st.beneath = st.discard := by
  cases st <;> rfl

theorem WF.beneath (st : Stack) (h : WF st) : WF st.beneath := by
  rw [Stack.beneath_eq_discard]; exact WF.discard st h

theorem Stack.beneath_push (st : Stack) : st.push.beneath = st := rfl

/-- `st'` has the same shape as `st` around the top: same depth, and (unless both are roots) the
very same stack beneath the top layer. -/
def SameFrame (st st' : Stack) : Prop :=
  st'.depth = st.depth ∧ (0 < st.depth → st'.beneath = st.beneath)

theorem SameFrame.refl (st : Stack) : SameFrame st st := ⟨rfl, fun _ => rfl⟩

theorem SameFrame.trans {a b c : Stack} (h₁ : SameFrame a b) (h₂ : SameFrame b c) :
    SameFrame a c :=
  ⟨h₂.1.trans h₁.1, fun h => (h₂.2 (h₁.1 ▸ h)).trans (h₁.2 h)⟩

theorem SameFrame.set (st : Stack) (k : Key) (v : Val) : SameFrame st (st.set k v) := by
  cases st
  · exact ⟨rfl, fun h => absurd h (Nat.lt_irrefl 0)⟩
  · exact ⟨rfl, fun _ => rfl⟩

theorem SameFrame.remove (st : Stack) (k : Key) : SameFrame st (st.remove k) := by
  cases st
  · exact ⟨rfl, fun h => absurd h (Nat.lt_irrefl 0)⟩
  · exact ⟨rfl, fun _ => rfl⟩

theorem SameFrame.applyOp (st : Stack) (op : Op) : SameFrame st (st.applyOp op) := by
  cases op
  · exact SameFrame.set st _ _
  · exact SameFrame.remove st _

theorem SameFrame.applyLog (log : List Op) : ∀ (st : Stack), SameFrame st (st.applyLog log) := by
  induction log with
  | nil => intro st; exact SameFrame.refl st
  | cons op log ih => intro st; exact (SameFrame.applyOp st op).trans (ih _)

/-- a stack of depth `d + 1` whose `beneath` is `b` is a layer over `b` -/
theorem Stack.eq_layer_of_depth {st b : Stack} {d : Nat} (hd : st.depth = d + 1)
    (hb : st.beneath = b) : ∃ l, st = .layer b l := by
  cases st with
  | root m => simp [Stack.depth] at hd
  | layer b' l => exact ⟨l, by rw [show b' = b from hb]⟩

namespace Client
variable {R : Type}

/-! ### the ordered-map run for a stack of a given frame, as a function of the current map -/

/-- `runSpec` with the current map as a separate argument: only the frame of the stack matters
(root or layer, and which stack lies beneath). -/
def runAt (c : Client R) : Stack → Store Val → R × Store Val
  | .root _, cur => c.runPureRoot cur
  | .layer b _, cur => c.runPure (abs b) cur

/-- the map base reads see, for a stack of that frame whose current map is `cur` -/
def baseAt : Stack → Store Val → Store Val
  | .root _, cur => cur
  | .layer b _, _ => abs b

theorem runSpec_eq_runAt (c : Client R) (st : Stack) : c.runSpec st = c.runAt st (abs st) := by
  cases st <;> rfl

theorem runAt_congr (c : Client R) {st st' : Stack} (h : SameFrame st st') (cur : Store Val) :
    c.runAt st' cur = c.runAt st cur := by
  obtain ⟨hd, hb⟩ := h
  cases st with
  | root m =>
    cases st' with
    | root m' => rfl
    | layer b' l' => simp [Stack.depth] at hd
  | layer b l =>
    cases st' with
    | root m' => simp [Stack.depth] at hd
    | layer b' l' =>
      have : b' = b := hb (Nat.succ_pos _)
      subst this; rfl

theorem abs_beneath (st : Stack) : abs st.beneath = baseAt st (abs st) := by
  cases st <;> rfl

theorem runAt_done (r : R) (st : Stack) (cur : Store Val) : (done r).runAt st cur = (r, cur) := by
  cases st <;> rfl

theorem runAt_get (k : Key) (cont : Option Val → Client R) (st : Stack) (cur : Store Val) :
    (get k cont).runAt st cur = (cont (cur.get k)).runAt st cur := by
  cases st <;> rfl

theorem runAt_range (s e : Option Key) (o : Order) (cont : List (Key × Val) → Client R)
    (st : Stack) (cur : Store Val) :
    (range s e o cont).runAt st cur = (cont (cur.range s e o)).runAt st cur := by
  cases st <;> rfl

theorem runAt_set (k : Key) (v : Val) (cont : Client R) (st : Stack) (cur : Store Val) :
    (set k v cont).runAt st cur = cont.runAt st (cur.set k v) := by
  cases st <;> rfl

theorem runAt_remove (k : Key) (cont : Client R) (st : Stack) (cur : Store Val) :
    (remove k cont).runAt st cur = cont.runAt st (cur.remove k) := by
  cases st <;> rfl

theorem runAt_getBase (k : Key) (cont : Option Val → Client R) (st : Stack) (cur : Store Val) :
    (getBase k cont).runAt st cur = (cont ((baseAt st cur).get k)).runAt st cur := by
  cases st <;> rfl

theorem runAt_rangeBase (s e : Option Key) (o : Order) (cont : List (Key × Val) → Client R)
    (st : Stack) (cur : Store Val) :
    (rangeBase s e o cont).runAt st cur = (cont ((baseAt st cur).range s e o)).runAt st cur := by
  cases st <;> rfl

theorem runAt_sub {X : Type} (body : Client (Option X)) (cont : Option X → Client R) (st : Stack)
    (cur : Store Val) :
    (sub body cont).runAt st cur =
      match body.runPure cur cur with
      | (some x, m) => (cont (some x)).runAt st m
      | (none, _) => (cont none).runAt st cur := by
  cases st <;> simp only [runAt, runPure, runPureRoot] <;>
    rcases body.runPure cur cur with ⟨_ | _, _⟩ <;> rfl

/-! ### the refinement theorem -/

/-- Every client, run on a well-formed stack, leaves a well-formed stack of the same frame and
answers and denotes exactly what the ordered-map run answers and computes. -/
theorem refines_aux (c : Client R) : ∀ (st : Stack), WF st →
    WF (c.runStack st).2 ∧ SameFrame st (c.runStack st).2 ∧
      c.runAt st (abs st) = ((c.runStack st).1, abs (c.runStack st).2) := by
  induction c with
  | done r => intro st h; exact ⟨h, SameFrame.refl st, runAt_done r st _⟩
  | get k cont ih =>
    intro st h
    obtain ⟨h1, h2, h3⟩ := ih (st.get k) st h
    refine ⟨h1, h2, ?_⟩
    rw [runAt_get, ← Stack.get_eq_abs st h]; exact h3
  | range s e o cont ih =>
    intro st h
    obtain ⟨h1, h2, h3⟩ := ih (st.range s e o) st h
    refine ⟨h1, h2, ?_⟩
    rw [runAt_range, ← Stack.range_eq_abs st h]; exact h3
  | set k v cont ih =>
    intro st h
    obtain ⟨h1, h2, h3⟩ := ih (st.set k v) (WF.set st h k v)
    refine ⟨h1, (SameFrame.set st k v).trans h2, ?_⟩
    rw [runAt_set, ← Stack.abs_set st h, ← runAt_congr cont (SameFrame.set st k v)]; exact h3
  | remove k cont ih =>
    intro st h
    obtain ⟨h1, h2, h3⟩ := ih (st.remove k) (WF.remove st h k)
    refine ⟨h1, (SameFrame.remove st k).trans h2, ?_⟩
    rw [runAt_remove, ← Stack.abs_remove st h, ← runAt_congr cont (SameFrame.remove st k)]; exact h3
  | getBase k cont ih =>
    intro st h
    obtain ⟨h1, h2, h3⟩ := ih (st.beneath.get k) st h
    refine ⟨h1, h2, ?_⟩
    rw [runAt_getBase, ← abs_beneath, ← Stack.get_eq_abs _ (WF.beneath st h)]; exact h3
  | rangeBase s e o cont ih =>
    intro st h
    obtain ⟨h1, h2, h3⟩ := ih (st.beneath.range s e o) st h
    refine ⟨h1, h2, ?_⟩
    rw [runAt_rangeBase, ← abs_beneath, ← Stack.range_eq_abs _ (WF.beneath st h)]; exact h3
  | sub body cont ihb ihc =>
    intro st h
    have hb := ihb st.push (WF.push st h)
    rcases hp : body.runStack st.push with ⟨ox, st1⟩
    rw [hp] at hb
    obtain ⟨hw1, hf1, hs1⟩ : WF st1 ∧ SameFrame st.push st1 ∧
        body.runAt st.push (abs st.push) = (ox, abs st1) := hb
    have hbn : st1.beneath = st := hf1.2 (Nat.succ_pos _)
    obtain ⟨l1, hl1⟩ := Stack.eq_layer_of_depth (d := st.depth) hf1.1 hbn
    subst hl1
    have hbody : body.runPure (abs st) (abs st) = (ox, abs (.layer st l1)) := hs1
    cases ox with
    | none =>
      obtain ⟨h1, h2, h3⟩ := ihc none st h
      have hrun : (sub body cont).runStack st = (cont none).runStack st := by
        simp only [runStack, hp]; rfl
      rw [hrun]
      refine ⟨h1, h2, ?_⟩
      rw [runAt_sub, hbody]; exact h3
    | some x =>
      have hc := Stack.abs_commit st l1 hw1
      have hfc : SameFrame st (Stack.commit (.layer st l1)) := SameFrame.applyLog l1.log st
      obtain ⟨h1, h2, h3⟩ := ihc (some x) _ (WF.commit _ hw1)
      have hrun : (sub body cont).runStack st =
          (cont (some x)).runStack (Stack.commit (.layer st l1)) := by
        simp only [runStack, hp]
      rw [hrun]
      refine ⟨h1, hfc.trans h2, ?_⟩
      rw [runAt_sub, hbody]
      rw [runAt_congr _ hfc, hc.1] at h3
      exact h3

/-- The statement for whole clients: if a client runs on a well-formed stack `st` and answers `r`
leaving `st'`, then `st'` is well-formed, as deep as `st`, the ordered-map run (`runSpec`) answers
`r` and computes `abs st'`, and when `st` is a layer everything beneath the top is untouched. -/
theorem refines (c : Client R) (st st' : Stack) (r : R) (h : WF st)
    (hr : c.runStack st = (r, st')) :
    WF st' ∧ st'.depth = st.depth ∧ c.runSpec st = (r, abs st') ∧
      (0 < st.depth → st'.beneath = st.beneath) := by
  obtain ⟨h1, h2, h3⟩ := refines_aux c st h
  rw [hr] at h1 h2 h3
  exact ⟨h1, h2.1, by rw [runSpec_eq_runAt]; exact h3, h2.2⟩

/-- … on a cache layer: `runPure` with the map beneath as base. -/
theorem refines_layer (c : Client R) (b : Stack) (l : Layer) (st' : Stack) (r : R)
    (h : WF (.layer b l)) (hr : c.runStack (.layer b l) = (r, st')) :
    WF st' ∧ st'.depth = b.depth + 1 ∧ c.runPure (abs b) (abs (.layer b l)) = (r, abs st') ∧
      st'.beneath = b := by
  obtain ⟨h1, h2, h3, h4⟩ := refines c _ st' r h hr
  exact ⟨h1, h2, h3, h4 (Nat.succ_pos _)⟩

/-- … directly on a root store: the result is a root store again, holding the map `runPureRoot`
computes. -/
theorem refines_root (c : Client R) (m : Store Val) (st' : Stack) (r : R)
    (h : m.Sorted) (hr : c.runStack (.root m) = (r, st')) :
    ∃ m', st' = .root m' ∧ m'.Sorted ∧ c.runPureRoot m = (r, m') := by
  obtain ⟨h1, h2, h3, _⟩ := refines c (.root m) st' r h hr
  cases st' with
  | root m' => exact ⟨m', rfl, h1, h3⟩
  | layer b l => simp [Stack.depth] at h2

/-! ### `transactional` on the root store -/

/-- `transactional(root, body)` followed by `cont`, on a root store: the body's writes reach the
root store exactly when the body answers `some`, and then the root store is precisely the map the
ordered-map run of the body computes; otherwise the root store is untouched. Holds for every body,
whatever it nests. -/
theorem sub_at_root {X : Type} (body : Client (Option X)) (cont : Option X → Client R)
    (m : Store Val) (hm : m.Sorted) :
    (sub body cont).runStack (.root m) =
      match body.runPure m m with
      | (some x, m') => (cont (some x)).runStack (.root m')
      | (none, _) => (cont none).runStack (.root m) := by
  rcases hp : body.runStack (Stack.root m).push with ⟨ox, st1⟩
  obtain ⟨hw1, hd1, hs1, hb1⟩ :=
    refines_layer body (.root m) {} st1 ox (WF.push _ hm) hp
  have hs1 : body.runPure m m = (ox, abs st1) := hs1
  cases st1 with
  | root m1 => simp [Stack.depth] at hd1
  | layer b1 l1 =>
    have : b1 = .root m := hb1
    subst this
    cases ox with
    | none => simp only [runStack, hp, hs1]; rfl
    | some x => simp only [runStack, hp, hs1, Stack.commit_root m l1 hw1]

/-- Atomicity of `transactional` at the root. -/
theorem transactional_atomic_at_root {X : Type} (body : Client (Option X)) (m : Store Val)
    (hm : m.Sorted) :
    (sub body done).runStack (.root m) =
      match body.runPure m m with
      | (some x, m') => (some x, .root m')
      | (none, _) => (none, .root m) := by
  rw [sub_at_root body done m hm]
  rcases body.runPure m m with ⟨ox, m'⟩
  cases ox <;> rfl

end Client
end CwMt
