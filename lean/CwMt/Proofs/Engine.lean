import CwMt.Model.EngineSpec
import CwMt.Proofs.Engine_Basic
import CwMt.Proofs.Engine_Call
import CwMt.Proofs.Engine_Fuel
import CwMt.Proofs.Engine_Trace
import CwMt.Proofs.Prefix
/-
  CwMt.Proofs.Engine — the lemmas referenced by CwMt/Props/C01, C02, C03, C05, C08.
  Structure:
    Engine_Basic  unfolding equations of the mutual block, `callThen` / `mapResp`, `AMap` lemmas
    Engine_Call   one `callContract`; state frames of the non-recursive steps; `execute_shape`
    Engine_Fuel   fuel monotonicity (4-way induction)
    Engine_Trace  trace growth + env + senders + storage frame (one 4-way induction, `specAt`)
-/
namespace CwMt.Engine
open CwMt
variable {E : Type}

/-! ## C01 -/

theorem atomically_not_ok {α : Type} (ch : Chain E) (x : Outcome (α × Chain E) × Trace)
    (r : Outcome α) (ch' : Chain E) (tr : Trace)
    (h : App.atomically ch x = (r, ch', tr)) (hr : r.isOk = false) : ch' = ch := by
  obtain ⟨o, t⟩ := x
  cases o with
  | ok p =>
    simp only [App.atomically, Prod.mk.injEq] at h
    rw [← h.1] at hr
    simp [Outcome.isOk] at hr
  | err => simp only [App.atomically, Prod.mk.injEq] at h; exact h.2.1.symm
  | panic => simp only [App.atomically, Prod.mk.injEq] at h; exact h.2.1.symm
  | outOfFuel => simp only [App.atomically, Prod.mk.injEq] at h; exact h.2.1.symm

theorem atomically_ok {α : Type} (ch : Chain E) (x : Outcome (α × Chain E) × Trace)
    (a : α) (ch' : Chain E) (tr : Trace)
    (h : App.atomically ch x = (.ok a, ch', tr)) : x = (.ok (a, ch'), tr) := by
  obtain ⟨o, t⟩ := x
  cases o with
  | ok p =>
    obtain ⟨a0, c0⟩ := p
    simp only [App.atomically, Prod.mk.injEq, Outcome.ok.injEq] at h
    obtain ⟨rfl, rfl, rfl⟩ := h
    rfl
  | err => simp [App.atomically] at h
  | panic => simp [App.atomically] at h
  | outOfFuel => simp [App.atomically] at h

theorem atomic_execute_multi (cfg : Config E) (blk : Block) (fuel : Nat) (ch : Chain E) (sender : Addr)
    (msgs : List Msg) (r : Outcome (List AppResponse)) (ch' : Chain E) (tr : Trace)
    (h : App.executeMulti cfg blk fuel ch sender msgs = (r, ch', tr)) (hr : r.isOk = false) : ch' = ch :=
  atomically_not_ok ch _ r ch' tr h hr

theorem atomic_sudo (cfg : Config E) (blk : Block) (fuel : Nat) (ch : Chain E) (m : SudoMsg)
    (r : Outcome AppResponse) (ch' : Chain E) (tr : Trace)
    (h : App.sudo cfg blk fuel ch m = (r, ch', tr)) (hr : r.isOk = false) : ch' = ch :=
  atomically_not_ok ch _ r ch' tr h hr

theorem atomic_wasm_sudo (cfg : Config E) (blk : Block) (fuel : Nat) (ch : Chain E) (c : Addr) (m : Val)
    (r : Outcome AppResponse) (ch' : Chain E) (tr : Trace)
    (h : App.wasmSudo cfg blk fuel ch c m = (r, ch', tr)) (hr : r.isOk = false) : ch' = ch :=
  atomically_not_ok ch _ r ch' tr h hr

theorem ok_persists (cfg : Config E) (blk : Block) (fuel : Nat) (ch : Chain E) (sender : Addr)
    (msgs : List Msg) (rs : List AppResponse) (ch' : Chain E) (tr : Trace)
    (h : App.executeMulti cfg blk fuel ch sender msgs = (.ok rs, ch', tr)) :
    App.runMsgs cfg blk fuel ch sender msgs [] = (.ok (rs, ch'), tr) :=
  atomically_ok ch _ rs ch' tr h

/-- one step of `runMsgs` in terms of `Outcome`-case analysis on the head and on the tail -/
theorem runMsgs_cons (cfg : Config E) (blk : Block) (fuel : Nat) (ch : Chain E) (sender : Addr)
    (m : Msg) (ms : List Msg) (tr : Trace) :
    App.runMsgs cfg blk fuel ch sender (m :: ms) tr =
      (match execute cfg blk fuel ch sender m tr with
      | (.ok (r, ch1), tr1) =>
        (match App.runMsgs cfg blk fuel ch1 sender ms tr1 with
        | (.ok (rs, ch2), tr2) => (.ok (r :: rs, ch2), tr2)
        | (.err, tr2) => (.err, tr2)
        | (.panic, tr2) => (.panic, tr2)
        | (.outOfFuel, tr2) => (.outOfFuel, tr2))
      | (.err, tr1) => (.err, tr1)
      | (.panic, tr1) => (.panic, tr1)
      | (.outOfFuel, tr1) => (.outOfFuel, tr1)) := by
  rw [App.runMsgs]
  rcases execute cfg blk fuel ch sender m tr with ⟨o, t⟩
  cases o with
  | ok p =>
    obtain ⟨r, ch1⟩ := p
    simp only []
    rcases App.runMsgs cfg blk fuel ch1 sender ms t with ⟨o2, t2⟩
    cases o2 with
    | ok p2 => obtain ⟨a, b⟩ := p2; rfl
    | _ => rfl
  | _ => rfl

theorem multi_length (cfg : Config E) (blk : Block) (fuel : Nat) (ch : Chain E) (sender : Addr)
    (msgs : List Msg) (tr : Trace) (rs : List AppResponse) (ch' : Chain E) (tr' : Trace)
    (h : App.runMsgs cfg blk fuel ch sender msgs tr = (.ok (rs, ch'), tr')) : rs.length = msgs.length := by
  induction msgs generalizing ch tr rs with
  | nil =>
    simp only [App.runMsgs, Prod.mk.injEq, Outcome.ok.injEq] at h
    rw [← h.1.1]; rfl
  | cons m ms ih =>
    rw [runMsgs_cons] at h
    generalize execute cfg blk fuel ch sender m tr = x at h ⊢
    obtain ⟨o, t⟩ := x
    cases o with
    | ok p =>
      obtain ⟨r, ch1⟩ := p
      simp only [] at h
      rcases hx : App.runMsgs cfg blk fuel ch1 sender ms t with ⟨o2, t2⟩
      rw [hx] at h
      cases o2 with
      | ok p2 =>
        obtain ⟨rs2, ch2⟩ := p2
        simp only [Prod.mk.injEq, Outcome.ok.injEq] at h
        obtain ⟨⟨rfl, rfl⟩, rfl⟩ := h
        rw [List.length_cons, List.length_cons, ih ch1 t rs2 hx]
      | err => simp at h
      | panic => simp at h
      | outOfFuel => simp at h
    | err => simp at h
    | panic => simp at h
    | outOfFuel => simp at h

theorem atomic_execute (cfg : Config E) (blk : Block) (fuel : Nat) (ch : Chain E) (sender : Addr)
    (m : Msg) (r : Outcome AppResponse) (ch' : Chain E) (tr : Trace)
    (h : App.execute cfg blk fuel ch sender m = (r, ch', tr)) (hr : r.isOk = false) : ch' = ch := by
  unfold App.execute at h
  rcases hx : App.executeMulti cfg blk fuel ch sender [m] with ⟨o, c, t⟩
  rw [hx] at h
  cases o with
  | ok rs =>
    have hlen := multi_length cfg blk fuel ch sender [m] [] rs c t (ok_persists cfg blk fuel ch sender [m] rs c t hx)
    match rs, hlen with
    | [r0], _ =>
      simp only [Prod.mk.injEq] at h
      rw [← h.1] at hr
      simp [Outcome.isOk] at hr
  | err =>
    simp only [Prod.mk.injEq] at h
    rw [← h.2.1]
    exact atomic_execute_multi cfg blk fuel ch sender [m] _ c t hx rfl
  | panic =>
    simp only [Prod.mk.injEq] at h
    rw [← h.2.1]
    exact atomic_execute_multi cfg blk fuel ch sender [m] _ c t hx rfl
  | outOfFuel =>
    simp only [Prod.mk.injEq] at h
    rw [← h.2.1]
    exact atomic_execute_multi cfg blk fuel ch sender [m] _ c t hx rfl

theorem multi_in_order_ok (cfg : Config E) (blk : Block) (fuel : Nat) (ch : Chain E) (sender : Addr)
    (ms₁ ms₂ : List Msg) (tr : Trace) (rs₁ : List AppResponse) (ch₁ : Chain E) (tr₁ : Trace)
    (h : App.runMsgs cfg blk fuel ch sender ms₁ tr = (.ok (rs₁, ch₁), tr₁)) :
    App.runMsgs cfg blk fuel ch sender (ms₁ ++ ms₂) tr =
      (match App.runMsgs cfg blk fuel ch₁ sender ms₂ tr₁ with
       | (.ok (rs₂, ch₂), tr₂) => (.ok (rs₁ ++ rs₂, ch₂), tr₂)
       | (.err, tr₂) => (.err, tr₂)
       | (.panic, tr₂) => (.panic, tr₂)
       | (.outOfFuel, tr₂) => (.outOfFuel, tr₂)) := by
  induction ms₁ generalizing ch tr rs₁ with
  | nil =>
    simp only [App.runMsgs, Prod.mk.injEq, Outcome.ok.injEq] at h
    obtain ⟨⟨rfl, rfl⟩, rfl⟩ := h
    rw [List.nil_append]
    rcases App.runMsgs cfg blk fuel ch sender ms₂ tr with ⟨o, t⟩
    cases o with
    | ok p => obtain ⟨a, b⟩ := p; rfl
    | _ => rfl
  | cons m ms ih =>
    rw [List.cons_append, runMsgs_cons]
    rw [runMsgs_cons] at h
    generalize execute cfg blk fuel ch sender m tr = x at h ⊢
    obtain ⟨o, t⟩ := x
    cases o with
    | ok p =>
      obtain ⟨r, ch1⟩ := p
      simp only [] at h ⊢
      rcases hx : App.runMsgs cfg blk fuel ch1 sender ms t with ⟨o2, t2⟩
      rw [hx] at h
      cases o2 with
      | ok p2 =>
        obtain ⟨rs2, ch2⟩ := p2
        simp only [Prod.mk.injEq, Outcome.ok.injEq] at h
        obtain ⟨⟨rfl, rfl⟩, rfl⟩ := h
        rw [ih ch1 t rs2 hx]
        rcases App.runMsgs cfg blk fuel ch2 sender ms₂ t2 with ⟨o3, t3⟩
        cases o3 with
        | ok p3 => obtain ⟨a, b⟩ := p3; rfl
        | _ => rfl
      | err => simp at h
      | panic => simp at h
      | outOfFuel => simp at h
    | err => simp at h
    | panic => simp at h
    | outOfFuel => simp at h

theorem multi_first_error_aborts (cfg : Config E) (blk : Block) (fuel : Nat) (ch : Chain E) (sender : Addr)
    (ms₁ ms₂ : List Msg) (tr : Trace) (o : Outcome (List AppResponse × Chain E)) (tr₁ : Trace)
    (h : App.runMsgs cfg blk fuel ch sender ms₁ tr = (o, tr₁)) (ho : o.isOk = false) :
    App.runMsgs cfg blk fuel ch sender (ms₁ ++ ms₂) tr = (o, tr₁) := by
  induction ms₁ generalizing ch tr with
  | nil =>
    simp only [App.runMsgs, Prod.mk.injEq] at h
    rw [← h.1] at ho
    simp [Outcome.isOk] at ho
  | cons m ms ih =>
    rw [List.cons_append, runMsgs_cons]
    rw [runMsgs_cons] at h
    generalize execute cfg blk fuel ch sender m tr = x at h ⊢
    obtain ⟨o1, t⟩ := x
    cases o1 with
    | ok p =>
      obtain ⟨r, ch1⟩ := p
      simp only [] at h ⊢
      rcases hx : App.runMsgs cfg blk fuel ch1 sender ms t with ⟨o2, t2⟩
      rw [hx] at h
      cases o2 with
      | ok p2 =>
        obtain ⟨rs2, ch2⟩ := p2
        simp only [Prod.mk.injEq] at h
        rw [← h.1] at ho
        simp [Outcome.isOk] at ho
      | err => cases h; rw [ih ch1 t hx]
      | panic => cases h; rw [ih ch1 t hx]
      | outOfFuel => cases h; rw [ih ch1 t hx]
    | err => exact h
    | panic => exact h
    | outOfFuel => exact h

/-! ## C02 -/

theorem failed_sub_discarded (cfg : Config E) (blk : Block) (fuel : Nat) (ch : Chain E) (contract : Addr)
    (sm : SubMsg) (tr tr₁ : Trace)
    (h : execute cfg blk fuel ch contract sm.msg tr = (.err, tr₁)) :
    executeSubmsg cfg blk (fuel + 1) ch contract sm tr =
      (if wantsReplyOnErr sm.replyOn then reply cfg blk fuel ch contract ⟨sm.id, sm.payload, .err⟩ tr₁
       else (.err, tr₁)) := by
  rw [executeSubmsg_succ, h]

theorem caught_iff (cfg : Config E) (blk : Block) (fuel : Nat) (ch : Chain E) (contract : Addr)
    (sm : SubMsg) (tr tr₁ : Trace)
    (h : execute cfg blk fuel ch contract sm.msg tr = (.err, tr₁)) :
    (executeSubmsg cfg blk (fuel + 1) ch contract sm tr).1.isOk = true ↔
      (wantsReplyOnErr sm.replyOn = true ∧
        (reply cfg blk fuel ch contract ⟨sm.id, sm.payload, .err⟩ tr₁).1.isOk = true) := by
  rw [failed_sub_discarded cfg blk fuel ch contract sm tr tr₁ h]
  by_cases hw : wantsReplyOnErr sm.replyOn = true
  · simp [hw]
  · simp [hw, Outcome.isOk]

theorem ok_sub_visible (cfg : Config E) (blk : Block) (fuel : Nat) (ch ch₁ : Chain E) (contract : Addr)
    (sm : SubMsg) (tr tr₁ : Trace) (r : AppResponse)
    (h : execute cfg blk fuel ch contract sm.msg tr = (.ok (r, ch₁), tr₁)) :
    executeSubmsg cfg blk (fuel + 1) ch contract sm tr =
      (if wantsReplyOnOk sm.replyOn then
        (match reply cfg blk fuel ch₁ contract ⟨sm.id, sm.payload, .ok r.events r.data⟩ tr₁ with
         | (.ok (rr, ch₂), tr₂) => (.ok ({ events := r.events ++ rr.events, data := rr.data }, ch₂), tr₂)
         | other => other)
       else (.ok ({ r with data := none }, ch₁), tr₁)) := by
  rw [executeSubmsg_succ, h]
  rfl

theorem reply_failure_propagates (cfg : Config E) (blk : Block) (fuel : Nat) (ch ch₁ : Chain E)
    (contract : Addr) (sm : SubMsg) (tr tr₁ tr₂ : Trace) (r : AppResponse)
    (h : execute cfg blk fuel ch contract sm.msg tr = (.ok (r, ch₁), tr₁))
    (hw : wantsReplyOnOk sm.replyOn = true)
    (hr : reply cfg blk fuel ch₁ contract ⟨sm.id, sm.payload, .ok r.events r.data⟩ tr₁ = (.err, tr₂)) :
    executeSubmsg cfg blk (fuel + 1) ch contract sm tr = (.err, tr₂) := by
  rw [ok_sub_visible cfg blk fuel ch ch₁ contract sm tr tr₁ r h, if_pos hw, hr]

theorem siblings_in_order (cfg : Config E) (blk : Block) (fuel : Nat) (ch : Chain E) (contract : Addr)
    (resp : AppResponse) (sm : SubMsg) (rest : List SubMsg) (tr : Trace) :
    processResponse cfg blk (fuel + 1) ch contract resp (sm :: rest) tr =
      (match executeSubmsg cfg blk fuel ch contract sm tr with
       | (.ok (sr, ch₁), tr₁) =>
         processResponse cfg blk fuel ch₁ contract
           { events := resp.events ++ sr.events, data := sr.data.orElse fun _ => resp.data } rest tr₁
       | other => other) :=
  processResponse_succ_cons cfg blk fuel ch contract resp sm rest tr

theorem uncaught_propagates (cfg : Config E) (blk : Block) (fuel : Nat) (ch : Chain E) (contract : Addr)
    (resp : AppResponse) (sm : SubMsg) (rest : List SubMsg) (tr tr₁ : Trace)
    (h : executeSubmsg cfg blk fuel ch contract sm tr = (.err, tr₁)) :
    processResponse cfg blk (fuel + 1) ch contract resp (sm :: rest) tr = (.err, tr₁) := by
  rw [processResponse_succ_cons, h]

/-! ## C03 -/

theorem trace_grows_execute (cfg : Config E) (blk : Block) (fuel : Nat) (ch : Chain E) (sender : Addr)
    (m : Msg) (tr : Trace) : ∃ new, (execute cfg blk fuel ch sender m tr).2 = tr ++ new := by
  obtain ⟨new, e, _⟩ := (specAt cfg blk fuel).1 ch sender m tr
  exact ⟨new, e⟩

theorem trace_grows_processResponse (cfg : Config E) (blk : Block) (fuel : Nat) (ch : Chain E) (c : Addr)
    (r : AppResponse) (l : List SubMsg) (tr : Trace) :
    ∃ new, (processResponse cfg blk fuel ch c r l tr).2 = tr ++ new := by
  obtain ⟨new, e, _⟩ := (specAt cfg blk fuel).2.1 ch c r l tr
  exact ⟨new, e⟩

theorem trace_grows_executeSubmsg (cfg : Config E) (blk : Block) (fuel : Nat) (ch : Chain E) (c : Addr)
    (sm : SubMsg) (tr : Trace) : ∃ new, (executeSubmsg cfg blk fuel ch c sm tr).2 = tr ++ new := by
  obtain ⟨new, e, _⟩ := (specAt cfg blk fuel).2.2.1 ch c sm tr
  exact ⟨new, e⟩

theorem trace_grows_reply (cfg : Config E) (blk : Block) (fuel : Nat) (ch : Chain E) (c : Addr)
    (rp : Reply) (tr : Trace) : ∃ new, (reply cfg blk fuel ch c rp tr).2 = tr ++ new := by
  obtain ⟨new, e, _⟩ := (specAt cfg blk fuel).2.2.2 ch c rp tr
  exact ⟨new, e⟩

/-- the trace of `callThen`: nothing (unknown contract / code), or the call entry followed by
whatever the response processing appended -/
theorem callThen_trace (cfg : Config E) (blk : Block) (fuel : Nat) (ch : Chain E) (addr : Addr) (en : Entry)
    (custom : Event) (tr : Trace) :
    (callThen cfg blk fuel ch addr en custom tr).2 = tr ∨
    ∃ note rest, (callThen cfg blk fuel ch addr en custom tr).2 =
      tr ++ [⟨addr, en, contractEnv blk addr, note⟩] ++ rest := by
  unfold callThen
  rcases callContract_cases cfg blk ch addr en tr with h1 | ⟨note, o, h1, _⟩
  · rw [h1]; exact Or.inl rfl
  · rw [h1]
    right
    cases o with
    | ok p =>
      obtain ⟨new, e⟩ := trace_grows_processResponse cfg blk fuel p.2 addr
        (buildAppResponse addr custom p.1).1 (buildAppResponse addr custom p.1).2
        (tr ++ [⟨addr, en, contractEnv blk addr, note⟩])
      exact ⟨note, new, e⟩
    | err => exact ⟨note, [], by simp⟩
    | panic => exact ⟨note, [], by simp⟩
    | outOfFuel => exact ⟨note, [], by simp⟩

theorem callThen_trace_known (cfg : Config E) (blk : Block) (fuel : Nat) (ch : Chain E) (addr : Addr)
    (en : Entry) (custom : Event) (tr : Trace) (cd : ContractData) (code : Code E)
    (hc : ch.contracts.get? addr = some cd) (hcode : contractCode? cfg cd.codeId = some code) :
    ∃ note rest, (callThen cfg blk fuel ch addr en custom tr).2 =
      tr ++ [⟨addr, en, contractEnv blk addr, note⟩] ++ rest := by
  obtain ⟨note, o, h1⟩ := callContract_known cfg blk ch addr en tr cd code hc hcode
  unfold callThen
  rw [h1]
  cases o with
  | ok p =>
    obtain ⟨new, e⟩ := trace_grows_processResponse cfg blk fuel p.2 addr
      (buildAppResponse addr custom p.1).1 (buildAppResponse addr custom p.1).2
      (tr ++ [⟨addr, en, contractEnv blk addr, note⟩])
    exact ⟨note, new, e⟩
  | err => exact ⟨note, [], by simp⟩
  | panic => exact ⟨note, [], by simp⟩
  | outOfFuel => exact ⟨note, [], by simp⟩

theorem no_reply_unless_wanted (cfg : Config E) (blk : Block) (fuel : Nat) (ch : Chain E) (contract : Addr)
    (sm : SubMsg) (tr : Trace)
    (h : replyWanted (execute cfg blk fuel ch contract sm.msg tr).1 sm.replyOn = false) :
    (executeSubmsg cfg blk (fuel + 1) ch contract sm tr).2 = (execute cfg blk fuel ch contract sm.msg tr).2 := by
  rw [executeSubmsg_succ]
  generalize execute cfg blk fuel ch contract sm.msg tr = x at h ⊢
  obtain ⟨o, t⟩ := x
  cases o with
  | ok p =>
    simp only [replyWanted] at h
    simp [h]
  | err =>
    simp only [replyWanted] at h
    simp [h]
  | panic => rfl
  | outOfFuel => rfl

theorem reply_when_wanted (cfg : Config E) (blk : Block) (fuel : Nat) (ch : Chain E) (contract : Addr)
    (sm : SubMsg) (tr tr₁ : Trace) (r₁ : Outcome (AppResponse × Chain E)) (cd : ContractData) (code : Code E)
    (h : execute cfg blk (fuel + 1) ch contract sm.msg tr = (r₁, tr₁))
    (hw : replyWanted r₁ sm.replyOn = true)
    (hc : (replyState ch r₁).contracts.get? contract = some cd)
    (hcode : contractCode? cfg cd.codeId = some code) :
    ∃ note rest,
      (executeSubmsg cfg blk (fuel + 2) ch contract sm tr).2 =
        tr₁ ++ [⟨contract, .reply ⟨sm.id, sm.payload, subResultOf r₁⟩, contractEnv blk contract, note⟩] ++ rest := by
  rw [executeSubmsg_succ cfg blk (fuel + 1), h]
  cases r₁ with
  | ok p =>
    obtain ⟨r, ch1⟩ := p
    simp only [replyWanted] at hw
    simp only [replyState] at hc
    simp only [hw, if_true, subResultOf]
    rw [reply_succ]
    obtain ⟨note, rest, e⟩ := callThen_trace_known cfg blk fuel ch1 contract
      (.reply ⟨sm.id, sm.payload, .ok r.events r.data⟩)
      { ty := "reply", attrs := [contractAttr contract,
        ⟨"mode", replyMode ⟨sm.id, sm.payload, .ok r.events r.data⟩⟩] } tr₁ cd code hc hcode
    refine ⟨note, rest, ?_⟩
    rw [← e]
    rcases callThen cfg blk fuel ch1 contract (.reply ⟨sm.id, sm.payload, .ok r.events r.data⟩)
      { ty := "reply", attrs := [contractAttr contract,
        ⟨"mode", replyMode ⟨sm.id, sm.payload, .ok r.events r.data⟩⟩] } tr₁ with ⟨o2, t2⟩
    cases o2 <;> rfl
  | err =>
    simp only [replyWanted] at hw
    simp only [replyState] at hc
    simp only [hw, if_true, subResultOf]
    rw [reply_succ]
    exact callThen_trace_known cfg blk fuel ch contract _ _ tr₁ cd code hc hcode
  | panic => simp [replyWanted] at hw
  | outOfFuel => simp [replyWanted] at hw

/-! ## C05 -/

theorem sender_authentic (cfg : Config E) (blk : Block) (fuel : Nat) (ch : Chain E) (sender : Addr)
    (m : Msg) (tr : Trace) (new : Trace)
    (h : (execute cfg blk fuel ch sender m tr).2 = tr ++ new) : SendersFrom sender new := by
  obtain ⟨new', e, _, sf, _⟩ := (specAt cfg blk fuel).1 ch sender m tr
  rw [h] at e
  rw [List.append_cancel_left e]
  exact sf

theorem env_authentic (cfg : Config E) (blk : Block) (fuel : Nat) (ch : Chain E) (sender : Addr)
    (m : Msg) (tr : Trace) (new : Trace)
    (h : (execute cfg blk fuel ch sender m tr).2 = tr ++ new) : ∀ e ∈ new, EnvOK blk e := by
  obtain ⟨new', e, env, _, _⟩ := (specAt cfg blk fuel).1 ch sender m tr
  rw [h] at e
  rw [List.append_cancel_left e]
  exact env

theorem direct_callee (cfg : Config E) (blk : Block) (fuel : Nat) (ch : Chain E)
    (sender : Addr) (c : String) (msg : Val) (funds : Coins) (tr : Trace) (new : Trace) (e : TraceEntry)
    (h : (execute cfg blk fuel ch sender (.wasmExecute c msg funds) tr).2 = tr ++ new)
    (he : new.head? = some e) :
    e.callee = c ∧ e.entry = .execute ⟨sender, funds⟩ msg := by
  have hnil : ∀ {x : Trace}, x = tr ++ new → x = tr → False := by
    intro x h1 h2
    rw [h2] at h1
    have : new = [] := by simpa using h1
    rw [this] at he
    simp at he
  cases fuel with
  | zero => rw [execute_zero] at h; exact (hnil h rfl).elim
  | succ fuel =>
    rw [execute_succ_wasmExecute] at h
    split at h
    · exact (hnil h rfl).elim
    · split at h
      · rw [mapResp_snd] at h
        rename_i ch1 _
        rcases callThen_trace cfg blk fuel ch1 c (.execute ⟨sender, funds⟩ msg)
          { ty := "execute", attrs := [contractAttr c] } tr with h1 | ⟨note, rest, h1⟩
        · exact (hnil h h1).elim
        · rw [h1, List.append_assoc] at h
          have := List.append_cancel_left h
          rw [← this] at he
          simp only [List.cons_append, List.nil_append, List.head?_cons, Option.some.injEq] at he
          rw [← he]
          exact ⟨rfl, rfl⟩
      · exact (hnil h rfl).elim
      · exact (hnil h rfl).elim
      · exact (hnil h rfl).elim

theorem sendFunds_nonempty (ch ch₁ : Chain E) (sender : Addr) (c : String) (funds : Coins)
    (hs : sendFunds ch sender c funds = .ok ch₁) (hne : funds ≠ []) :
    Bank.send ch.bank sender c funds = some ch₁.bank := by
  unfold sendFunds at hs
  have : funds.isEmpty = false := by cases funds <;> simp_all
  rw [this] at hs
  simp only [bankExecute, Bool.false_eq_true, if_false] at hs
  cases hb : Bank.send ch.bank sender c funds with
  | none => rw [hb] at hs; simp at hs
  | some b =>
    rw [hb] at hs
    simp only [Outcome.ok.injEq] at hs
    rw [← hs]

theorem funds_moved_first (cfg : Config E) (blk : Block) (fuel : Nat) (ch ch₁ : Chain E) (sender : Addr)
    (c : String) (msg : Val) (funds : Coins) (tr : Trace)
    (hv : cfg.validAddr c = true) (hs : sendFunds ch sender c funds = .ok ch₁) :
    execute cfg blk (fuel + 1) ch sender (.wasmExecute c msg funds) tr =
      (match callContract cfg blk ch₁ c (.execute ⟨sender, funds⟩ msg) tr with
       | (.ok (resp, ch₂), tr₁) =>
         (match processResponse cfg blk fuel ch₂ c
             (buildAppResponse c { ty := "execute", attrs := [contractAttr c] } resp).1
             (buildAppResponse c { ty := "execute", attrs := [contractAttr c] } resp).2 tr₁ with
          | (.ok (r, ch₃), tr₂) => (.ok ({ r with data := r.data.map encodeExecuteResponse }, ch₃), tr₂)
          | other => other)
       | (.err, tr₁) => (.err, tr₁)
       | (.panic, tr₁) => (.panic, tr₁)
       | (.outOfFuel, tr₁) => (.outOfFuel, tr₁)) ∧
      (funds ≠ [] → Bank.send ch.bank sender c funds = some ch₁.bank) := by
  refine ⟨?_, sendFunds_nonempty ch ch₁ sender c funds hs⟩
  rw [execute_succ_wasmExecute, hs]
  simp only [hv, Bool.not_true, Bool.false_eq_true, if_false]
  unfold callThen
  rcases callContract cfg blk ch₁ c (.execute ⟨sender, funds⟩ msg) tr with ⟨o, t⟩
  cases o with
  | ok p =>
    obtain ⟨resp, ch₂⟩ := p
    simp only []
    rcases processResponse cfg blk fuel ch₂ c
      (buildAppResponse c { ty := "execute", attrs := [contractAttr c] } resp).1
      (buildAppResponse c { ty := "execute", attrs := [contractAttr c] } resp).2 t with ⟨o2, t2⟩
    cases o2 with
    | ok p2 => obtain ⟨a, b⟩ := p2; rfl
    | _ => rfl
  | _ => rfl

theorem insufficient_funds_no_call (cfg : Config E) (blk : Block) (fuel : Nat) (ch : Chain E) (sender : Addr)
    (c : String) (msg : Val) (funds : Coins) (tr : Trace)
    (hne : funds ≠ []) (hs : Bank.send ch.bank sender c funds = none) :
    execute cfg blk (fuel + 1) ch sender (.wasmExecute c msg funds) tr = (.err, tr) := by
  rw [execute_succ_wasmExecute]
  split
  · rfl
  · have : sendFunds ch sender c funds = .err := by
      unfold sendFunds
      have : funds.isEmpty = false := by cases funds <;> simp_all
      rw [this]
      simp only [bankExecute, Bool.false_eq_true, if_false, hs]
    rw [this]

/-! ## C08 -/

theorem cstore_frame (cfg : Config E) (hf : ExtFrame cfg) (blk : Block) (fuel : Nat) (ch ch' : Chain E)
    (sender : Addr) (m : Msg) (tr new : Trace) (r : AppResponse)
    (h : execute cfg blk fuel ch sender m tr = (.ok (r, ch'), tr ++ new))
    (a : Addr) (ha : ∀ e ∈ new, e.callee ≠ a) : ch'.cstore.get? a = ch.cstore.get? a := by
  obtain ⟨new', e, _, _, fr⟩ := (specAt cfg blk fuel).1 ch sender m tr
  rw [h] at e fr
  have : new = new' := List.append_cancel_left e
  subst this
  exact fr hf r ch' rfl a ha

theorem raw_query_reads_window (cfg : Config E) (eq : ExtKind → Chain E → Block → Val → Outcome Val)
    (blk : Block) (ch : Chain E) (c : String) (k : Val) (hv : cfg.validAddr c = true) :
    query cfg eq blk ch (.wasmRaw c k) = .ok (.bytes ((((ch.cstore.get? c).getD []).get k).getD [])) := by
  simp [query, hv]

theorem contract_windows_disjoint (a b : String) (pa pb k : Key)
    (ha : toLPNested [("wasm".toUTF8.toList), ("contract_data/" ++ a).toUTF8.toList] = .ok pa)
    (hb : toLPNested [("wasm".toUTF8.toList), ("contract_data/" ++ b).toUTF8.toList] = .ok pb)
    (hka : pa <+: k) (hkb : pb <+: k) :
    ("contract_data/" ++ a).toUTF8.toList = ("contract_data/" ++ b).toUTF8.toList := by
  rcases Prefix.nested_disjoint _ _ pa pb k ha hb hka hkb with h | h
  · simp only [List.cons_prefix_cons, true_and] at h
    exact h.1
  · simp only [List.cons_prefix_cons, true_and] at h
    exact h.1.symm

end CwMt.Engine
