import CwMt.Model.EngineSpec
namespace CwMt.Engine
end CwMt.Engine
