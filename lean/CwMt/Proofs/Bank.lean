import CwMt.Model.Bank
/-
  CwMt.Proofs.Bank — lemmas about the bank ledger model (`CwMt/Model/Bank.lean`), used by
  `CwMt/Props/C09.lean`. Core Lean only.

  Vocabulary
    `Norm cs`      a coin list is normalised: strictly sorted by denom, no zero amounts
    `NormInv st`   the ledger's keys (addresses) are strictly sorted (what the BTreeMap-backed storage
                   guarantees; the model's `AMap.set` maintains it) and every stored balance is `Norm`
    `totalOf cs d` (model) the sum of *all* `d`-entries of a coin list — repeated denoms add up, zero coins
                   contribute nothing; this is the `total amt d` of DESIGN.md C09
-/
namespace CwMt.Bank

/-! ### strings as a strict linear order -/

theorem str_ne_of_lt {a b : String} (h : a < b) : a ≠ b := by
  intro e; subst e; exact String.lt_irrefl a h

theorem str_ne_of_gt {a b : String} (h : a < b) : b ≠ a := fun e => str_ne_of_lt h e.symm

theorem str_lt_of_not_le {a b : String} (h : ¬ a ≤ b) : b < a := String.not_le.mp h

theorem str_lt_of_le_of_ne {a b : String} (h : a ≤ b) (hne : a ≠ b) : a < b := by
  rcases Std.lt_trichotomy a b with h' | h' | h'
  · exact h'
  · exact absurd h' hne
  · exact absurd h (String.not_le.mpr h')

theorem str_lt_of_not_lt_of_ne {a b : String} (h : ¬ a < b) (hne : a ≠ b) : b < a := by
  rcases Std.lt_trichotomy a b with h' | h' | h'
  · exact absurd h' h
  · exact absurd h' hne
  · exact h'

/-! ### the invariant -/

/-- strictly sorted by denom (hence no duplicate denoms) and no zero amounts -/
def Norm (cs : Coins) : Prop :=
  cs.Pairwise (fun x y => x.denom < y.denom) ∧ ∀ c ∈ cs, c.amount ≠ 0

/-- ledger keys strictly sorted (one entry per address) and every stored balance normalised -/
def NormInv (st : State) : Prop :=
  st.Pairwise (fun p q => p.1 < q.1) ∧ ∀ p ∈ st, Norm p.2

instance (cs : Coins) : Decidable (Norm cs) := by unfold Norm; infer_instance
instance (st : State) : Decidable (NormInv st) := by unfold NormInv; infer_instance

theorem norm_nil : Norm [] := ⟨List.Pairwise.nil, by simp⟩

theorem norm_tail {x : Coin} {xs : Coins} (h : Norm (x :: xs)) : Norm xs :=
  ⟨(List.pairwise_cons.mp h.1).2, fun c hc => h.2 c (List.mem_cons_of_mem _ hc)⟩

theorem norm_head_lt {x : Coin} {xs : Coins} (h : Norm (x :: xs)) : ∀ y ∈ xs, x.denom < y.denom :=
  (List.pairwise_cons.mp h.1).1

theorem norm_nodup {cs : Coins} (h : Norm cs) : (cs.map (·.denom)).Nodup := by
  unfold List.Nodup
  rw [List.pairwise_map]
  exact h.1.imp (fun hlt => str_ne_of_lt hlt)

/-! ### `totalOf`, `amountOf` -/

theorem foldl_add_acc (l : Coins) (acc : Nat) :
    l.foldl (fun acc c => acc + c.amount) acc = acc + l.foldl (fun acc c => acc + c.amount) 0 := by
  induction l generalizing acc with
  | nil => simp
  | cons x xs ih =>
    simp only [List.foldl_cons]
    rw [ih (acc + x.amount), ih (0 + x.amount)]
    omega

@[simp] theorem totalOf_nil (d : String) : totalOf [] d = 0 := rfl

theorem totalOf_cons (c : Coin) (cs : Coins) (d : String) :
    totalOf (c :: cs) d = (if c.denom = d then c.amount else 0) + totalOf cs d := by
  unfold totalOf
  by_cases h : c.denom = d
  · simp only [List.filter_cons, h, decide_true, if_true, List.foldl_cons]
    rw [foldl_add_acc]; omega
  · simp [h]

theorem totalOf_append (xs ys : Coins) (d : String) :
    totalOf (xs ++ ys) d = totalOf xs d + totalOf ys d := by
  induction xs with
  | nil => simp
  | cons x xs ih => simp only [List.cons_append, totalOf_cons, ih]; omega

theorem totalOf_zero_of_forall_ne {cs : Coins} {d : String} (h : ∀ y ∈ cs, y.denom ≠ d) :
    totalOf cs d = 0 := by
  induction cs with
  | nil => rfl
  | cons x xs ih =>
    rw [totalOf_cons, if_neg (h x (by simp)), ih (fun y hy => h y (List.mem_cons_of_mem _ hy))]

theorem totalOf_filter_nonzero (cs : Coins) (d : String) :
    totalOf (cs.filter (fun c => c.amount ≠ 0)) d = totalOf cs d := by
  induction cs with
  | nil => rfl
  | cons x xs ih =>
    by_cases hx : x.amount = 0
    · simp_all [totalOf_cons]
    · simp_all [totalOf_cons]

/-- a list without positive amounts has total zero everywhere, and conversely -/
theorem totalOf_all_zero_iff (cs : Coins) : (∀ d, totalOf cs d = 0) ↔ ∀ c ∈ cs, c.amount = 0 := by
  induction cs with
  | nil => simp
  | cons x xs ih =>
    constructor
    · intro h c hc
      have hx : x.amount = 0 := by
        have := h x.denom
        rw [totalOf_cons] at this
        simp at this
        exact this.1
      have hxs : ∀ d, totalOf xs d = 0 := by
        intro d
        have := h d
        rw [totalOf_cons] at this
        omega
      rcases List.mem_cons.mp hc with e | e
      · subst e; exact hx
      · exact ih.mp hxs c e
    · intro h d
      rw [totalOf_cons, h x (by simp), (ih.mpr (fun c hc => h c (List.mem_cons_of_mem _ hc))) d]
      simp

@[simp] theorem amountOf_nil (d : String) : amountOf [] d = 0 := rfl

theorem amountOf_cons (c : Coin) (cs : Coins) (d : String) :
    amountOf (c :: cs) d = if c.denom = d then c.amount else amountOf cs d := by
  unfold amountOf
  by_cases h : c.denom = d <;> simp [h]

theorem amountOf_zero_of_forall_ne {cs : Coins} {d : String} (h : ∀ y ∈ cs, y.denom ≠ d) :
    amountOf cs d = 0 := by
  induction cs with
  | nil => rfl
  | cons x xs ih =>
    rw [amountOf_cons, if_neg (h x (by simp))]
    exact ih (fun y hy => h y (List.mem_cons_of_mem _ hy))

theorem amountOf_zero_of_not_any {cs : Coins} {d : String}
    (h : ¬ (cs.any (fun y => y.denom = d)) = true) : amountOf cs d = 0 := by
  apply amountOf_zero_of_forall_ne
  intro y hy e
  apply h
  rw [List.any_eq_true]
  exact ⟨y, hy, by simp [e]⟩

/-- in a normalised list the first `d`-entry is the only one -/
theorem totalOf_eq_amountOf {cs : Coins} (h : Norm cs) (d : String) : totalOf cs d = amountOf cs d := by
  induction cs with
  | nil => rfl
  | cons x xs ih =>
    rw [totalOf_cons, amountOf_cons]
    by_cases hx : x.denom = d
    · rw [if_pos hx, if_pos hx]
      have : totalOf xs d = 0 :=
        totalOf_zero_of_forall_ne (fun y hy => hx ▸ str_ne_of_gt (norm_head_lt h y hy))
      omega
    · rw [if_neg hx, if_neg hx, ih (norm_tail h)]; omega

/-- the entry that `amountOf` reports is an element of the list (or the amount is 0) -/
theorem amountOf_mem (cs : Coins) (d : String) :
    (∃ c ∈ cs, c.denom = d ∧ c.amount = amountOf cs d) ∨
      ((∀ c ∈ cs, c.denom ≠ d) ∧ amountOf cs d = 0) := by
  induction cs with
  | nil => right; simp
  | cons x xs ih =>
    rw [amountOf_cons]
    by_cases hx : x.denom = d
    · left; exact ⟨x, by simp, hx, by simp [hx]⟩
    · rw [if_neg hx]
      rcases ih with ⟨c, hc, h1, h2⟩ | ⟨h1, h2⟩
      · left; exact ⟨c, List.mem_cons_of_mem _ hc, h1, h2⟩
      · right
        refine ⟨?_, h2⟩
        intro c hc
        rcases List.mem_cons.mp hc with e | e
        · subst e; exact hx
        · exact h1 c e

/-- normalised coin lists are canonical: equal amounts for every denom means equal lists -/
theorem norm_ext : ∀ {a b : Coins}, Norm a → Norm b → (∀ d, amountOf a d = amountOf b d) → a = b
  | [], [], _, _, _ => rfl
  | [], y :: ys, _, hb, h => by
    have := h y.denom
    rw [amountOf_cons] at this
    simp at this
    exact absurd this.symm (hb.2 y (by simp))
  | x :: xs, [], ha, _, h => by
    have := h x.denom
    rw [amountOf_cons] at this
    simp at this
    exact absurd this (ha.2 x (by simp))
  | x :: xs, y :: ys, ha, hb, h => by
    have hxd : x.denom = y.denom := by
      rcases Std.lt_trichotomy x.denom y.denom with hlt | heq | hlt
      · exfalso
        have h1 := h x.denom
        rw [amountOf_cons, if_pos rfl, amountOf_cons, if_neg (str_ne_of_gt hlt)] at h1
        rw [amountOf_zero_of_forall_ne
          (fun z hz => str_ne_of_gt (String.lt_trans hlt (norm_head_lt hb z hz)))] at h1
        exact ha.2 x (by simp) h1
      · exact heq
      · exfalso
        have h1 := h y.denom
        rw [amountOf_cons, if_neg (str_ne_of_gt hlt), amountOf_cons, if_pos rfl] at h1
        rw [amountOf_zero_of_forall_ne
          (fun z hz => str_ne_of_gt (String.lt_trans hlt (norm_head_lt ha z hz)))] at h1
        exact hb.2 y (by simp) h1.symm
    have hxa : x.amount = y.amount := by
      have h1 := h x.denom
      rw [amountOf_cons, if_pos rfl, amountOf_cons, if_pos hxd.symm] at h1
      exact h1
    have hxy : x = y := by
      cases x; cases y; simp_all
    subst hxy
    have ht : xs = ys := by
      apply norm_ext (norm_tail ha) (norm_tail hb)
      intro d
      by_cases hd : x.denom = d
      · rw [amountOf_zero_of_forall_ne (fun z hz => hd ▸ str_ne_of_gt (norm_head_lt ha z hz)),
          amountOf_zero_of_forall_ne (fun z hz => hd ▸ str_ne_of_gt (norm_head_lt hb z hz))]
      · have h1 := h d
        rw [amountOf_cons, if_neg hd, amountOf_cons, if_neg hd] at h1
        exact h1
    rw [ht]

/-! ### `addCoin` (`NativeBalance += Coin`) -/

theorem amountOf_addCoin (b : Coins) (c : Coin) (d : String) :
    amountOf (addCoin b c) d = amountOf b d + (if c.denom = d then c.amount else 0) := by
  induction b with
  | nil => simp [addCoin, amountOf_cons]
  | cons x xs ih =>
    unfold addCoin
    by_cases h1 : x.denom = c.denom
    · rw [if_pos h1, amountOf_cons, amountOf_cons]
      by_cases hd : x.denom = d
      · have : c.denom = d := h1 ▸ hd
        simp [hd, this]
      · have : ¬ c.denom = d := h1 ▸ hd
        simp [hd, this]
    · rw [if_neg h1]
      by_cases h2 : ((x :: xs).any (fun y => y.denom = c.denom)) = true
      · rw [if_pos h2, amountOf_cons, amountOf_cons, ih]
        by_cases hd : x.denom = d
        · have : ¬ c.denom = d := fun e => h1 (hd.trans e.symm)
          simp [hd, this]
        · simp [hd]
      · rw [if_neg h2]
        by_cases h3 : c.denom ≤ x.denom
        · rw [if_pos h3, amountOf_cons]
          by_cases hd : c.denom = d
          · rw [if_pos hd, if_pos hd, ← hd, amountOf_zero_of_not_any h2]; omega
          · rw [if_neg hd, if_neg hd]; omega
        · rw [if_neg h3, amountOf_cons, amountOf_cons, ih]
          by_cases hd : x.denom = d
          · have : ¬ c.denom = d := fun e => h1 (hd.trans e.symm)
            simp [hd, this]
          · simp [hd]

theorem mem_addCoin_denom {b : Coins} {c y : Coin} (h : y ∈ addCoin b c) :
    y.denom = c.denom ∨ ∃ z ∈ b, z.denom = y.denom := by
  induction b with
  | nil =>
    simp [addCoin] at h
    left; rw [h]
  | cons x xs ih =>
    unfold addCoin at h
    by_cases h1 : x.denom = c.denom
    · rw [if_pos h1] at h
      rcases List.mem_cons.mp h with e | e
      · right; exact ⟨x, by simp, by rw [e]⟩
      · right; exact ⟨y, List.mem_cons_of_mem _ e, rfl⟩
    · rw [if_neg h1] at h
      have rec_case : y ∈ x :: addCoin xs c → y.denom = c.denom ∨ ∃ z ∈ x :: xs, z.denom = y.denom := by
        intro h
        rcases List.mem_cons.mp h with e | e
        · right; exact ⟨x, by simp, by rw [e]⟩
        · rcases ih e with r | ⟨z, hz, hzd⟩
          · left; exact r
          · right; exact ⟨z, List.mem_cons_of_mem _ hz, hzd⟩
      by_cases h2 : ((x :: xs).any (fun y => y.denom = c.denom)) = true
      · rw [if_pos h2] at h; exact rec_case h
      · rw [if_neg h2] at h
        by_cases h3 : c.denom ≤ x.denom
        · rw [if_pos h3] at h
          rcases List.mem_cons.mp h with e | e
          · left; rw [e]
          · right; exact ⟨y, e, rfl⟩
        · rw [if_neg h3] at h; exact rec_case h

theorem mem_addCoin_amount {b : Coins} {c y : Coin} (hb : ∀ z ∈ b, z.amount ≠ 0) (hc : c.amount ≠ 0)
    (h : y ∈ addCoin b c) : y.amount ≠ 0 := by
  induction b with
  | nil =>
    simp [addCoin] at h
    rw [h]; exact hc
  | cons x xs ih =>
    have hxs : ∀ z ∈ xs, z.amount ≠ 0 := fun z hz => hb z (List.mem_cons_of_mem _ hz)
    unfold addCoin at h
    by_cases h1 : x.denom = c.denom
    · rw [if_pos h1] at h
      rcases List.mem_cons.mp h with e | e
      · rw [e]; simp; intro hx; exact absurd hx (hb x (by simp))
      · exact hxs y e
    · rw [if_neg h1] at h
      have rec_case : y ∈ x :: addCoin xs c → y.amount ≠ 0 := by
        intro h
        rcases List.mem_cons.mp h with e | e
        · rw [e]; exact hb x (by simp)
        · exact ih hxs e
      by_cases h2 : ((x :: xs).any (fun y => y.denom = c.denom)) = true
      · rw [if_pos h2] at h; exact rec_case h
      · rw [if_neg h2] at h
        by_cases h3 : c.denom ≤ x.denom
        · rw [if_pos h3] at h
          rcases List.mem_cons.mp h with e | e
          · rw [e]; exact hc
          · exact hb y e
        · rw [if_neg h3] at h; exact rec_case h

theorem sorted_addCoin {b : Coins} (c : Coin) (hb : b.Pairwise (fun x y => x.denom < y.denom)) :
    (addCoin b c).Pairwise (fun x y => x.denom < y.denom) := by
  induction b with
  | nil => simp [addCoin]
  | cons x xs ih =>
    have hx := (List.pairwise_cons.mp hb).1
    have hxs := (List.pairwise_cons.mp hb).2
    unfold addCoin
    by_cases h1 : x.denom = c.denom
    · rw [if_pos h1]
      exact List.pairwise_cons.mpr ⟨hx, hxs⟩
    · rw [if_neg h1]
      by_cases h2 : ((x :: xs).any (fun y => y.denom = c.denom)) = true
      · rw [if_pos h2]
        refine List.pairwise_cons.mpr ⟨?_, ih hxs⟩
        intro y hy
        rcases mem_addCoin_denom hy with e | ⟨z, hz, hzd⟩
        · rw [List.any_eq_true] at h2
          obtain ⟨w, hw, hwd⟩ := h2
          have hwd : w.denom = c.denom := by simpa using hwd
          rcases List.mem_cons.mp hw with e' | e'
          · exact absurd (e' ▸ hwd) h1
          · rw [e, ← hwd]; exact hx w e'
        · rw [← hzd]; exact hx z hz
      · rw [if_neg h2]
        by_cases h3 : c.denom ≤ x.denom
        · rw [if_pos h3]
          have hlt : c.denom < x.denom := str_lt_of_le_of_ne h3 (fun e => h1 e.symm)
          refine List.pairwise_cons.mpr ⟨?_, hb⟩
          intro y hy
          rcases List.mem_cons.mp hy with e | e
          · rw [e]; exact hlt
          · exact String.lt_trans hlt (hx y e)
        · rw [if_neg h3]
          have hlt : x.denom < c.denom := str_lt_of_not_le h3
          refine List.pairwise_cons.mpr ⟨?_, ih hxs⟩
          intro y hy
          rcases mem_addCoin_denom hy with e | ⟨z, hz, hzd⟩
          · rw [e]; exact hlt
          · rw [← hzd]; exact hx z hz

theorem norm_addCoin {b : Coins} {c : Coin} (hb : Norm b) (hc : c.amount ≠ 0) : Norm (addCoin b c) :=
  ⟨sorted_addCoin c hb.1, fun _ hy => mem_addCoin_amount hb.2 hc hy⟩

theorem norm_foldl_addCoin {b : Coins} (amt : Coins) (hb : Norm b) (hamt : ∀ c ∈ amt, c.amount ≠ 0) :
    Norm (amt.foldl addCoin b) := by
  induction amt generalizing b with
  | nil => exact hb
  | cons c cs ih =>
    simp only [List.foldl_cons]
    exact ih (norm_addCoin hb (hamt c (by simp))) (fun c' hc' => hamt c' (List.mem_cons_of_mem _ hc'))

theorem amountOf_foldl_addCoin (b amt : Coins) (d : String) :
    amountOf (amt.foldl addCoin b) d = amountOf b d + totalOf amt d := by
  induction amt generalizing b with
  | nil => simp
  | cons c cs ih =>
    simp only [List.foldl_cons]
    rw [ih, amountOf_addCoin, totalOf_cons]; omega

/-! ### `normalize`, `normalizeAmount` -/

theorem filter_nonzero_all (cs : Coins) : ∀ c ∈ cs.filter (fun c => c.amount ≠ 0), c.amount ≠ 0 := by
  intro c hc
  have := (List.mem_filter.mp hc).2
  simpa using this

/-- `NativeBalance::normalize` produces a normalised list … -/
theorem norm_normalize (cs : Coins) : Norm (normalize cs) :=
  norm_foldl_addCoin _ norm_nil (filter_nonzero_all cs)

/-- … whose `d` entry is the sum of all `d` entries of the input (this and `norm_ext` determine it) -/
theorem amountOf_normalize (cs : Coins) (d : String) : amountOf (normalize cs) d = totalOf cs d := by
  unfold normalize
  rw [amountOf_foldl_addCoin, totalOf_filter_nonzero]; simp

/-- normalising a normalised list changes nothing -/
theorem normalize_of_norm {cs : Coins} (h : Norm cs) : normalize cs = cs :=
  norm_ext (norm_normalize cs) h (fun d => by rw [amountOf_normalize, totalOf_eq_amountOf h])

theorem normalizeAmount_eq (cs : Coins) :
    normalizeAmount cs = if (cs.filter (fun c => c.amount ≠ 0)).isEmpty then none
      else some (cs.filter (fun c => c.amount ≠ 0)) := rfl

/-- `normalize_amount` fails exactly when no coin of the list is positive -/
theorem normalizeAmount_none_iff (cs : Coins) : normalizeAmount cs = none ↔ ∀ c ∈ cs, c.amount = 0 := by
  rw [normalizeAmount_eq]
  constructor
  · intro h c hc
    by_cases hz : c.amount = 0
    · exact hz
    · exfalso
      have hmem : c ∈ cs.filter (fun c => c.amount ≠ 0) := List.mem_filter.mpr ⟨hc, by simpa using hz⟩
      split at h
      · rename_i he
        rw [List.isEmpty_iff] at he
        rw [he] at hmem; simp at hmem
      · simp at h
  · intro h
    have : cs.filter (fun c => c.amount ≠ 0) = [] := by
      rw [List.filter_eq_nil_iff]
      intro c hc
      simp [h c hc]
    rw [this]; rfl

theorem normalizeAmount_some {cs r : Coins} (h : normalizeAmount cs = some r) :
    r = cs.filter (fun c => c.amount ≠ 0) ∧ (∀ c ∈ r, c.amount ≠ 0) ∧ ∀ d, totalOf r d = totalOf cs d := by
  rw [normalizeAmount_eq] at h
  split at h
  · simp at h
  · have : r = cs.filter (fun c => c.amount ≠ 0) := by simpa using h.symm
    subst this
    exact ⟨rfl, filter_nonzero_all cs, totalOf_filter_nonzero cs⟩

/-! ### `subCoin`, `subCoins` (checked subtraction) -/

theorem subCoin_some {b : Coins} {c : Coin} {b' : Coins} (hb : Norm b) (h : subCoin b c = some b') :
    Norm b' ∧ (∀ y ∈ b', ∃ z ∈ b, z.denom = y.denom) ∧
      ∀ d, amountOf b' d + (if c.denom = d then c.amount else 0) = amountOf b d := by
  induction b generalizing b' with
  | nil => simp [subCoin] at h
  | cons x xs ih =>
    have hx := norm_head_lt hb
    have hxs := norm_tail hb
    unfold subCoin at h
    by_cases h1 : x.denom = c.denom
    · rw [if_pos h1] at h
      by_cases h2 : x.amount < c.amount
      · rw [if_pos h2] at h; simp at h
      · rw [if_neg h2] at h
        by_cases h3 : x.amount = c.amount
        · rw [if_pos h3] at h
          have : b' = xs := by simpa using h.symm
          subst this
          refine ⟨hxs, fun y hy => ⟨y, List.mem_cons_of_mem _ hy, rfl⟩, ?_⟩
          intro d
          rw [amountOf_cons]
          by_cases hd : x.denom = d
          · have hcd : c.denom = d := h1 ▸ hd
            rw [if_pos hcd, if_pos hd,
              amountOf_zero_of_forall_ne (fun z hz => hd ▸ str_ne_of_gt (hx z hz))]
            omega
          · have hcd : ¬ c.denom = d := h1 ▸ hd
            rw [if_neg hcd, if_neg hd]; omega
        · rw [if_neg h3] at h
          have : b' = { x with amount := x.amount - c.amount } :: xs := by simpa using h.symm
          subst this
          refine ⟨⟨List.pairwise_cons.mpr ⟨hx, hxs.1⟩, ?_⟩, ?_, ?_⟩
          · intro y hy
            rcases List.mem_cons.mp hy with e | e
            · rw [e]; simp; omega
            · exact hxs.2 y e
          · intro y hy
            rcases List.mem_cons.mp hy with e | e
            · exact ⟨x, by simp, by rw [e]⟩
            · exact ⟨y, List.mem_cons_of_mem _ e, rfl⟩
          · intro d
            rw [amountOf_cons, amountOf_cons]
            by_cases hd : x.denom = d
            · have hcd : c.denom = d := h1 ▸ hd
              simp only [hd, hcd, if_true]; omega
            · have hcd : ¬ c.denom = d := h1 ▸ hd
              simp only [hd, hcd, if_false]; omega
    · rw [if_neg h1] at h
      cases hr : subCoin xs c with
      | none => rw [hr] at h; simp at h
      | some r =>
        rw [hr] at h
        have : b' = x :: r := by simpa using h.symm
        subst this
        obtain ⟨hn, hm, ha⟩ := ih hxs hr
        refine ⟨⟨List.pairwise_cons.mpr ⟨?_, hn.1⟩, ?_⟩, ?_, ?_⟩
        · intro y hy
          obtain ⟨z, hz, hzd⟩ := hm y hy
          rw [← hzd]; exact hx z hz
        · intro y hy
          rcases List.mem_cons.mp hy with e | e
          · rw [e]; exact hb.2 x (by simp)
          · exact hn.2 y e
        · intro y hy
          rcases List.mem_cons.mp hy with e | e
          · exact ⟨x, by simp, by rw [e]⟩
          · obtain ⟨z, hz, hzd⟩ := hm y e
            exact ⟨z, List.mem_cons_of_mem _ hz, hzd⟩
        · intro d
          rw [amountOf_cons, amountOf_cons]
          by_cases hd : x.denom = d
          · have hcd : ¬ c.denom = d := fun e => h1 (hd.trans e.symm)
            simp only [hd, hcd, if_true, if_false]; omega
          · simp only [hd, if_false]; exact ha d

theorem subCoin_isSome_iff {b : Coins} {c : Coin} (hc : c.amount ≠ 0) :
    (subCoin b c).isSome ↔ c.amount ≤ amountOf b c.denom := by
  induction b with
  | nil => simp [subCoin]; omega
  | cons x xs ih =>
    unfold subCoin
    rw [amountOf_cons]
    by_cases h1 : x.denom = c.denom
    · rw [if_pos h1, if_pos h1]
      by_cases h2 : x.amount < c.amount
      · rw [if_pos h2]; simp; omega
      · rw [if_neg h2]
        by_cases h3 : x.amount = c.amount
        · rw [if_pos h3]; simp; omega
        · rw [if_neg h3]; simp; omega
    · rw [if_neg h1, if_neg h1, Option.isSome_map]
      exact ih

theorem subCoins_some {b amt b' : Coins} (hb : Norm b) (h : subCoins b amt = some b') :
    Norm b' ∧ ∀ d, amountOf b' d + totalOf amt d = amountOf b d := by
  induction amt generalizing b with
  | nil =>
    have : b' = b := by simpa [subCoins] using h.symm
    subst this
    exact ⟨hb, fun d => by simp⟩
  | cons c cs ih =>
    unfold subCoins at h
    cases hr : subCoin b c with
    | none => rw [hr] at h; simp at h
    | some r =>
      rw [hr] at h
      simp only [Option.bind_some] at h
      obtain ⟨hn, _, ha⟩ := subCoin_some hb hr
      obtain ⟨hn', ha'⟩ := ih hn h
      refine ⟨hn', fun d => ?_⟩
      have := ha d
      have := ha' d
      rw [totalOf_cons]
      omega

theorem subCoins_isSome_iff {b amt : Coins} (hb : Norm b) (hamt : ∀ c ∈ amt, c.amount ≠ 0) :
    (subCoins b amt).isSome ↔ ∀ d, totalOf amt d ≤ amountOf b d := by
  induction amt generalizing b with
  | nil => simp [subCoins]
  | cons c cs ih =>
    have hc : c.amount ≠ 0 := hamt c (by simp)
    have hcs : ∀ c' ∈ cs, c'.amount ≠ 0 := fun c' hc' => hamt c' (List.mem_cons_of_mem _ hc')
    unfold subCoins
    cases hr : subCoin b c with
    | none =>
      simp only [Option.bind_none, Option.isSome_none, Bool.false_eq_true, false_iff]
      intro hall
      have h1 : ¬ c.amount ≤ amountOf b c.denom := by
        rw [← subCoin_isSome_iff hc, hr]; simp
      have := hall c.denom
      rw [totalOf_cons, if_pos rfl] at this
      omega
    | some r =>
      simp only [Option.bind_some]
      obtain ⟨hn, _, ha⟩ := subCoin_some hb hr
      rw [ih hn hcs]
      have h1 : c.amount ≤ amountOf b c.denom := by
        rw [← subCoin_isSome_iff hc, hr]; simp
      constructor
      · intro hall d
        have := hall d
        have := ha d
        rw [totalOf_cons]
        by_cases hd : c.denom = d
        · simp only [hd, if_true] at *; omega
        · simp only [hd, if_false] at *; omega
      · intro hall d
        have := hall d
        have := ha d
        rw [totalOf_cons] at *
        by_cases hd : c.denom = d
        · simp only [hd, if_true] at *; omega
        · simp only [hd, if_false] at *; omega

/-! ### the address map -/

theorem get?_cons (k' : String) (v : Coins) (m : State) (k : String) :
    AMap.get? ((k', v) :: m) k = if k' = k then some v else AMap.get? m k := rfl

theorem get?_set_self (m : State) (k : String) (v : Coins) : AMap.get? (AMap.set m k v) k = some v := by
  induction m with
  | nil => simp [AMap.set, AMap.get?]
  | cons p m ih =>
    obtain ⟨k', v'⟩ := p
    unfold AMap.set
    by_cases h1 : k < k'
    · rw [if_pos h1]; simp [AMap.get?]
    · rw [if_neg h1]
      by_cases h2 : k = k'
      · rw [if_pos h2]; simp [AMap.get?]
      · rw [if_neg h2, get?_cons, if_neg (fun e => h2 e.symm)]; exact ih

theorem get?_set_ne (m : State) (k k' : String) (v : Coins) (h : k' ≠ k) :
    AMap.get? (AMap.set m k v) k' = AMap.get? m k' := by
  induction m with
  | nil => simp [AMap.set, AMap.get?]; exact fun e => h e.symm
  | cons p m ih =>
    obtain ⟨k0, v0⟩ := p
    unfold AMap.set
    by_cases h1 : k < k0
    · rw [if_pos h1, get?_cons, if_neg (fun e => h e.symm)]
    · rw [if_neg h1]
      by_cases h2 : k = k0
      · rw [if_pos h2, get?_cons, get?_cons, if_neg (fun e => h e.symm), if_neg (fun e => h (h2 ▸ e).symm)]
      · rw [if_neg h2, get?_cons, get?_cons, ih]

theorem get?_none_of_lt {m : State} {a : String} (h : ∀ p ∈ m, a < p.1) : AMap.get? m a = none := by
  induction m with
  | nil => rfl
  | cons p m ih =>
    obtain ⟨k, v⟩ := p
    rw [get?_cons, if_neg (str_ne_of_gt (h (k, v) (by simp)))]
    exact ih (fun q hq => h q (List.mem_cons_of_mem _ hq))

theorem get?_mem {m : State} {a : String} {v : Coins} (h : AMap.get? m a = some v) : (a, v) ∈ m := by
  induction m with
  | nil => simp [AMap.get?] at h
  | cons p m ih =>
    obtain ⟨k, w⟩ := p
    rw [get?_cons] at h
    by_cases hk : k = a
    · rw [if_pos hk] at h
      have : w = v := by simpa using h
      simp [hk, this]
    · rw [if_neg hk] at h
      exact List.mem_cons_of_mem _ (ih h)

theorem mem_set {m : State} {k : String} {v : Coins} {p : String × Coins} (h : p ∈ AMap.set m k v) :
    p = (k, v) ∨ p ∈ m := by
  induction m with
  | nil => simp [AMap.set] at h; left; exact h
  | cons q m ih =>
    obtain ⟨k0, v0⟩ := q
    unfold AMap.set at h
    by_cases h1 : k < k0
    · rw [if_pos h1] at h
      rcases List.mem_cons.mp h with e | e
      · left; exact e
      · right; exact e
    · rw [if_neg h1] at h
      by_cases h2 : k = k0
      · rw [if_pos h2] at h
        rcases List.mem_cons.mp h with e | e
        · left; exact e
        · right; exact List.mem_cons_of_mem _ e
      · rw [if_neg h2] at h
        rcases List.mem_cons.mp h with e | e
        · right; rw [e]; simp
        · rcases ih e with r | r
          · left; exact r
          · right; exact List.mem_cons_of_mem _ r

theorem keysSorted_set {m : State} (k : String) (v : Coins) (h : m.Pairwise (fun p q => p.1 < q.1)) :
    (AMap.set m k v).Pairwise (fun p q => p.1 < q.1) := by
  induction m with
  | nil => simp [AMap.set]
  | cons q m ih =>
    obtain ⟨k0, v0⟩ := q
    have hx := (List.pairwise_cons.mp h).1
    have hm := (List.pairwise_cons.mp h).2
    unfold AMap.set
    by_cases h1 : k < k0
    · rw [if_pos h1]
      refine List.pairwise_cons.mpr ⟨?_, h⟩
      intro p hp
      rcases List.mem_cons.mp hp with e | e
      · rw [e]; exact h1
      · exact String.lt_trans h1 (hx p e)
    · rw [if_neg h1]
      by_cases h2 : k = k0
      · rw [if_pos h2]
        exact List.pairwise_cons.mpr ⟨fun p hp => by simpa [h2] using hx p hp, hm⟩
      · rw [if_neg h2]
        refine List.pairwise_cons.mpr ⟨?_, ih hm⟩
        intro p hp
        rcases mem_set hp with e | e
        · rw [e]; exact str_lt_of_not_lt_of_ne h1 h2
        · exact hx p e

/-! ### `supply` -/

theorem supply_foldl_acc (st : State) (d : String) (acc : Nat) :
    st.foldl (fun acc p => acc + totalOf p.2 d) acc = acc + st.foldl (fun acc p => acc + totalOf p.2 d) 0 := by
  induction st generalizing acc with
  | nil => simp
  | cons x xs ih =>
    simp only [List.foldl_cons]
    rw [ih (acc + totalOf x.2 d), ih (0 + totalOf x.2 d)]
    omega

@[simp] theorem supply_nil (d : String) : supply [] d = 0 := rfl

theorem supply_cons (p : String × Coins) (st : State) (d : String) :
    supply (p :: st) d = totalOf p.2 d + supply st d := by
  unfold supply
  simp only [List.foldl_cons]
  rw [supply_foldl_acc]; omega

/-- replacing (or inserting) one entry moves the supply by exactly the difference of the two lists -/
theorem supply_set {st : State} (hs : st.Pairwise (fun p q => p.1 < q.1)) (a : String) (v : Coins) (d : String) :
    supply (AMap.set st a v) d + totalOf ((AMap.get? st a).getD []) d = supply st d + totalOf v d := by
  induction st with
  | nil => simp [AMap.set, AMap.get?, supply_cons]
  | cons q m ih =>
    obtain ⟨k0, v0⟩ := q
    have hx := (List.pairwise_cons.mp hs).1
    have hm := (List.pairwise_cons.mp hs).2
    unfold AMap.set
    by_cases h1 : a < k0
    · rw [if_pos h1]
      have : AMap.get? ((k0, v0) :: m) a = none := by
        apply get?_none_of_lt
        intro p hp
        rcases List.mem_cons.mp hp with e | e
        · rw [e]; exact h1
        · exact String.lt_trans h1 (hx p e)
      rw [this, supply_cons]; simp; omega
    · rw [if_neg h1]
      by_cases h2 : a = k0
      · rw [if_pos h2, get?_cons, if_pos h2.symm, supply_cons, supply_cons]; simp; omega
      · rw [if_neg h2, get?_cons, if_neg (fun e => h2 e.symm), supply_cons, supply_cons]
        have := ih hm
        omega

/-! ### state level: `balance`, `setBalance` -/

theorem normInv_nil : NormInv [] := ⟨List.Pairwise.nil, by simp⟩

theorem norm_balance {st : State} (h : NormInv st) (a : Addr) : Norm (balance st a) := by
  unfold balance
  cases hg : AMap.get? st a with
  | none => exact norm_nil
  | some v => exact h.2 (a, v) (get?_mem hg)

theorem balance_setBalance_self (st : State) (a : Addr) (cs : Coins) :
    balance (setBalance st a cs) a = normalize cs := by
  unfold balance setBalance
  rw [get?_set_self]; rfl

theorem balance_setBalance_ne (st : State) (a b : Addr) (cs : Coins) (h : b ≠ a) :
    balance (setBalance st a cs) b = balance st b := by
  unfold balance setBalance
  rw [get?_set_ne _ _ _ _ h]

theorem normInv_setBalance {st : State} (h : NormInv st) (a : Addr) (cs : Coins) :
    NormInv (setBalance st a cs) := by
  refine ⟨keysSorted_set _ _ h.1, ?_⟩
  intro p hp
  rcases mem_set hp with e | e
  · rw [e]; exact norm_normalize cs
  · exact h.2 p e

theorem queryBalance_setBalance_self (st : State) (a : Addr) (cs : Coins) (d : String) :
    queryBalance (setBalance st a cs) a d = totalOf cs d := by
  unfold queryBalance
  rw [balance_setBalance_self, amountOf_normalize]

theorem supply_setBalance {st : State} (h : NormInv st) (a : Addr) (cs : Coins) (d : String) :
    supply (setBalance st a cs) d + queryBalance st a d = supply st d + totalOf cs d := by
  have := supply_set h.1 a (normalize cs) d
  have h1 : totalOf ((AMap.get? st a).getD []) d = queryBalance st a d :=
    totalOf_eq_amountOf (norm_balance h a) d
  have h2 : totalOf (normalize cs) d = totalOf cs d := by
    rw [totalOf_eq_amountOf (norm_normalize cs), amountOf_normalize]
  unfold setBalance
  omega

/-! ### `mint`, `burn`, `send` -/

theorem mint_eq_none_iff (st : State) (a : Addr) (amt : Coins) :
    mint st a amt = none ↔ ∀ c ∈ amt, c.amount = 0 := by
  unfold mint
  rw [Option.map_eq_none_iff, normalizeAmount_none_iff]

theorem mint_some {st st' : State} {a : Addr} {amt : Coins} (hinv : NormInv st) (h : mint st a amt = some st') :
    NormInv st' ∧
    (∀ d, queryBalance st' a d = queryBalance st a d + totalOf amt d) ∧
    (∀ b, b ≠ a → balance st' b = balance st b) ∧
    (∀ d, supply st' d = supply st d + totalOf amt d) := by
  unfold mint at h
  cases hr : normalizeAmount amt with
  | none => rw [hr] at h; simp at h
  | some r =>
    rw [hr] at h
    obtain ⟨_, hnz, htot⟩ := normalizeAmount_some hr
    have hst : st' = setBalance st a (r.foldl addCoin (balance st a)) := by simpa using h.symm
    have hq : ∀ d, queryBalance st' a d = queryBalance st a d + totalOf amt d := by
      intro d
      rw [hst, queryBalance_setBalance_self,
        totalOf_eq_amountOf (norm_foldl_addCoin r (norm_balance hinv a) hnz), amountOf_foldl_addCoin, htot]
      rfl
    refine ⟨hst ▸ normInv_setBalance hinv _ _, hq, ?_, ?_⟩
    · intro b hb; rw [hst]; exact balance_setBalance_ne _ _ _ _ hb
    · intro d
      have h1 := supply_setBalance hinv a (r.foldl addCoin (balance st a)) d
      have h2 := hq d
      rw [hst] at h2 ⊢
      rw [queryBalance_setBalance_self] at h2
      omega

theorem burn_some {st st' : State} {a : Addr} {amt : Coins} (hinv : NormInv st) (h : burn st a amt = some st') :
    NormInv st' ∧
    (∀ d, queryBalance st' a d + totalOf amt d = queryBalance st a d) ∧
    (∀ b, b ≠ a → balance st' b = balance st b) ∧
    (∀ d, supply st' d + totalOf amt d = supply st d) := by
  unfold burn at h
  cases hr : normalizeAmount amt with
  | none => rw [hr] at h; simp at h
  | some r =>
    rw [hr] at h
    simp only [Option.bind_some] at h
    obtain ⟨_, _, htot⟩ := normalizeAmount_some hr
    cases hs : subCoins (balance st a) r with
    | none => rw [hs] at h; simp at h
    | some b' =>
      rw [hs] at h
      have hst : st' = setBalance st a b' := by simpa using h.symm
      obtain ⟨hn, ha⟩ := subCoins_some (norm_balance hinv a) hs
      have hq : ∀ d, queryBalance st' a d + totalOf amt d = queryBalance st a d := by
        intro d
        rw [hst, queryBalance_setBalance_self, totalOf_eq_amountOf hn, ← htot]
        exact ha d
      refine ⟨hst ▸ normInv_setBalance hinv _ _, hq, ?_, ?_⟩
      · intro b hb; rw [hst]; exact balance_setBalance_ne _ _ _ _ hb
      · intro d
        have h1 := supply_setBalance hinv a b' d
        have h2 := hq d
        rw [hst] at h2 ⊢
        rw [queryBalance_setBalance_self] at h2
        omega

theorem burn_eq_none_iff {st : State} (hinv : NormInv st) (a : Addr) (amt : Coins) :
    burn st a amt = none ↔ (∀ c ∈ amt, c.amount = 0) ∨ ∃ d, queryBalance st a d < totalOf amt d := by
  unfold burn
  cases hr : normalizeAmount amt with
  | none =>
    have := (normalizeAmount_none_iff amt).mp hr
    simp only [Option.bind_none, true_iff]
    left; exact this
  | some r =>
    obtain ⟨_, hnz, htot⟩ := normalizeAmount_some hr
    have hpos : ¬ ∀ c ∈ amt, c.amount = 0 := by
      intro hall
      have := (normalizeAmount_none_iff amt).mpr hall
      rw [hr] at this; simp at this
    simp only [Option.bind_some, Option.map_eq_none_iff]
    have hiff := subCoins_isSome_iff (norm_balance hinv a) hnz
    constructor
    · intro hnone
      right
      apply Classical.byContradiction
      intro hne
      have hall : ∀ d, totalOf r d ≤ amountOf (balance st a) d := by
        intro d
        apply Classical.byContradiction
        intro hlt
        apply hne
        refine ⟨d, ?_⟩
        rw [← htot d]
        unfold queryBalance
        omega
      have := hiff.mpr hall
      rw [hnone] at this; simp at this
    · intro hor
      rcases hor with hz | ⟨d, hd⟩
      · exact absurd hz hpos
      · cases hs : subCoins (balance st a) r with
        | none => rfl
        | some b' =>
          exfalso
          have := hiff.mp (by rw [hs]; rfl) d
          rw [htot d] at this
          unfold queryBalance at hd
          omega

theorem send_eq_none_iff {st : State} (hinv : NormInv st) (frm to : Addr) (amt : Coins) :
    send st frm to amt = none ↔ (∀ c ∈ amt, c.amount = 0) ∨ ∃ d, queryBalance st frm d < totalOf amt d := by
  unfold send
  cases hb : burn st frm amt with
  | none =>
    simp only [Option.bind_none, true_iff]
    exact (burn_eq_none_iff hinv frm amt).mp hb
  | some st1 =>
    simp only [Option.bind_some]
    rw [mint_eq_none_iff]
    have hnb : ¬ ((∀ c ∈ amt, c.amount = 0) ∨ ∃ d, queryBalance st frm d < totalOf amt d) := by
      intro hor
      have := (burn_eq_none_iff hinv frm amt).mpr hor
      rw [hb] at this; simp at this
    constructor
    · intro h; exact absurd (Or.inl h) hnb
    · intro h; exact absurd h hnb

theorem send_some {st st' : State} {frm to : Addr} {amt : Coins} (hinv : NormInv st)
    (h : send st frm to amt = some st') :
    NormInv st' ∧
    (frm ≠ to → ∀ d, queryBalance st' frm d + totalOf amt d = queryBalance st frm d ∧
                      queryBalance st' to d = queryBalance st to d + totalOf amt d) ∧
    (frm = to → balance st' frm = balance st frm) ∧
    (∀ b, b ≠ frm → b ≠ to → balance st' b = balance st b) ∧
    (∀ d, supply st' d = supply st d) := by
  unfold send at h
  cases hb : burn st frm amt with
  | none => rw [hb] at h; simp at h
  | some st1 =>
    rw [hb] at h
    simp only [Option.bind_some] at h
    obtain ⟨hinv1, hq1, ho1, hs1⟩ := burn_some hinv hb
    obtain ⟨hinv2, hq2, ho2, hs2⟩ := mint_some hinv1 h
    refine ⟨hinv2, ?_, ?_, ?_, ?_⟩
    · intro hne d
      constructor
      · have : balance st' frm = balance st1 frm := ho2 frm hne
        unfold queryBalance
        rw [this]
        exact hq1 d
      · have : balance st1 to = balance st to := ho1 to (fun e => hne e.symm)
        rw [hq2 d]
        unfold queryBalance
        rw [this]
    · intro heq
      subst heq
      apply norm_ext (norm_balance hinv2 frm) (norm_balance hinv frm)
      intro d
      have h1 := hq1 d
      have h2 := hq2 d
      unfold queryBalance at h1 h2
      omega
    · intro b hbf hbt
      rw [ho2 b hbt, ho1 b hbf]
    · intro d
      have := hs1 d
      have := hs2 d
      omega

/-! ### queries -/

/-- in a ledger with sorted keys, the entry stored under the head key is what `balance` reads -/
theorem balance_head {k : String} {v : Coins} {m : State} : balance ((k, v) :: m) k = v := by
  unfold balance; rw [get?_cons, if_pos rfl]; rfl

theorem balance_tail {k : String} {v : Coins} {m : State} {a : String} (h : k ≠ a) :
    balance ((k, v) :: m) a = balance m a := by
  unfold balance; rw [get?_cons, if_neg h]

/-- `Supply d` is the sum of `Balance a d` over the accounts of the ledger -/
theorem supply_eq_sum_accounts {st : State} (h : NormInv st) (d : String) :
    supply st d = ((st.map (·.1)).map (fun a => queryBalance st a d)).sum := by
  induction st with
  | nil => rfl
  | cons p m ih =>
    obtain ⟨k, v⟩ := p
    have hx := (List.pairwise_cons.mp h.1).1
    have hm : NormInv m := ⟨(List.pairwise_cons.mp h.1).2, fun q hq => h.2 q (List.mem_cons_of_mem _ hq)⟩
    rw [supply_cons, List.map_cons, List.map_cons, List.sum_cons, ih hm]
    have h1 : queryBalance ((k, v) :: m) k d = totalOf v d := by
      unfold queryBalance
      rw [balance_head, totalOf_eq_amountOf (h.2 (k, v) (by simp))]
    have h2 : (m.map (·.1)).map (fun a => queryBalance ((k, v) :: m) a d)
        = (m.map (·.1)).map (fun a => queryBalance m a d) := by
      apply List.map_congr_left
      intro a ha
      obtain ⟨q, hq, hqa⟩ := List.mem_map.mp ha
      have : k ≠ a := hqa ▸ str_ne_of_lt (hx q hq)
      unfold queryBalance
      rw [balance_tail this]
    rw [h1, h2]

/-- an address that is not an account of the ledger has balance 0 in every denom -/
theorem queryBalance_absent {st : State} {a : Addr} (h : ∀ p ∈ st, p.1 ≠ a) (d : String) :
    queryBalance st a d = 0 := by
  induction st with
  | nil => rfl
  | cons p m ih =>
    obtain ⟨k, v⟩ := p
    unfold queryBalance
    rw [balance_tail (h (k, v) (by simp))]
    exact ih (fun q hq => h q (List.mem_cons_of_mem _ hq))

theorem sum_map_ite_absent {α : Type} [DecidableEq α] (as : List α) (k : α) (x : Nat) (f : α → Nat) (h : k ∉ as) :
    (as.map (fun a => if a = k then x else f a)).sum = (as.map f).sum := by
  congr 1
  apply List.map_congr_left
  intro a ha
  have hak : a ≠ k := by intro e; subst e; exact h ha
  rw [if_neg hak]

theorem sum_map_ite_once {α : Type} [DecidableEq α] (as : List α) (k : α) (x : Nat) (f : α → Nat)
    (hnd : as.Nodup) (hk : k ∈ as) (hf : f k = 0) :
    (as.map (fun a => if a = k then x else f a)).sum = x + (as.map f).sum := by
  induction as with
  | nil => simp at hk
  | cons a as ih =>
    have hna : a ∉ as := (List.nodup_cons.mp hnd).1
    have hnd' := (List.nodup_cons.mp hnd).2
    rw [List.map_cons, List.map_cons, List.sum_cons, List.sum_cons]
    by_cases hak : a = k
    · subst hak
      rw [if_pos rfl, sum_map_ite_absent as a x f hna, hf]; omega
    · rw [if_neg hak]
      have hk' : k ∈ as := by
        rcases List.mem_cons.mp hk with e | e
        · exact absurd e.symm hak
        · exact e
      rw [ih hnd' hk']; omega

/-- `Supply d` is the sum of `Balance a d` over ANY duplicate-free list of addresses that contains
every account of the ledger (addresses without an entry contribute 0). -/
theorem supply_eq_sum_over {st : State} (h : NormInv st) (as : List Addr) (hnd : as.Nodup)
    (hall : ∀ p ∈ st, p.1 ∈ as) (d : String) :
    supply st d = (as.map (fun a => queryBalance st a d)).sum := by
  induction st with
  | nil =>
    have : (as.map (fun a => queryBalance [] a d)) = as.map (fun _ => 0) := by
      apply List.map_congr_left; intro a _; rfl
    have hz : ∀ l : List Addr, (l.map (fun _ => 0)).sum = 0 := by
      intro l; induction l <;> simp_all
    rw [this, hz]; rfl
  | cons p m ih =>
    obtain ⟨k, v⟩ := p
    have hx := (List.pairwise_cons.mp h.1).1
    have hm : NormInv m := ⟨(List.pairwise_cons.mp h.1).2, fun q hq => h.2 q (List.mem_cons_of_mem _ hq)⟩
    have hfun : (fun a => queryBalance ((k, v) :: m) a d)
        = (fun a => if a = k then totalOf v d else queryBalance m a d) := by
      funext a
      by_cases ha : a = k
      · rw [if_pos ha, ha]
        unfold queryBalance
        rw [balance_head, totalOf_eq_amountOf (h.2 (k, v) (by simp))]
      · rw [if_neg ha]
        unfold queryBalance
        rw [balance_tail (fun e => ha e.symm)]
    rw [hfun, sum_map_ite_once as k _ _ hnd (hall (k, v) (by simp))
      (queryBalance_absent (fun q hq => str_ne_of_gt (hx q hq)) d),
      supply_cons, ih hm (fun q hq => hall q (List.mem_cons_of_mem _ hq))]

/-! ### vocabulary of the property statements -/

/-- the stated amount of denom `d` in a coin list: all `d`-entries added up -/
abbrev total (amt : Coins) (d : String) : Nat := totalOf amt d
/-- the `BankQuery::Balance` answer -/
abbrev bal (st : State) (a : Addr) (d : String) : Nat := queryBalance st a d

/-- ledgers reachable from the empty one by genesis `init_balance` / `set_balance`, mint, burn, send -/
inductive Reachable : State → Prop where
  | empty : Reachable []
  | init {st} (a : Addr) (cs : Coins) : Reachable st → Reachable (setBalance st a cs)
  | mint {st st'} (a : Addr) (amt : Coins) : Reachable st → CwMt.Bank.mint st a amt = some st' → Reachable st'
  | burn {st st'} (a : Addr) (amt : Coins) : Reachable st → CwMt.Bank.burn st a amt = some st' → Reachable st'
  | send {st st'} (a b : Addr) (amt : Coins) : Reachable st → CwMt.Bank.send st a b amt = some st' → Reachable st'

/-! ### histories -/

inductive Op where
  | mint (to : Addr) (amt : Coins)
  | burn (frm : Addr) (amt : Coins)
  | send (frm to : Addr) (amt : Coins)
  deriving DecidableEq, Repr

/-- one operation on the ledger; `none` = the operation failed -/
def run (st : State) : Op → Option State
  | .mint to amt => Bank.mint st to amt
  | .burn frm amt => Bank.burn st frm amt
  | .send frm to amt => Bank.send st frm to amt

/-- "a failed operation changes nothing": the ledger after the operation -/
def step (st : State) (op : Op) : State := (run st op).getD st

/-- the ledger after a whole history -/
def final (st : State) (ops : List Op) : State := ops.foldl step st

/-- what one operation, if it succeeds, adds to `(a, d)` -/
def credit (op : Op) (a : Addr) (d : String) : Nat :=
  match op with
  | .mint to amt => if to = a then totalOf amt d else 0
  | .burn _ _ => 0
  | .send _ to amt => if to = a then totalOf amt d else 0

/-- what one operation, if it succeeds, takes from `(a, d)` -/
def debit (op : Op) (a : Addr) (d : String) : Nat :=
  match op with
  | .mint _ _ => 0
  | .burn frm amt => if frm = a then totalOf amt d else 0
  | .send frm _ amt => if frm = a then totalOf amt d else 0

/-- Σ credits of the *successful* operations of a history started in `st` -/
def credits : State → List Op → Addr → String → Nat
  | _, [], _, _ => 0
  | st, op :: ops, a, d =>
    match run st op with
    | some st' => credit op a d + credits st' ops a d
    | none => credits st ops a d

/-- Σ debits of the *successful* operations of a history started in `st` -/
def debits : State → List Op → Addr → String → Nat
  | _, [], _, _ => 0
  | st, op :: ops, a, d =>
    match run st op with
    | some st' => debit op a d + debits st' ops a d
    | none => debits st ops a d

/-- coins created / destroyed by one operation, if it succeeds -/
def mintedBy (op : Op) (d : String) : Nat :=
  match op with
  | .mint _ amt => totalOf amt d
  | _ => 0

def burnedBy (op : Op) (d : String) : Nat :=
  match op with
  | .burn _ amt => totalOf amt d
  | _ => 0

/-- coins created / destroyed by the successful operations of a history -/
def minted : State → List Op → String → Nat
  | _, [], _ => 0
  | st, op :: ops, d =>
    match run st op with
    | some st' => mintedBy op d + minted st' ops d
    | none => minted st ops d

def burned : State → List Op → String → Nat
  | _, [], _ => 0
  | st, op :: ops, d =>
    match run st op with
    | some st' => burnedBy op d + burned st' ops d
    | none => burned st ops d

/-- one successful operation: the invariant, the balance equation and the supply equation -/
theorem run_some {st st' : State} {op : Op} (hinv : NormInv st) (h : run st op = some st') :
    NormInv st' ∧
    (∀ a d, queryBalance st' a d + debit op a d = credit op a d + queryBalance st a d) ∧
    (∀ d, supply st' d + burnedBy op d = mintedBy op d + supply st d) := by
  cases op with
  | mint to amt =>
    obtain ⟨hi, hq, ho, hs⟩ := mint_some hinv h
    refine ⟨hi, ?_, fun d => by have := hs d; simp only [burnedBy, mintedBy]; omega⟩
    intro a d
    simp only [credit, debit]
    by_cases ha : to = a
    · subst ha; rw [if_pos rfl, hq d]; omega
    · rw [if_neg ha]
      unfold queryBalance
      rw [ho a (fun e => ha e.symm)]; omega
  | burn frm amt =>
    obtain ⟨hi, hq, ho, hs⟩ := burn_some hinv h
    refine ⟨hi, ?_, fun d => by have := hs d; simp only [burnedBy, mintedBy]; omega⟩
    intro a d
    simp only [credit, debit]
    by_cases ha : frm = a
    · subst ha; rw [if_pos rfl]; have := hq d; omega
    · rw [if_neg ha]
      unfold queryBalance
      rw [ho a (fun e => ha e.symm)]; omega
  | send frm to amt =>
    obtain ⟨hi, hne, heq, ho, hs⟩ := send_some hinv h
    refine ⟨hi, ?_, fun d => by have := hs d; simp only [burnedBy, mintedBy]; omega⟩
    intro a d
    simp only [credit, debit]
    by_cases hft : frm = to
    · subst hft
      by_cases ha : frm = a
      · subst ha
        rw [if_pos rfl]
        unfold queryBalance
        rw [heq rfl]; omega
      · rw [if_neg ha]
        unfold queryBalance
        rw [ho a (fun e => ha e.symm) (fun e => ha e.symm)]; omega
    · by_cases ha : frm = a
      · subst ha
        rw [if_pos rfl, if_neg (fun e => hft e.symm)]
        have := (hne hft d).1; omega
      · rw [if_neg ha]
        by_cases hb : to = a
        · subst hb
          rw [if_pos rfl]
          have := (hne hft d).2; omega
        · rw [if_neg hb]
          unfold queryBalance
          rw [ho a (fun e => ha e.symm) (fun e => hb e.symm)]; omega

theorem normInv_step {st : State} (hinv : NormInv st) (op : Op) : NormInv (step st op) := by
  unfold step
  cases h : run st op with
  | none => exact hinv
  | some st' => exact (run_some hinv h).1

theorem normInv_final {st : State} (hinv : NormInv st) (ops : List Op) : NormInv (final st ops) := by
  unfold final
  induction ops generalizing st with
  | nil => exact hinv
  | cons op ops ih => exact ih (normInv_step hinv op)

theorem history_balance {st : State} (hinv : NormInv st) (ops : List Op) (a : Addr) (d : String) :
    queryBalance (final st ops) a d + debits st ops a d = credits st ops a d + queryBalance st a d := by
  induction ops generalizing st with
  | nil => simp [final, debits, credits]
  | cons op ops ih =>
    have hf : final st (op :: ops) = final (step st op) ops := rfl
    rw [hf]
    unfold debits credits step
    cases h : run st op with
    | none => exact ih hinv
    | some st' =>
      obtain ⟨hi, hq, _⟩ := run_some hinv h
      have := ih hi (st := st')
      have := hq a d
      simp only [Option.getD_some] at *
      omega

theorem history_supply {st : State} (hinv : NormInv st) (ops : List Op) (d : String) :
    supply (final st ops) d + burned st ops d = minted st ops d + supply st d := by
  induction ops generalizing st with
  | nil => simp [final, burned, minted]
  | cons op ops ih =>
    have hf : final st (op :: ops) = final (step st op) ops := rfl
    rw [hf]
    unfold burned minted step
    cases h : run st op with
    | none => exact ih hinv
    | some st' =>
      obtain ⟨hi, _, hs⟩ := run_some hinv h
      have := ih hi (st := st')
      have := hs d
      simp only [Option.getD_some] at *
      omega

end CwMt.Bank
