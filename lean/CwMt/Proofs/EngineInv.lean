import CwMt.Proofs.Engine
import CwMt.Proofs.EngineB
import CwMt.Proofs.Bank
import CwMt.Proofs.EngineInv_Core
/-
  CwMt.Proofs.EngineInv — invariants over whole executions of the message engine, as instances of
  the generic induction `EngineInv.gspecAt` (`EngineInv_Core.lean`):

  * `bankInv`  — the ledger stays in normal form and no supply grows (C09);
  * `regInv`   — registered contracts stay registered with creator / label / creation height, and
                 admin / code id change only if the admin at the start is the message sender or the
                 callee of a recorded invocation (C11, C12);
  * `funds_arrive` — the effect of `sendFunds` on the two balances (C05).
-/
namespace CwMt.EngineInv
open CwMt CwMt.Engine
variable {E : Type}

/-! ### C09: no execution creates coins -/

/-- modules other than bank and wasm leave the ledger alone (same as `C09.ExtBankFrame`) -/
def ExtBankFrame (cfg : Config E) : Prop :=
  (∀ k ch blk s p r ch', cfg.extExec k ch blk s p = .ok (r, ch') → ch'.bank = ch.bank) ∧
  (∀ ch blk p r ch', cfg.extSudo ch blk p = .ok (r, ch') → ch'.bank = ch.bank)

def BankR (ch ch' : Chain E) : Prop :=
  Bank.NormInv ch.bank → Bank.NormInv ch'.bank ∧ ∀ d, Bank.supply ch'.bank d ≤ Bank.supply ch.bank d

theorem bankR_of_eq {ch ch' : Chain E} (h : ch'.bank = ch.bank) : BankR ch ch' := by
  intro hinv; rw [h]; exact ⟨hinv, fun _ => Nat.le_refl _⟩

theorem bankR_trans {ch ch1 ch2 : Chain E} (h1 : BankR ch ch1) (h2 : BankR ch1 ch2) : BankR ch ch2 := by
  intro hinv
  obtain ⟨i1, s1⟩ := h1 hinv
  obtain ⟨i2, s2⟩ := h2 i1
  exact ⟨i2, fun d => Nat.le_trans (s2 d) (s1 d)⟩

theorem bankR_bankExecute {ch ch' : Chain E} {s : Addr} {m : Msg} {r : AppResponse}
    (h : bankExecute ch s m = .ok (r, ch')) : BankR ch ch' := by
  intro hinv
  unfold bankExecute at h
  split at h
  · split at h
    · rename_i b hb
      simp only [Outcome.ok.injEq, Prod.mk.injEq] at h
      rw [← h.2]
      obtain ⟨hi, _, _, _, hs⟩ := Bank.send_some hinv hb
      exact ⟨hi, fun d => Nat.le_of_eq (hs d)⟩
    · cases h
  · split at h
    · rename_i b hb
      simp only [Outcome.ok.injEq, Prod.mk.injEq] at h
      rw [← h.2]
      obtain ⟨hi, _, _, hs⟩ := Bank.burn_some hinv hb
      exact ⟨hi, fun d => by have := hs d; simp only; omega⟩
    · cases h
  · cases h

theorem bankR_sendFunds {ch ch' : Chain E} {s : Addr} {c : String} {f : Coins}
    (h : sendFunds ch s c f = .ok ch') : BankR ch ch' := by
  unfold sendFunds at h
  split at h
  · cases h; exact bankR_of_eq rfl
  · split at h
    · rename_i r ch1 hb
      cases h
      exact bankR_bankExecute hb
    all_goals cases h

def bankInv (cfg : Config E) (blk : Block) (hb : ExtBankFrame cfg) : StepInv cfg blk where
  R := fun _ ch _ ch' => BankR ch ch'
  trans := fun h1 h2 => bankR_trans h1 h2
  skip := fun _ h => h
  refl := fun _ _ => bankR_of_eq rfl
  bank := fun h => bankR_bankExecute h
  ext := fun h => bankR_of_eq (hb.1 _ _ _ _ _ _ _ h)
  admin := fun {ch ch' s c a r} h => by
    obtain ⟨cd, _, _, _, rfl⟩ := EngineB.updateAdmin_ok cfg ch ch' s c a r h
    exact bankR_of_eq rfl
  funds := fun h => bankR_sendFunds h
  register := fun h => bankR_of_eq (registerContract_frame cfg _ _ _ _ _ _ _ _ _ h).2
  migrate := fun _ _ _ => bankR_of_eq rfl
  call := fun _ h => bankR_trans (bankR_of_eq rfl) h

theorem engine_creates_no_coins (cfg : Config E) (hb : ExtBankFrame cfg) (blk : Block) (fuel : Nat)
    (ch ch' : Chain E) (sender : Addr) (m : Msg) (tr tr' : Trace) (r : AppResponse)
    (hinv : Bank.NormInv ch.bank)
    (h : execute cfg blk fuel ch sender m tr = (.ok (r, ch'), tr')) :
    Bank.NormInv ch'.bank ∧ ∀ d, Bank.supply ch'.bank d ≤ Bank.supply ch.bank d := by
  obtain ⟨_, _, hR⟩ := execute_related (bankInv cfg blk hb) h
  exact hR hinv

theorem engine_send_conserves (cfg : Config E) (blk : Block) (fuel : Nat) (ch ch' : Chain E)
    (sender : Addr) (to : String) (amt : Coins) (tr tr' : Trace) (r : AppResponse)
    (hinv : Bank.NormInv ch.bank)
    (h : execute cfg blk fuel ch sender (.bankSend to amt) tr = (.ok (r, ch'), tr')) :
    ∀ d, Bank.supply ch'.bank d = Bank.supply ch.bank d := by
  cases fuel with
  | zero => rw [execute_zero] at h; cases h
  | succ fuel =>
    rw [execute_succ_bankSend] at h
    simp only [Prod.mk.injEq] at h
    have hb := h.1
    unfold bankExecute at hb
    simp only at hb
    split at hb
    · rename_i b hs
      simp only [Outcome.ok.injEq, Prod.mk.injEq] at hb
      rw [← hb.2]
      exact (Bank.send_some hinv hs).2.2.2.2
    · cases hb

/-! ### C05: the funds arrive -/

theorem funds_arrive (ch ch₁ : Chain E) (sender : Addr) (c : String) (funds : Coins)
    (hinv : Bank.NormInv ch.bank) (hne : sender ≠ c) (hf : funds ≠ [])
    (hs : sendFunds ch sender c funds = .ok ch₁) :
    ∀ d, Bank.queryBalance ch₁.bank c d = Bank.queryBalance ch.bank c d + Bank.totalOf funds d ∧
         Bank.queryBalance ch₁.bank sender d + Bank.totalOf funds d = Bank.queryBalance ch.bank sender d := by
  intro d
  have h := sendFunds_nonempty ch ch₁ sender c funds hs hf
  obtain ⟨h1, h2⟩ := (Bank.send_some hinv h).2.1 hne d
  exact ⟨h2, h1⟩

/-! ### C11 / C12: the contract registry over whole executions -/

def RegR (top : Addr) (ch : Chain E) (new : Trace) (ch' : Chain E) : Prop :=
  ∀ c cd, ch.contracts.get? c = some cd →
    ∃ cd', ch'.contracts.get? c = some cd' ∧ cd'.creator = cd.creator ∧ cd'.label = cd.label ∧
      cd'.created = cd.created ∧
      ((cd'.admin = cd.admin ∧ cd'.codeId = cd.codeId) ∨
        ∃ a, cd.admin = some a ∧ (a = top ∨ ∃ e ∈ new, e.callee = a))

theorem regR_of_eq {top : Addr} {ch ch' : Chain E} {new : Trace} (h : ch'.contracts = ch.contracts) :
    RegR top ch new ch' := by
  intro c cd hc
  exact ⟨cd, by rw [h]; exact hc, rfl, rfl, rfl, Or.inl ⟨rfl, rfl⟩⟩

/-- overwriting the record of `k` by one with the same creator / label / height, done by `k`'s admin -/
theorem regR_set {top : Addr} {ch : Chain E} {new : Trace} {k : String} {cd0 cd1 : ContractData}
    (hk : ch.contracts.get? k = some cd0) (ha : cd0.admin = some top)
    (h1 : cd1.creator = cd0.creator) (h2 : cd1.label = cd0.label) (h3 : cd1.created = cd0.created) :
    RegR top ch new { ch with contracts := ch.contracts.set k cd1 } := by
  intro c cd hc
  by_cases hck : c = k
  · subst hck
    rw [hk] at hc
    cases hc
    exact ⟨cd1, get?_set_self _ _ _, h1, h2, h3, Or.inr ⟨top, ha, Or.inl rfl⟩⟩
  · exact ⟨cd, by simp only; rw [get?_set_other _ _ _ _ hck]; exact hc, rfl, rfl, rfl, Or.inl ⟨rfl, rfl⟩⟩

theorem regR_trans {top : Addr} {ch ch1 ch2 : Chain E} {n1 n2 : Trace}
    (h1 : RegR top ch n1 ch1) (h2 : RegR top ch1 n2 ch2) : RegR top ch (n1 ++ n2) ch2 := by
  intro c cd hc
  obtain ⟨cd1, g1, a1, b1, c1, d1⟩ := h1 c cd hc
  obtain ⟨cd2, g2, a2, b2, c2, d2⟩ := h2 c cd1 g1
  refine ⟨cd2, g2, a2.trans a1, b2.trans b1, c2.trans c1, ?_⟩
  rcases d1 with ⟨e1, e2⟩ | ⟨a, ha, hw⟩
  · rcases d2 with ⟨f1, f2⟩ | ⟨a, ha, hw⟩
    · exact Or.inl ⟨f1.trans e1, f2.trans e2⟩
    · refine Or.inr ⟨a, e1 ▸ ha, ?_⟩
      rcases hw with h | ⟨e, he, hce⟩
      · exact Or.inl h
      · exact Or.inr ⟨e, List.mem_append.2 (Or.inr he), hce⟩
  · refine Or.inr ⟨a, ha, ?_⟩
    rcases hw with h | ⟨e, he, hce⟩
    · exact Or.inl h
    · exact Or.inr ⟨e, List.mem_append.2 (Or.inl he), hce⟩

theorem regR_skip {top : Addr} {ch ch' : Chain E} {n2 : Trace} (n1 : Trace)
    (h : RegR top ch n2 ch') : RegR top ch (n1 ++ n2) ch' := by
  intro c cd hc
  obtain ⟨cd1, g1, a1, b1, c1, d1⟩ := h c cd hc
  refine ⟨cd1, g1, a1, b1, c1, ?_⟩
  rcases d1 with h | ⟨a, ha, hw⟩
  · exact Or.inl h
  · refine Or.inr ⟨a, ha, ?_⟩
    rcases hw with h | ⟨e, he, hce⟩
    · exact Or.inl h
    · exact Or.inr ⟨e, List.mem_append.2 (Or.inr he), hce⟩

theorem regR_call {top addr : Addr} {ch ch3 : Chain E} {own' : Store Val} {e : TraceEntry} {n : Trace}
    (he : e.callee = addr)
    (h : RegR addr { ch with cstore := ch.cstore.set addr own' } n ch3) : RegR top ch (e :: n) ch3 := by
  intro c cd hc
  obtain ⟨cd1, g1, a1, b1, c1, d1⟩ := h c cd hc
  refine ⟨cd1, g1, a1, b1, c1, ?_⟩
  rcases d1 with h | ⟨a, ha, hw⟩
  · exact Or.inl h
  · refine Or.inr ⟨a, ha, Or.inr ?_⟩
    rcases hw with h | ⟨e', he', hce⟩
    · exact ⟨e, List.mem_cons_self, by rw [he, h]⟩
    · exact ⟨e', List.mem_cons_of_mem _ he', hce⟩

def regInv (cfg : Config E) (blk : Block) (hf : ExtFrame cfg) : StepInv cfg blk where
  R := RegR
  trans := regR_trans
  skip := regR_skip
  refl := fun _ _ => regR_of_eq rfl
  bank := fun h => regR_of_eq (bankExecute_frame _ _ _ _ _ h).2
  ext := fun h => regR_of_eq (hf.1 _ _ _ _ _ _ _ h).2
  admin := fun {ch ch' s c a r} h => by
    obtain ⟨cd, hc, had, _, rfl⟩ := EngineB.updateAdmin_ok cfg ch ch' s c a r h
    exact regR_set hc had rfl rfl rfl
  funds := fun h => regR_of_eq (sendFunds_frame _ _ _ _ _ h).2
  register := fun {ch ch' codeId s admin label created salt addr} h => by
    obtain ⟨hn, _, hoth, _, _⟩ := EngineB.fresh_address cfg ch ch' codeId s admin label created salt addr h
    intro c cd hc
    have hne : c ≠ addr := by
      intro e; subst e; rw [hn] at hc; cases hc
    exact ⟨cd, by rw [hoth c hne]; exact hc, rfl, rfl, rfl, Or.inl ⟨rfl, rfl⟩⟩
  migrate := fun _ hc had => regR_set hc had rfl rfl rfl
  call := regR_call

theorem registry_stable (cfg : Config E) (hf : ExtFrame cfg) (blk : Block) (fuel : Nat)
    (ch ch' : Chain E) (sender : Addr) (m : Msg) (tr tr' : Trace) (r : AppResponse)
    (h : execute cfg blk fuel ch sender m tr = (.ok (r, ch'), tr'))
    (c : Addr) (cd : ContractData) (hc : ch.contracts.get? c = some cd) :
    ∃ cd', ch'.contracts.get? c = some cd' ∧ cd'.creator = cd.creator ∧ cd'.label = cd.label ∧
      cd'.created = cd.created := by
  obtain ⟨_, _, hR⟩ := execute_related (regInv cfg blk hf) h
  obtain ⟨cd', g, a, b, c', _⟩ := hR c cd hc
  exact ⟨cd', g, a, b, c'⟩

theorem no_admin_is_forever (cfg : Config E) (hf : ExtFrame cfg) (blk : Block) (fuel : Nat)
    (ch ch' : Chain E) (sender : Addr) (m : Msg) (tr tr' : Trace) (r : AppResponse)
    (h : execute cfg blk fuel ch sender m tr = (.ok (r, ch'), tr'))
    (c : Addr) (cd : ContractData) (hc : ch.contracts.get? c = some cd) (hna : cd.admin = none) :
    ∃ cd', ch'.contracts.get? c = some cd' ∧ cd'.admin = none ∧ cd'.codeId = cd.codeId := by
  obtain ⟨_, _, hR⟩ := execute_related (regInv cfg blk hf) h
  obtain ⟨cd', g, _, _, _, d⟩ := hR c cd hc
  rcases d with ⟨e1, e2⟩ | ⟨a, ha, _⟩
  · exact ⟨cd', g, e1.trans hna, e2⟩
  · rw [hna] at ha; cases ha

theorem change_needs_admin_involved (cfg : Config E) (hf : ExtFrame cfg) (blk : Block) (fuel : Nat)
    (ch ch' : Chain E) (sender : Addr) (m : Msg) (tr new : Trace) (r : AppResponse)
    (h : execute cfg blk fuel ch sender m tr = (.ok (r, ch'), tr ++ new))
    (c : Addr) (cd cd' : ContractData) (hc : ch.contracts.get? c = some cd)
    (hc' : ch'.contracts.get? c = some cd')
    (hchg : cd'.admin ≠ cd.admin ∨ cd'.codeId ≠ cd.codeId) :
    ∃ a, cd.admin = some a ∧ (a = sender ∨ ∃ e ∈ new, e.callee = a) := by
  obtain ⟨new', e, hR⟩ := execute_related (regInv cfg blk hf) h
  have hn : new = new' := List.append_cancel_left e
  subst hn
  obtain ⟨cd'', g, _, _, _, d⟩ := hR c cd hc
  rw [hc'] at g
  cases g
  rcases d with ⟨e1, e2⟩ | hx
  · rcases hchg with h1 | h2
    · exact absurd e1 h1
    · exact absurd e2 h2
  · exact hx

end CwMt.EngineInv
