import CwMt.Proofs.Engine_Call
/-
  CwMt.Proofs.Engine_Trace — one induction on the fuel establishing, for all four engine functions
  at once: the trace only grows; every appended entry shows the callee's own address and the block;
  every sender shown is the top sender or an earlier callee; contract windows of addresses that do
  not occur as callee in the appended part are unchanged on `ok` (given `ExtFrame`).
-/
namespace CwMt.Engine
open CwMt
variable {E : Type}

/-! ### `SendersFrom` -/

theorem sf_nil (top : Addr) : SendersFrom top [] := by
  intro i e s hi; simp at hi

theorem sf_append {top : Addr} {a b : Trace} (ha : SendersFrom top a) (hb : SendersFrom top b) :
    SendersFrom top (a ++ b) := by
  intro i e s hi hs
  by_cases hlt : i < a.length
  · rw [List.getElem?_append_left hlt] at hi
    rcases ha i e s hi hs with h | ⟨j, e', hj, hje, hc⟩
    · exact Or.inl h
    · exact Or.inr ⟨j, e', hj, by rw [List.getElem?_append_left (by omega)]; exact hje, hc⟩
  · rw [List.getElem?_append_right (by omega)] at hi
    rcases hb (i - a.length) e s hi hs with h | ⟨j, e', hj, hje, hc⟩
    · exact Or.inl h
    · refine Or.inr ⟨a.length + j, e', by omega, ?_, hc⟩
      rw [List.getElem?_append_right (by omega)]
      rw [show a.length + j - a.length = j by omega]; exact hje

theorem sf_cons {top : Addr} {e : TraceEntry} {b : Trace}
    (he : ∀ x, e.entry.sender? = some x → x = top) (hb : SendersFrom e.callee b) :
    SendersFrom top (e :: b) := by
  intro i e' s hi hs
  cases i with
  | zero =>
    simp only [List.getElem?_cons_zero, Option.some.injEq] at hi
    subst hi
    exact Or.inl (he s hs)
  | succ i =>
    rw [List.getElem?_cons_succ] at hi
    rcases hb i e' s hi hs with h | ⟨j, e'', hj, hje, hc⟩
    · exact Or.inr ⟨0, e, by omega, by simp, h.symm⟩
    · exact Or.inr ⟨j + 1, e'', by omega, by rw [List.getElem?_cons_succ]; exact hje, hc⟩

/-! ### the combined specification -/

def Post (cfg : Config E) (blk : Block) (top : Addr) (ch : Chain E) (new : Trace)
    (o : Outcome (AppResponse × Chain E)) : Prop :=
  (∀ e ∈ new, EnvOK blk e) ∧ SendersFrom top new ∧
  (ExtFrame cfg → ∀ r ch', o = .ok (r, ch') →
    ∀ a, (∀ e ∈ new, e.callee ≠ a) → ch'.cstore.get? a = ch.cstore.get? a)

def Spec (cfg : Config E) (blk : Block) (top : Addr) (ch : Chain E) (tr : Trace)
    (res : EngineResult E) : Prop :=
  ∃ new, res.2 = tr ++ new ∧ Post cfg blk top ch new res.1

section
variable {cfg : Config E} {blk : Block}

theorem spec_pure {top : Addr} {ch : Chain E} {tr : Trace} {o : Outcome (AppResponse × Chain E)}
    (h : ExtFrame cfg → ∀ r ch', o = .ok (r, ch') → ch'.cstore = ch.cstore) :
    Spec cfg blk top ch tr (o, tr) := by
  refine ⟨[], by simp, ?_, sf_nil top, ?_⟩
  · intro e he; simp at he
  · intro hf r ch' ho a _
    rw [h hf r ch' ho]

theorem spec_fail {top : Addr} {ch : Chain E} {tr : Trace} {o : Outcome (AppResponse × Chain E)}
    (h : ∀ r ch', o ≠ .ok (r, ch')) : Spec cfg blk top ch tr (o, tr) :=
  spec_pure (fun _ r ch' ho => absurd ho (h r ch'))

/-- sequential composition: the second step starts on the first step's result state, or on a state
with the contract storage the first step started from (rollback) -/
theorem spec_seq {top : Addr} {ch ch1 : Chain E} {tr tr1 : Trace} {o1 : Outcome (AppResponse × Chain E)}
    {res : EngineResult E}
    (h1 : Spec cfg blk top ch tr (o1, tr1))
    (hch : ch1.cstore = ch.cstore ∨ ∃ r, o1 = .ok (r, ch1))
    (h2 : Spec cfg blk top ch1 tr1 res) : Spec cfg blk top ch tr res := by
  obtain ⟨n1, e1, env1, sf1, fr1⟩ := h1
  obtain ⟨n2, e2, env2, sf2, fr2⟩ := h2
  simp only at e1
  refine ⟨n1 ++ n2, by rw [e2, e1, List.append_assoc], ?_, sf_append sf1 sf2, ?_⟩
  · intro e he
    rcases List.mem_append.1 he with h | h
    · exact env1 e h
    · exact env2 e h
  · intro hf r ch' ho a ha
    have ha1 : ∀ e ∈ n1, e.callee ≠ a := fun e he => ha e (List.mem_append.2 (Or.inl he))
    have ha2 : ∀ e ∈ n2, e.callee ≠ a := fun e he => ha e (List.mem_append.2 (Or.inr he))
    rw [fr2 hf r ch' ho a ha2]
    rcases hch with h | ⟨r1, h⟩
    · rw [h]
    · exact fr1 hf r1 ch1 h a ha1

/-- the outcome may be replaced by one that is `ok` only with the same state -/
theorem spec_weaken {top : Addr} {ch : Chain E} {tr tr' : Trace} {o o' : Outcome (AppResponse × Chain E)}
    (h : Spec cfg blk top ch tr (o, tr'))
    (ho : ∀ r ch', o' = .ok (r, ch') → ∃ r0, o = .ok (r0, ch')) :
    Spec cfg blk top ch tr (o', tr') := by
  obtain ⟨n, e, env, sf, fr⟩ := h
  refine ⟨n, e, env, sf, ?_⟩
  intro hf r ch' h' a ha
  obtain ⟨r0, h0⟩ := ho r ch' h'
  exact fr hf r0 ch' h0 a ha

theorem spec_mapResp {top : Addr} {ch : Chain E} {tr : Trace} (f : AppResponse → AppResponse)
    {x : EngineResult E} (h : Spec cfg blk top ch tr x) : Spec cfg blk top ch tr (mapResp f x) := by
  obtain ⟨o, t⟩ := x
  cases o with
  | ok p =>
    obtain ⟨r, c⟩ := p
    refine spec_weaken h ?_
    intro r' ch' h'
    simp only [Outcome.ok.injEq, Prod.mk.injEq] at h'
    exact ⟨r, by rw [h'.2]⟩
  | err => exact h
  | panic => exact h
  | outOfFuel => exact h

theorem spec_cstore_eq {top : Addr} {ch ch1 : Chain E} {tr : Trace} {res : EngineResult E}
    (hc : ch1.cstore = ch.cstore) (h : Spec cfg blk top ch1 tr res) : Spec cfg blk top ch tr res := by
  obtain ⟨n, e, env, sf, fr⟩ := h
  refine ⟨n, e, env, sf, ?_⟩
  intro hf r ch' h' a ha
  rw [fr hf r ch' h' a ha, hc]

theorem spec_callThen {fuel : Nat}
    (hP : ∀ ch c r l tr, Spec cfg blk c ch tr (processResponse cfg blk fuel ch c r l tr))
    (top : Addr) (ch : Chain E) (addr : Addr) (en : Entry) (custom : Event) (tr : Trace)
    (hen : ∀ x, en.sender? = some x → x = top) :
    Spec cfg blk top ch tr (callThen cfg blk fuel ch addr en custom tr) := by
  unfold callThen
  rcases callContract_cases cfg blk ch addr en tr with h1 | ⟨note, o, h1, h2⟩
  · rw [h1]
    exact spec_fail (by intro _ _ h; cases h)
  · rw [h1]
    have hcall : ∀ o' : Outcome (AppResponse × Chain E), (∀ r ch', o' ≠ .ok (r, ch')) →
        Spec cfg blk top ch tr (o', tr ++ [⟨addr, en, contractEnv blk addr, note⟩]) := by
      intro o' ho'
      refine ⟨[_], rfl, ?_, sf_cons hen (sf_nil _), ?_⟩
      · intro e he
        simp only [List.mem_singleton] at he
        subst he
        exact ⟨rfl, rfl⟩
      · intro _ r ch' ho a ha
        exact absurd ho (ho' r ch')
    cases o with
    | ok p =>
      obtain ⟨resp, ch2⟩ := p
      simp only []
      -- the part after the call has top sender `addr`, which is the callee of the call entry
      obtain ⟨n2, e2, env2, sf2, fr2⟩ := hP ch2 addr (buildAppResponse addr custom resp).1
        (buildAppResponse addr custom resp).2 (tr ++ [⟨addr, en, contractEnv blk addr, note⟩])
      refine ⟨⟨addr, en, contractEnv blk addr, note⟩ :: n2, by rw [e2]; simp, ?_,
        sf_cons (e := ⟨addr, en, contractEnv blk addr, note⟩) hen sf2, ?_⟩
      · intro e he
        rcases List.mem_cons.1 he with h | h
        · subst h; exact ⟨rfl, rfl⟩
        · exact env2 e h
      · intro hf r ch' ho a ha
        rw [fr2 hf r ch' ho a (fun e he => ha e (List.mem_cons_of_mem _ he))]
        obtain ⟨own', rfl⟩ := h2 resp ch2 rfl
        have hne : addr ≠ a := ha _ (List.mem_cons_self)
        exact get?_set_other _ _ _ _ (Ne.symm hne)
    | err => exact hcall _ (by intro _ _ h; cases h)
    | panic => exact hcall _ (by intro _ _ h; cases h)
    | outOfFuel => exact hcall _ (by intro _ _ h; cases h)

end

def SpecAt (cfg : Config E) (blk : Block) (fuel : Nat) : Prop :=
  (∀ ch s m tr, Spec cfg blk s ch tr (execute cfg blk fuel ch s m tr)) ∧
  (∀ ch c r l tr, Spec cfg blk c ch tr (processResponse cfg blk fuel ch c r l tr)) ∧
  (∀ ch c sm tr, Spec cfg blk c ch tr (executeSubmsg cfg blk fuel ch c sm tr)) ∧
  (∀ ch c rp tr, Spec cfg blk c ch tr (reply cfg blk fuel ch c rp tr))

theorem specAt (cfg : Config E) (blk : Block) (fuel : Nat) : SpecAt cfg blk fuel := by
  induction fuel with
  | zero =>
    refine ⟨?_, ?_, ?_, ?_⟩
    · intro ch s m tr; rw [execute_zero]; exact spec_fail (by intro _ _ h; cases h)
    · intro ch c r l tr; rw [processResponse_zero]; exact spec_fail (by intro _ _ h; cases h)
    · intro ch c sm tr; rw [executeSubmsg_zero]; exact spec_fail (by intro _ _ h; cases h)
    · intro ch c rp tr; rw [reply_zero]; exact spec_fail (by intro _ _ h; cases h)
  | succ fuel ih =>
    obtain ⟨ihE, ihP, ihS, ihR⟩ := ih
    refine ⟨?_, ?_, ?_, ?_⟩
    · intro ch s m tr
      rcases execute_shape cfg blk ch s m tr with ⟨o, ho, hfr⟩ | ⟨f, ch1, addr, en, custom, hf, hc, hs⟩
      · rw [ho fuel]; exact spec_pure hfr
      · rw [hf fuel]
        exact spec_cstore_eq hc (spec_mapResp f (spec_callThen ihP s ch1 addr en custom tr hs))
    · intro ch c r l tr
      cases l with
      | nil => rw [processResponse_succ_nil]; exact spec_pure (by intro _ _ _ h; cases h; rfl)
      | cons sm rest =>
        rw [processResponse_succ_cons]
        have hs := ihS ch c sm tr
        rcases hx : executeSubmsg cfg blk fuel ch c sm tr with ⟨o, t⟩
        rw [hx] at hs
        cases o with
        | ok p =>
          obtain ⟨sr, ch1⟩ := p
          exact spec_seq hs (Or.inr ⟨sr, rfl⟩) (ihP _ _ _ _ _)
        | err => exact hs
        | panic => exact hs
        | outOfFuel => exact hs
    · intro ch c sm tr
      rw [executeSubmsg_succ]
      have he := ihE ch c sm.msg tr
      rcases hx : execute cfg blk fuel ch c sm.msg tr with ⟨o, t⟩
      rw [hx] at he
      cases o with
      | ok p =>
        obtain ⟨r, ch1⟩ := p
        simp only []
        split
        · have hr := ihR ch1 c ⟨sm.id, sm.payload, .ok r.events r.data⟩ t
          rcases hy : reply cfg blk fuel ch1 c ⟨sm.id, sm.payload, .ok r.events r.data⟩ t with ⟨o2, t2⟩
          rw [hy] at hr
          have hseq := spec_seq he (Or.inr ⟨r, rfl⟩) hr
          cases o2 with
          | ok p2 =>
            obtain ⟨rr, ch2⟩ := p2
            refine spec_weaken hseq ?_
            intro r' ch' h'
            simp only [Outcome.ok.injEq, Prod.mk.injEq] at h'
            exact ⟨rr, by rw [h'.2]⟩
          | err => exact hseq
          | panic => exact hseq
          | outOfFuel => exact hseq
        · refine spec_weaken he ?_
          intro r' ch' h'
          simp only [Outcome.ok.injEq, Prod.mk.injEq] at h'
          exact ⟨r, by rw [h'.2]⟩
      | err =>
        simp only []
        split
        · exact spec_seq he (Or.inl rfl) (ihR _ _ _ _)
        · exact he
      | panic => exact he
      | outOfFuel => exact he
    · intro ch c rp tr
      rw [reply_succ]
      exact spec_callThen ihP c ch c (.reply rp) _ tr (by intro x hx; simp [Entry.sender?] at hx)

end CwMt.Engine
