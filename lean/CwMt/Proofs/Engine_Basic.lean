import CwMt.Model.EngineSpec
/-
  CwMt.Proofs.Engine_Basic — unfolding equations of the mutually recursive engine core, the two
  auxiliary combinators `callThen` / `mapResp` through which every wasm arm of `execute` and `reply`
  factor, `AMap` lemmas, and the facts about a single `callContract`.
-/
namespace CwMt.Engine
open CwMt
variable {E : Type}

/-! ### `AMap` -/

theorem get?_set_self {α : Type} (m : AMap α) (k : String) (v : α) : (m.set k v).get? k = some v := by
  induction m with
  | nil => simp [AMap.set, AMap.get?]
  | cons p m ih =>
    obtain ⟨k', v'⟩ := p
    simp only [AMap.set]
    split
    · simp [AMap.get?]
    · split
      · simp [AMap.get?]
      · rename_i h1 h2
        have : ¬ k' = k := fun h => h2 h.symm
        simp [AMap.get?, this, ih]

theorem get?_set_other {α : Type} (m : AMap α) (k k₂ : String) (v : α) (h : k₂ ≠ k) :
    (m.set k v).get? k₂ = m.get? k₂ := by
  induction m with
  | nil => simp [AMap.set, AMap.get?, h.symm]
  | cons p m ih =>
    obtain ⟨k', v'⟩ := p
    simp only [AMap.set]
    split
    · simp [AMap.get?, h.symm]
    · split
      · rename_i h1 h2
        subst h2
        simp [AMap.get?, h.symm]
      · simp [AMap.get?, ih]

/-! ### combinators -/

/-- post-processing of the response of a successful result; failures pass through -/
def mapResp (f : AppResponse → AppResponse) : EngineResult E → EngineResult E
  | (.ok (r, ch), tr) => (.ok (f r, ch), tr)
  | other => other

/-- call an entry point, then process the response's sub-messages (the common tail of the wasm arms
of `execute`, of `reply` and of `wasmSudo`) -/
def callThen (cfg : Config E) (blk : Block) (fuel : Nat) (ch : Chain E) (addr : Addr) (en : Entry)
    (custom : Event) (tr : Trace) : EngineResult E :=
  match callContract cfg blk ch addr en tr with
  | (.ok (resp, ch2), tr1) =>
    processResponse cfg blk fuel ch2 addr (buildAppResponse addr custom resp).1
      (buildAppResponse addr custom resp).2 tr1
  | (.err, tr1) => (.err, tr1)
  | (.panic, tr1) => (.panic, tr1)
  | (.outOfFuel, tr1) => (.outOfFuel, tr1)

def replyMode (rp : Reply) : String :=
  match rp.result with | .ok .. => "handle_success" | .err => "handle_failure"

theorem mapResp_snd (f : AppResponse → AppResponse) (x : EngineResult E) : (mapResp f x).2 = x.2 := by
  unfold mapResp; split <;> rfl

theorem mapResp_ok_iff (f : AppResponse → AppResponse) (x : EngineResult E) (r : AppResponse)
    (ch : Chain E) (tr : Trace) :
    mapResp f x = (.ok (r, ch), tr) ↔ ∃ r0, x = (.ok (r0, ch), tr) ∧ r = f r0 := by
  obtain ⟨o, t⟩ := x
  cases o with
  | ok p =>
    obtain ⟨r0, c0⟩ := p
    simp only [mapResp, Prod.mk.injEq, Outcome.ok.injEq]
    constructor
    · rintro ⟨⟨rfl, rfl⟩, rfl⟩; exact ⟨r0, ⟨⟨rfl, rfl⟩, rfl⟩, rfl⟩
    · rintro ⟨r1, ⟨⟨rfl, rfl⟩, rfl⟩, rfl⟩; exact ⟨⟨rfl, rfl⟩, rfl⟩
  | err => simp [mapResp]
  | panic => simp [mapResp]
  | outOfFuel => simp [mapResp]

theorem mapResp_fst_oof (f : AppResponse → AppResponse) (x : EngineResult E) :
    (mapResp f x).1 = .outOfFuel ↔ x.1 = .outOfFuel := by
  obtain ⟨o, t⟩ := x
  cases o <;> simp [mapResp]

/-! ### unfolding equations -/

section eqns
variable (cfg : Config E) (blk : Block)

theorem execute_zero (ch : Chain E) (s : Addr) (m : Msg) (tr : Trace) :
    execute cfg blk 0 ch s m tr = (.outOfFuel, tr) := by
  simp only [execute]

theorem processResponse_zero (ch : Chain E) (c : Addr) (r : AppResponse) (l : List SubMsg) (tr : Trace) :
    processResponse cfg blk 0 ch c r l tr = (.outOfFuel, tr) := by
  simp only [processResponse]

theorem executeSubmsg_zero (ch : Chain E) (c : Addr) (sm : SubMsg) (tr : Trace) :
    executeSubmsg cfg blk 0 ch c sm tr = (.outOfFuel, tr) := by
  simp only [executeSubmsg]

theorem reply_zero (ch : Chain E) (c : Addr) (rp : Reply) (tr : Trace) :
    reply cfg blk 0 ch c rp tr = (.outOfFuel, tr) := by
  simp only [reply]

theorem execute_succ_bankSend (fuel : Nat) (ch : Chain E) (s : Addr) (to : String) (a : Coins) (tr : Trace) :
    execute cfg blk (fuel + 1) ch s (.bankSend to a) tr = (bankExecute ch s (.bankSend to a), tr) := by
  simp only [execute]

theorem execute_succ_bankBurn (fuel : Nat) (ch : Chain E) (s : Addr) (a : Coins) (tr : Trace) :
    execute cfg blk (fuel + 1) ch s (.bankBurn a) tr = (bankExecute ch s (.bankBurn a), tr) := by
  simp only [execute]

theorem execute_succ_ext (fuel : Nat) (ch : Chain E) (s : Addr) (k : ExtKind) (p : Val) (tr : Trace) :
    execute cfg blk (fuel + 1) ch s (.ext k p) tr = (cfg.extExec k ch blk s p, tr) := by
  simp only [execute]

theorem execute_succ_updateAdmin (fuel : Nat) (ch : Chain E) (s : Addr) (c a : String) (tr : Trace) :
    execute cfg blk (fuel + 1) ch s (.wasmUpdateAdmin c a) tr = (updateAdmin cfg ch s c (some a), tr) := by
  simp only [execute]

theorem execute_succ_clearAdmin (fuel : Nat) (ch : Chain E) (s : Addr) (c : String) (tr : Trace) :
    execute cfg blk (fuel + 1) ch s (.wasmClearAdmin c) tr = (updateAdmin cfg ch s c none, tr) := by
  simp only [execute]

theorem execute_succ_wasmExecute (fuel : Nat) (ch : Chain E) (s : Addr)
    (c : String) (m : Val) (funds : Coins) (tr : Trace) :
    execute cfg blk (fuel + 1) ch s (.wasmExecute c m funds) tr =
      if !cfg.validAddr c then (.err, tr) else
      match sendFunds ch s c funds with
      | .ok ch1 => mapResp (fun r => { r with data := r.data.map encodeExecuteResponse })
          (callThen cfg blk fuel ch1 c (.execute ⟨s, funds⟩ m)
            { ty := "execute", attrs := [contractAttr c] } tr)
      | .err => (.err, tr)
      | .panic => (.panic, tr)
      | .outOfFuel => (.outOfFuel, tr) := by
  simp only [execute, callThen, mapResp]
  split
  · rfl
  · cases sendFunds ch s c funds with
    | ok ch1 =>
      simp only []
      rcases callContract cfg blk ch1 c (.execute ⟨s, funds⟩ m) tr with ⟨o, tr1⟩
      cases o with
      | ok p =>
        simp only []
        split <;> simp_all
      | _ => rfl
    | _ => rfl

theorem execute_succ_wasmInstantiate (fuel : Nat) (ch : Chain E) (s : Addr) (admin : Option String)
    (codeId : Nat) (m : Val) (funds : Coins) (label : String) (salt : Option Val) (tr : Trace) :
    execute cfg blk (fuel + 1) ch s (.wasmInstantiate admin codeId m funds label salt) tr =
      if label.isEmpty then (.err, tr) else
      match registerContract cfg ch codeId s admin label blk.height salt with
      | .ok (addr, ch0) =>
        (match sendFunds ch0 s addr funds with
        | .ok ch1 =>
          mapResp (fun r => { r with data := some (encodeInstantiateResponse addr (r.data.getD [])) })
            (callThen cfg blk fuel ch1 addr (.instantiate ⟨s, funds⟩ m)
              { ty := "instantiate", attrs := [contractAttr addr, ⟨"code_id", toString codeId⟩] } tr)
        | .err => (.err, tr)
        | .panic => (.panic, tr)
        | .outOfFuel => (.outOfFuel, tr))
      | .err => (.err, tr)
      | .panic => (.panic, tr)
      | .outOfFuel => (.outOfFuel, tr) := by
  simp only [execute, callThen, mapResp]
  split
  · rfl
  · cases registerContract cfg ch codeId s admin label blk.height salt with
    | ok p =>
      obtain ⟨addr, ch0⟩ := p
      simp only []
      cases sendFunds ch0 s addr funds with
      | ok ch1 =>
        simp only []
        rcases callContract cfg blk ch1 addr (.instantiate ⟨s, funds⟩ m) tr with ⟨o, tr1⟩
        cases o with
        | ok p =>
          simp only []
          split <;> simp_all
        | _ => rfl
      | _ => rfl
    | _ => rfl

theorem execute_succ_wasmMigrate (fuel : Nat) (ch : Chain E) (s : Addr) (c : String) (newCodeId : Nat)
    (m : Val) (tr : Trace) :
    execute cfg blk (fuel + 1) ch s (.wasmMigrate c newCodeId m) tr =
      if !cfg.validAddr c then (.err, tr) else
      if !codeKnown cfg newCodeId then (.err, tr) else
      match ch.contracts.get? c with
      | none => (.err, tr)
      | some cd =>
        if cd.admin ≠ some s then (.err, tr) else
        mapResp (fun r => { r with data := r.data.map encodeExecuteResponse })
          (callThen cfg blk fuel
            { ch with contracts := ch.contracts.set c { cd with codeId := newCodeId } } c (.migrate m)
            { ty := "migrate", attrs := [contractAttr c, ⟨"code_id", toString newCodeId⟩] } tr) := by
  simp only [execute, callThen, mapResp]
  split
  · rfl
  · split
    · rfl
    · cases ch.contracts.get? c with
      | none => rfl
      | some cd =>
        simp only []
        split
        · rfl
        · rcases callContract cfg blk
            { ch with contracts := ch.contracts.set c { cd with codeId := newCodeId } } c (.migrate m) tr
            with ⟨o, tr1⟩
          cases o with
          | ok p =>
            simp only []
            split <;> simp_all
          | _ => rfl

theorem processResponse_succ_nil (fuel : Nat) (ch : Chain E) (c : Addr) (r : AppResponse) (tr : Trace) :
    processResponse cfg blk (fuel + 1) ch c r [] tr = (.ok (r, ch), tr) := by
  simp only [processResponse]

theorem processResponse_succ_cons (fuel : Nat) (ch : Chain E) (c : Addr) (resp : AppResponse)
    (sm : SubMsg) (rest : List SubMsg) (tr : Trace) :
    processResponse cfg blk (fuel + 1) ch c resp (sm :: rest) tr =
      (match executeSubmsg cfg blk fuel ch c sm tr with
       | (.ok (sr, ch₁), tr₁) =>
         processResponse cfg blk fuel ch₁ c
           { events := resp.events ++ sr.events, data := sr.data.orElse fun _ => resp.data } rest tr₁
       | other => other) := by
  simp only [processResponse]
  rcases executeSubmsg cfg blk fuel ch c sm tr with ⟨o, t⟩
  cases o with
  | ok p => rfl
  | _ => rfl

theorem executeSubmsg_succ (fuel : Nat) (ch : Chain E) (c : Addr) (sm : SubMsg) (tr : Trace) :
    executeSubmsg cfg blk (fuel + 1) ch c sm tr =
      (match execute cfg blk fuel ch c sm.msg tr with
      | (.ok (r, ch1), tr1) =>
        if wantsReplyOnOk sm.replyOn then
          (match reply cfg blk fuel ch1 c ⟨sm.id, sm.payload, .ok r.events r.data⟩ tr1 with
          | (.ok (rr, ch2), tr2) => (.ok ({ events := r.events ++ rr.events, data := rr.data }, ch2), tr2)
          | other => other)
        else (.ok ({ r with data := none }, ch1), tr1)
      | (.err, tr1) =>
        if wantsReplyOnErr sm.replyOn then reply cfg blk fuel ch c ⟨sm.id, sm.payload, .err⟩ tr1
        else (.err, tr1)
      | (.panic, tr1) => (.panic, tr1)
      | (.outOfFuel, tr1) => (.outOfFuel, tr1)) := by
  simp only [executeSubmsg]
  rcases execute cfg blk fuel ch c sm.msg tr with ⟨o, t⟩
  cases o with
  | ok p =>
    obtain ⟨r, ch1⟩ := p
    simp only []
    split
    · rcases reply cfg blk fuel ch1 c ⟨sm.id, sm.payload, .ok r.events r.data⟩ t with ⟨o2, t2⟩
      cases o2 <;> rfl
    · rfl
  | _ => rfl

theorem reply_succ (fuel : Nat) (ch : Chain E) (c : Addr) (rp : Reply) (tr : Trace) :
    reply cfg blk (fuel + 1) ch c rp tr =
      callThen cfg blk fuel ch c (.reply rp)
        { ty := "reply", attrs := [contractAttr c, ⟨"mode", replyMode rp⟩] } tr := by
  simp only [reply, callThen, replyMode]
  rfl

end eqns

end CwMt.Engine
