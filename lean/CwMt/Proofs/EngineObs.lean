import CwMt.Proofs.Engine
/-
  CwMt.Proofs.EngineObs — the ghost invocation trace is a pure observer.
  One induction on the fuel establishes, for all four engine functions at once, the uniform form
  `∃ o new, ∀ tr, f tr = (o, tr ++ new)`: outcome (with state) and appended entries are fixed
  before the input trace is known.  `trace_is_observer` and `failed_subs_indistinguishable`
  (referenced by CwMt/Props/C02) are corollaries.
-/
namespace CwMt.EngineObs
open CwMt CwMt.Engine
variable {E : Type}

/-- `f` ignores its trace argument except for appending a fixed list of entries to it -/
def Uniform (f : Trace → EngineResult E) : Prop :=
  ∃ o new, ∀ tr, f tr = (o, tr ++ new)

theorem uniform_pure (o : Outcome (AppResponse × Chain E)) : Uniform (fun tr => (o, tr)) :=
  ⟨o, [], fun tr => by rw [List.append_nil]⟩

theorem uniform_mapResp (g : AppResponse → AppResponse) {f : Trace → EngineResult E} (h : Uniform f) :
    Uniform (fun tr => mapResp g (f tr)) := by
  obtain ⟨o, n, h⟩ := h
  cases o with
  | ok p =>
    obtain ⟨r, c⟩ := p
    exact ⟨.ok (g r, c), n, fun tr => by show mapResp g (f tr) = _; rw [h tr]; rfl⟩
  | err => exact ⟨.err, n, fun tr => by show mapResp g (f tr) = _; rw [h tr]; rfl⟩
  | panic => exact ⟨.panic, n, fun tr => by show mapResp g (f tr) = _; rw [h tr]; rfl⟩
  | outOfFuel => exact ⟨.outOfFuel, n, fun tr => by show mapResp g (f tr) = _; rw [h tr]; rfl⟩

section
variable (cfg : Config E) (blk : Block)

/-- a single contract call: the contract never sees the trace -/
theorem uniform_call (ch : Chain E) (addr : Addr) (en : Entry) :
    ∃ (o : Outcome (Response × Chain E)) (new : Trace),
      ∀ tr, callContract cfg blk ch addr en tr = (o, tr ++ new) := by
  cases hc : ch.contracts.get? addr with
  | none => exact ⟨.err, [], fun tr => by simp only [callContract, hc, List.append_nil]⟩
  | some cd =>
    cases hcode : contractCode? cfg cd.codeId with
    | none => exact ⟨.err, [], fun tr => by simp only [callContract, hc, hcode, List.append_nil]⟩
    | some code =>
      rcases hrun : code.run en (contractEnv blk addr) ch ((ch.cstore.get? addr).getD []) with ⟨res, note⟩
      cases res with
      | ok p =>
        obtain ⟨resp, own'⟩ := p
        by_cases hok : responseOk resp = true
        · exact ⟨.ok (resp, { ch with cstore := ch.cstore.set addr own' }),
            [⟨addr, en, contractEnv blk addr, note⟩],
            fun tr => by simp only [callContract, hc, hcode, hrun, hok, if_true]⟩
        · exact ⟨.err, [⟨addr, en, contractEnv blk addr, note⟩],
            fun tr => by simp only [callContract, hc, hcode, hrun, hok]; rfl⟩
      | err =>
        exact ⟨.err, [⟨addr, en, contractEnv blk addr, note⟩],
          fun tr => by simp only [callContract, hc, hcode, hrun]⟩
      | panic =>
        exact ⟨.panic, [⟨addr, en, contractEnv blk addr, note⟩],
          fun tr => by simp only [callContract, hc, hcode, hrun]⟩
      | outOfFuel =>
        exact ⟨.outOfFuel, [⟨addr, en, contractEnv blk addr, note⟩],
          fun tr => by simp only [callContract, hc, hcode, hrun]⟩

variable {cfg blk}

theorem uniform_callThen {fuel : Nat}
    (hP : ∀ ch c r l, Uniform (processResponse cfg blk fuel ch c r l))
    (ch : Chain E) (addr : Addr) (en : Entry) (custom : Event) :
    Uniform (callThen cfg blk fuel ch addr en custom) := by
  obtain ⟨o, n, hc⟩ := uniform_call cfg blk ch addr en
  cases o with
  | ok p =>
    obtain ⟨resp, ch2⟩ := p
    obtain ⟨o2, n2, h2⟩ := hP ch2 addr (buildAppResponse addr custom resp).1
      (buildAppResponse addr custom resp).2
    refine ⟨o2, n ++ n2, fun tr => ?_⟩
    unfold callThen
    rw [hc tr]
    simp only []
    rw [h2, List.append_assoc]
  | err => exact ⟨.err, n, fun tr => by unfold callThen; rw [hc tr]⟩
  | panic => exact ⟨.panic, n, fun tr => by unfold callThen; rw [hc tr]⟩
  | outOfFuel => exact ⟨.outOfFuel, n, fun tr => by unfold callThen; rw [hc tr]⟩

end

def UniformAt (cfg : Config E) (blk : Block) (fuel : Nat) : Prop :=
  (∀ ch s m, Uniform (execute cfg blk fuel ch s m)) ∧
  (∀ ch c r l, Uniform (processResponse cfg blk fuel ch c r l)) ∧
  (∀ ch c sm, Uniform (executeSubmsg cfg blk fuel ch c sm)) ∧
  (∀ ch c rp, Uniform (reply cfg blk fuel ch c rp))

theorem uniform_execute_succ (cfg : Config E) (blk : Block) (fuel : Nat)
    (ihP : ∀ ch c r l, Uniform (processResponse cfg blk fuel ch c r l))
    (ch : Chain E) (s : Addr) (m : Msg) : Uniform (execute cfg blk (fuel + 1) ch s m) := by
  have fail : ∀ (o : Outcome (AppResponse × Chain E)),
      (∀ tr, execute cfg blk (fuel + 1) ch s m tr = (o, tr)) →
      Uniform (execute cfg blk (fuel + 1) ch s m) :=
    fun o h => ⟨o, [], fun tr => by rw [h tr, List.append_nil]⟩
  cases m with
  | bankSend to a => exact fail _ (fun tr => execute_succ_bankSend cfg blk fuel ch s to a tr)
  | bankBurn a => exact fail _ (fun tr => execute_succ_bankBurn cfg blk fuel ch s a tr)
  | ext k p => exact fail _ (fun tr => execute_succ_ext cfg blk fuel ch s k p tr)
  | wasmUpdateAdmin c a => exact fail _ (fun tr => execute_succ_updateAdmin cfg blk fuel ch s c a tr)
  | wasmClearAdmin c => exact fail _ (fun tr => execute_succ_clearAdmin cfg blk fuel ch s c tr)
  | wasmExecute c msg funds =>
    by_cases hv : (!cfg.validAddr c) = true
    · exact fail .err (fun tr => by rw [execute_succ_wasmExecute, if_pos hv])
    · cases hs : sendFunds ch s c funds with
      | ok ch1 =>
        obtain ⟨o, n, h⟩ := uniform_mapResp (fun r => { r with data := r.data.map encodeExecuteResponse })
          (uniform_callThen ihP ch1 c (.execute ⟨s, funds⟩ msg)
            { ty := "execute", attrs := [contractAttr c] })
        exact ⟨o, n, fun tr => by rw [execute_succ_wasmExecute, if_neg hv, hs]; exact h tr⟩
      | err => exact fail .err (fun tr => by rw [execute_succ_wasmExecute, if_neg hv, hs])
      | panic => exact fail .panic (fun tr => by rw [execute_succ_wasmExecute, if_neg hv, hs])
      | outOfFuel => exact fail .outOfFuel (fun tr => by rw [execute_succ_wasmExecute, if_neg hv, hs])
  | wasmInstantiate admin codeId msg funds label salt =>
    by_cases hl : label.isEmpty = true
    · exact fail .err (fun tr => by rw [execute_succ_wasmInstantiate, if_pos hl])
    · cases hr : registerContract cfg ch codeId s admin label blk.height salt with
      | ok p =>
        obtain ⟨addr, ch0⟩ := p
        cases hs : sendFunds ch0 s addr funds with
        | ok ch1 =>
          obtain ⟨o, n, h⟩ := uniform_mapResp
            (fun r => { r with data := some (encodeInstantiateResponse addr (r.data.getD [])) })
            (uniform_callThen ihP ch1 addr (.instantiate ⟨s, funds⟩ msg)
              { ty := "instantiate", attrs := [contractAttr addr, ⟨"code_id", toString codeId⟩] })
          exact ⟨o, n, fun tr => by
            rw [execute_succ_wasmInstantiate, if_neg hl, hr]; simp only [hs]; exact h tr⟩
        | err =>
          exact fail .err (fun tr => by rw [execute_succ_wasmInstantiate, if_neg hl, hr]; simp only [hs])
        | panic =>
          exact fail .panic (fun tr => by rw [execute_succ_wasmInstantiate, if_neg hl, hr]; simp only [hs])
        | outOfFuel =>
          exact fail .outOfFuel (fun tr => by
            rw [execute_succ_wasmInstantiate, if_neg hl, hr]; simp only [hs])
      | err => exact fail .err (fun tr => by rw [execute_succ_wasmInstantiate, if_neg hl, hr])
      | panic => exact fail .panic (fun tr => by rw [execute_succ_wasmInstantiate, if_neg hl, hr])
      | outOfFuel => exact fail .outOfFuel (fun tr => by rw [execute_succ_wasmInstantiate, if_neg hl, hr])
  | wasmMigrate c newCodeId msg =>
    by_cases hv : (!cfg.validAddr c) = true
    · exact fail .err (fun tr => by rw [execute_succ_wasmMigrate, if_pos hv])
    by_cases hk : (!codeKnown cfg newCodeId) = true
    · exact fail .err (fun tr => by rw [execute_succ_wasmMigrate, if_neg hv, if_pos hk])
    cases hg : ch.contracts.get? c with
    | none => exact fail .err (fun tr => by rw [execute_succ_wasmMigrate, if_neg hv, if_neg hk, hg])
    | some cd =>
      by_cases ha : cd.admin ≠ some s
      · exact fail .err (fun tr => by
          rw [execute_succ_wasmMigrate, if_neg hv, if_neg hk, hg]; simp only [if_pos ha])
      · obtain ⟨o, n, h⟩ := uniform_mapResp (fun r => { r with data := r.data.map encodeExecuteResponse })
          (uniform_callThen ihP
            { ch with contracts := ch.contracts.set c { cd with codeId := newCodeId } } c (.migrate msg)
            { ty := "migrate", attrs := [contractAttr c, ⟨"code_id", toString newCodeId⟩] })
        exact ⟨o, n, fun tr => by
          rw [execute_succ_wasmMigrate, if_neg hv, if_neg hk, hg]; simp only [if_neg ha]; exact h tr⟩

theorem uniformAt (cfg : Config E) (blk : Block) (fuel : Nat) : UniformAt cfg blk fuel := by
  induction fuel with
  | zero =>
    refine ⟨?_, ?_, ?_, ?_⟩
    · intro ch s m; exact ⟨.outOfFuel, [], fun tr => by rw [execute_zero, List.append_nil]⟩
    · intro ch c r l; exact ⟨.outOfFuel, [], fun tr => by rw [processResponse_zero, List.append_nil]⟩
    · intro ch c sm; exact ⟨.outOfFuel, [], fun tr => by rw [executeSubmsg_zero, List.append_nil]⟩
    · intro ch c rp; exact ⟨.outOfFuel, [], fun tr => by rw [reply_zero, List.append_nil]⟩
  | succ fuel ih =>
    obtain ⟨ihE, ihP, ihS, ihR⟩ := ih
    refine ⟨?_, ?_, ?_, ?_⟩
    · intro ch s m
      exact uniform_execute_succ cfg blk fuel ihP ch s m
    · intro ch c r l
      cases l with
      | nil => exact ⟨.ok (r, ch), [], fun tr => by rw [processResponse_succ_nil, List.append_nil]⟩
      | cons sm rest =>
        obtain ⟨o, n, hs⟩ := ihS ch c sm
        cases o with
        | ok p =>
          obtain ⟨sr, ch1⟩ := p
          obtain ⟨o2, n2, h2⟩ := ihP ch1 c
            { events := r.events ++ sr.events, data := sr.data.orElse fun _ => r.data } rest
          exact ⟨o2, n ++ n2, fun tr => by
            rw [processResponse_succ_cons, hs tr]; simp only []; rw [h2, List.append_assoc]⟩
        | err => exact ⟨.err, n, fun tr => by rw [processResponse_succ_cons, hs tr]⟩
        | panic => exact ⟨.panic, n, fun tr => by rw [processResponse_succ_cons, hs tr]⟩
        | outOfFuel => exact ⟨.outOfFuel, n, fun tr => by rw [processResponse_succ_cons, hs tr]⟩
    · intro ch c sm
      obtain ⟨o, n, he⟩ := ihE ch c sm.msg
      cases o with
      | ok p =>
        obtain ⟨r, ch1⟩ := p
        by_cases hw : wantsReplyOnOk sm.replyOn = true
        · obtain ⟨o2, n2, h2⟩ := ihR ch1 c ⟨sm.id, sm.payload, .ok r.events r.data⟩
          cases o2 with
          | ok p2 =>
            obtain ⟨rr, ch2⟩ := p2
            exact ⟨.ok ({ events := r.events ++ rr.events, data := rr.data }, ch2), n ++ n2, fun tr => by
              rw [executeSubmsg_succ, he tr]; simp only [hw, if_true]; rw [h2, List.append_assoc]⟩
          | err =>
            exact ⟨.err, n ++ n2, fun tr => by
              rw [executeSubmsg_succ, he tr]; simp only [hw, if_true]; rw [h2, List.append_assoc]⟩
          | panic =>
            exact ⟨.panic, n ++ n2, fun tr => by
              rw [executeSubmsg_succ, he tr]; simp only [hw, if_true]; rw [h2, List.append_assoc]⟩
          | outOfFuel =>
            exact ⟨.outOfFuel, n ++ n2, fun tr => by
              rw [executeSubmsg_succ, he tr]; simp only [hw, if_true]; rw [h2, List.append_assoc]⟩
        · exact ⟨.ok ({ r with data := none }, ch1), n, fun tr => by
            rw [executeSubmsg_succ, he tr]; simp only [hw]; rfl⟩
      | err =>
        by_cases hw : wantsReplyOnErr sm.replyOn = true
        · obtain ⟨o2, n2, h2⟩ := ihR ch c ⟨sm.id, sm.payload, .err⟩
          exact ⟨o2, n ++ n2, fun tr => by
            rw [executeSubmsg_succ, he tr]; simp only [hw, if_true]; rw [h2, List.append_assoc]⟩
        · exact ⟨.err, n, fun tr => by rw [executeSubmsg_succ, he tr]; simp only [hw]; rfl⟩
      | panic => exact ⟨.panic, n, fun tr => by rw [executeSubmsg_succ, he tr]⟩
      | outOfFuel => exact ⟨.outOfFuel, n, fun tr => by rw [executeSubmsg_succ, he tr]⟩
    · intro ch c rp
      obtain ⟨o, n, h⟩ := uniform_callThen ihP ch c (.reply rp)
        { ty := "reply", attrs := [contractAttr c, ⟨"mode", replyMode rp⟩] }
      exact ⟨o, n, fun tr => by rw [reply_succ]; exact h tr⟩

/-- from the uniform form to the two-trace form -/
theorem uniform_two {f : Trace → EngineResult E} (h : Uniform f) (tr₁ tr₂ : Trace) :
    (f tr₁).1 = (f tr₂).1 ∧ ∃ new, (f tr₁).2 = tr₁ ++ new ∧ (f tr₂).2 = tr₂ ++ new := by
  obtain ⟨o, n, h⟩ := h
  exact ⟨by rw [h tr₁, h tr₂], n, by rw [h tr₁], by rw [h tr₂]⟩

/-! ### the four functions, two-trace form -/

theorem trace_is_observer (cfg : Config E) (blk : Block) (fuel : Nat) (ch : Chain E) (sender : Addr) (m : Msg)
    (tr₁ tr₂ : Trace) :
    (execute cfg blk fuel ch sender m tr₁).1 = (execute cfg blk fuel ch sender m tr₂).1 ∧
    ∃ new, (execute cfg blk fuel ch sender m tr₁).2 = tr₁ ++ new ∧
           (execute cfg blk fuel ch sender m tr₂).2 = tr₂ ++ new :=
  uniform_two ((uniformAt cfg blk fuel).1 ch sender m) tr₁ tr₂

theorem processResponse_observer (cfg : Config E) (blk : Block) (fuel : Nat) (ch : Chain E) (c : Addr)
    (r : AppResponse) (l : List SubMsg) (tr₁ tr₂ : Trace) :
    (processResponse cfg blk fuel ch c r l tr₁).1 = (processResponse cfg blk fuel ch c r l tr₂).1 ∧
    ∃ new, (processResponse cfg blk fuel ch c r l tr₁).2 = tr₁ ++ new ∧
           (processResponse cfg blk fuel ch c r l tr₂).2 = tr₂ ++ new :=
  uniform_two ((uniformAt cfg blk fuel).2.1 ch c r l) tr₁ tr₂

theorem executeSubmsg_observer (cfg : Config E) (blk : Block) (fuel : Nat) (ch : Chain E) (c : Addr)
    (sm : SubMsg) (tr₁ tr₂ : Trace) :
    (executeSubmsg cfg blk fuel ch c sm tr₁).1 = (executeSubmsg cfg blk fuel ch c sm tr₂).1 ∧
    ∃ new, (executeSubmsg cfg blk fuel ch c sm tr₁).2 = tr₁ ++ new ∧
           (executeSubmsg cfg blk fuel ch c sm tr₂).2 = tr₂ ++ new :=
  uniform_two ((uniformAt cfg blk fuel).2.2.1 ch c sm) tr₁ tr₂

theorem reply_observer (cfg : Config E) (blk : Block) (fuel : Nat) (ch : Chain E) (c : Addr)
    (rp : Reply) (tr₁ tr₂ : Trace) :
    (reply cfg blk fuel ch c rp tr₁).1 = (reply cfg blk fuel ch c rp tr₂).1 ∧
    ∃ new, (reply cfg blk fuel ch c rp tr₁).2 = tr₁ ++ new ∧
           (reply cfg blk fuel ch c rp tr₂).2 = tr₂ ++ new :=
  uniform_two ((uniformAt cfg blk fuel).2.2.2 ch c rp) tr₁ tr₂

/-! ### failed sub-messages -/

theorem failed_subs_indistinguishable (cfg : Config E) (blk : Block) (fuel : Nat) (ch : Chain E) (contract : Addr)
    (sm sm' : SubMsg) (tr tr₁ tr₁' : Trace)
    (hid : sm'.id = sm.id) (hp : sm'.payload = sm.payload) (hr : sm'.replyOn = sm.replyOn)
    (h : execute cfg blk fuel ch contract sm.msg tr = (.err, tr₁))
    (h' : execute cfg blk fuel ch contract sm'.msg tr = (.err, tr₁')) :
    (executeSubmsg cfg blk (fuel + 1) ch contract sm tr).1 =
      (executeSubmsg cfg blk (fuel + 1) ch contract sm' tr).1 := by
  rw [executeSubmsg_succ, executeSubmsg_succ, h, h']
  simp only [hid, hp, hr]
  by_cases hw : wantsReplyOnErr sm.replyOn = true
  · simp only [hw, if_true]
    exact (reply_observer cfg blk fuel ch contract ⟨sm.id, sm.payload, .err⟩ tr₁ tr₁').1
  · simp only [hw]
    rfl

end CwMt.EngineObs
