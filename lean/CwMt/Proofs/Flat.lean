import CwMt.Proofs.Layout
/-
  CwMt.Proofs.Flat — from the ONE root byte store to the typed components of `Chain`.

  The engine model keeps a chain state as separate components (`bank`, `contracts`, `cstore[a]`, staking …); the
  code keeps one `Storage` in which every component is a namespaced window. `window pfx raw` is the component a
  namespace holds. A write / removal through one window is exactly that write / removal on its own component
  (`Prefix.window_set`, `window_remove`) and — this file — leaves every window that cannot contain the raw key
  identical AS A WHOLE STORE (not only key by key). With the byte-level disjointness of `Layout` this is the
  refinement step behind the model's value semantics per component: a contract's write on the flat store is the
  model's `cstore[a]` update and nothing else.
-/
namespace CwMt.Flat
open CwMt Prefix

theorem window_set_other (base : Store Val) (q r : Key) (v : Val) (h : hasPrefix q r = false) :
    window q (Store.set base r v) = window q base := by
  induction base with
  | nil => simp only [Store.set]; rw [window_cons_neg _ _ _ _ h]
  | cons p m ih =>
    obtain ⟨k', v'⟩ := p
    simp only [Store.set]
    by_cases h1 : r < k'
    · simp only [h1, if_true]
      rw [window_cons_neg _ _ _ _ h]
    · by_cases h2 : r = k'
      · subst h2
        simp only [klt_irrefl, if_false, if_true]
        rw [window_cons_neg _ _ _ _ h, window_cons_neg _ _ _ _ h]
      · simp only [h1, h2, if_false]
        by_cases hp : hasPrefix q k' = true
        · obtain ⟨t, rfl⟩ := hasPrefix_iff.1 hp
          rw [window_cons_pos, window_cons_pos, ih]
        · have hp' : hasPrefix q k' = false := by simpa using hp
          rw [window_cons_neg _ _ _ _ hp', window_cons_neg _ _ _ _ hp', ih]

theorem window_remove_other (base : Store Val) (q r : Key) (h : hasPrefix q r = false) :
    window q (Store.remove base r) = window q base := by
  induction base with
  | nil => rfl
  | cons p m ih =>
    obtain ⟨k', v'⟩ := p
    simp only [Store.remove]
    by_cases h1 : k' = r
    · subst h1
      simp only [if_true]
      rw [window_cons_neg _ _ _ _ h]
    · simp only [h1, if_false]
      by_cases hp : hasPrefix q k' = true
      · obtain ⟨t, rfl⟩ := hasPrefix_iff.1 hp
        rw [window_cons_pos, window_cons_pos, ih]
      · have hp' : hasPrefix q k' = false := by simpa using hp
        rw [window_cons_neg _ _ _ _ hp', window_cons_neg _ _ _ _ hp', ih]

/-- two namespaces are disjoint when no raw key lies under both -/
def Disjoint (p q : Key) : Prop := ∀ k : Key, p <+: k → q <+: k → False

theorem hasPrefix_false_of_disjoint {p q : Key} (h : Disjoint p q) (k : Key) : hasPrefix q (p ++ k) = false := by
  cases hq : hasPrefix q (p ++ k) with
  | false => rfl
  | true =>
    obtain ⟨t, ht⟩ := hasPrefix_iff.1 hq
    exact (h (p ++ k) (List.prefix_append p k) ⟨t, ht.symm⟩).elim

/-- a write through namespace `p`: exactly that write on `p`'s component, every disjoint component untouched -/
theorem write_refines (raw : Store Val) (hs : raw.Sorted) (p k : Key) (v : Val) :
    window p (View.set raw p k v) = (window p raw).set k v ∧
    ∀ q, Disjoint p q → window q (View.set raw p k v) = window q raw :=
  ⟨window_set raw hs p k v, fun q hq => window_set_other raw q (p ++ k) v (hasPrefix_false_of_disjoint hq k)⟩

theorem remove_refines (raw : Store Val) (p k : Key) :
    window p (View.remove raw p k) = (window p raw).remove k ∧
    ∀ q, Disjoint p q → window q (View.remove raw p k) = window q raw :=
  ⟨window_remove raw p k, fun q hq => window_remove_other raw q (p ++ k) (hasPrefix_false_of_disjoint hq k)⟩

end CwMt.Flat
