import CwMt.Driver.Kv
import CwMt.Driver.Wasm
import CwMt.Driver.Bank
import CwMt.Driver.Addr
import CwMt.Driver.Route
import CwMt.Driver.Staking
/-
  cwmt-driver <slice> : reads ops lines on stdin, answers one line per op on stdout.
  `case <id>` resets the slice state and is echoed.
-/
open CwMt CwMt.Driver

structure Slice where
  σ : Type
  init : σ
  step : σ → List String → σ × String

def slices : List (String × Slice) :=
  [ ("overlay", { σ := Stack, init := .root [], step := stepOverlay }),
    ("views", { σ := Store Val, init := [], step := stepViews }),
    ("staking", { σ := Stk.StkApps, init := {}, step := Stk.stepStaking }),
    ("staking-det", { σ := Stk.StkApps, init := {}, step := Stk.stepStaking }),
    ("route", { σ := RouteDrv.RouteState, init := {}, step := RouteDrv.stepRoute }),
    ("addr", { σ := Unit, init := (), step := stepAddr }),
    ("bank", { σ := BankSt, init := {}, step := stepBank }),
    ("wasm", { σ := WState, init := {}, step := fun st toks => stepWasm st (" ".intercalate toks) }) ]

partial def loop (sl : Slice) (h : IO.FS.Stream) (out : IO.FS.Stream) (st : sl.σ) : IO Unit := do
  let line ← h.getLine
  if line.isEmpty then return ()
  let toks := tokens line
  match toks with
  | [] => loop sl h out st
  | "case" :: _ =>
    out.putStrLn (line.trimAscii.toString)
    loop sl h out sl.init
  | t :: _ =>
    if t.startsWith "#" then loop sl h out st else
    let (st', o) := sl.step st toks
    out.putStrLn o
    loop sl h out st'

def main (args : List String) : IO UInt32 := do
  match args with
  | [name] =>
    let found : Option Slice :=
      if name.startsWith "wasm" then
        some { σ := WState, init := { api := apiOfSlice name }, step := fun st toks => stepWasm st (" ".intercalate toks) }
      else slices.lookup (if name.startsWith "overlay" then "overlay" else name)
    match found with
    | some sl =>
      let out ← IO.getStdout
      loop sl (← IO.getStdin) out sl.init
      out.flush
      return 0
    | none => IO.eprintln s!"unknown slice {name}"; return 2
  | _ => IO.eprintln "usage: cwmt-driver <slice>"; return 2
