import CwMt.Model.Basic
/- Parsing / printing helpers of the line protocol (driver only; no theorem depends on them). -/
namespace CwMt.Driver

def hexDigit (n : Nat) : Char :=
  if n < 10 then Char.ofNat (48 + n) else Char.ofNat (87 + n)

def hexByte (b : UInt8) : String :=
  String.ofList [hexDigit (b.toNat / 16), hexDigit (b.toNat % 16)]

def hex (bs : List UInt8) : String :=
  if bs.isEmpty then "-" else String.join (bs.map hexByte)

def digitVal (c : Char) : Option Nat :=
  if '0' ≤ c ∧ c ≤ '9' then some (c.toNat - 48)
  else if 'a' ≤ c ∧ c ≤ 'f' then some (c.toNat - 87)
  else if 'A' ≤ c ∧ c ≤ 'F' then some (c.toNat - 55)
  else none

def unhexPlain : List Char → Option (List UInt8)
  | [] => some []
  | [_] => none
  | a :: b :: rest => do
    let x ← digitVal a
    let y ← digitVal b
    let r ← unhexPlain rest
    pure (UInt8.ofNat (x * 16 + y) :: r)

def unhexPart (part : String) : Option (List UInt8) :=
  if part == "-" then some [] else
  match part.splitOn "*" with
  | [b, n] => do
    let bs ← unhexPlain b.toList
    let k ← n.toNat?
    match bs with
    | [x] => pure (List.replicate k x)
    | _ => none
  | _ => unhexPlain part.toList

/-- `-` empty, `XX*N` repetition, parts joined by `+` -/
def unhex (tok : String) : Option (List UInt8) :=
  if tok == "-" then some [] else
  (tok.splitOn "+").foldlM (fun acc p => do let bs ← unhexPart p; pure (acc ++ bs)) []

/-- outer `none` = parse error; `~` = no bound -/
def unhexOpt (tok : String) : Option (Option (List UInt8)) :=
  if tok == "~" then some none else (unhex tok).map some

def fmtRecords (rs : List (Key × Val)) : String :=
  "[" ++ ",".intercalate (rs.map fun p => hex p.1 ++ "=" ++ hex p.2) ++ "]"

def parseOrder (tok : String) : Option Order :=
  if tok == "asc" then some .asc else if tok == "desc" then some .desc else none

def tokens (line : String) : List String :=
  (line.trimAscii.toString.splitOn " ").filter (· ≠ "")

/-- percent-decoding of string tokens (`%` alone = empty string) -/
def pdecBytes : List Char → Option (List UInt8)
  | [] => some []
  | '%' :: a :: b :: rest => do
    let x ← digitVal a
    let y ← digitVal b
    let r ← pdecBytes rest
    pure (UInt8.ofNat (x * 16 + y) :: r)
  | '%' :: _ => none
  | c :: rest => do
    let r ← pdecBytes rest
    pure (UInt8.ofNat c.toNat :: r)

def pdec (tok : String) : Option String :=
  if tok == "%" then some "" else
  match pdecBytes tok.toList with
  | some bs => String.fromUTF8? (ByteArray.mk bs.toArray)
  | none => none

def pencChar (b : UInt8) : String :=
  let c := Char.ofNat b.toNat
  if c.isAlphanum || c == '_' || c == '-' || c == '.' || c == '/' || c == ':' then String.singleton c
  else "%" ++ hexByte b

def penc (s : String) : String :=
  if s.isEmpty then "%" else String.join (s.toUTF8.toList.map pencChar)

end CwMt.Driver
