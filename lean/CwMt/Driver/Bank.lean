import CwMt.Model.Bank
import CwMt.Driver.Util
/- Line-protocol front end for the `bank` engine (slice `bank`, property C09); see harness/src/bank.rs for
   the vocabulary. The ledger is `Bank.State`; the front end adds what is not part of the ledger model:
   the symbol table (`bind`), address validation of `BankSudo::Mint` and of the queries (an address is valid
   iff it is one of the bound `addr_make` addresses; SHA-256/bech32 are not modelled here), while
   `BankMsg::Send`/`Burn` and `init_balance` take addresses unchecked, exactly as /repo/src/bank.rs does. -/
namespace CwMt.Driver
open CwMt

namespace BankDrv

structure BankSt where
  syms : List (String × String) := []
  bank : Bank.State := []

namespace BankSt

def resolve (st : BankSt) (tok : String) : Option String :=
  match tok.toList with
  | 'r' :: 'a' :: 'w' :: ':' :: rest => pdec (String.ofList rest)
  | _ => st.syms.lookup tok

def valid (st : BankSt) (addr : String) : Bool := st.syms.any (fun p => p.2 == addr)

def showAddr (st : BankSt) (addr : String) : String :=
  match st.syms.find? (fun p => p.2 == addr) with
  | some p => p.1
  | none => "raw:" ++ penc addr

end BankSt

def parseNat (ds : List Char) : Nat := ds.foldl (fun acc c => acc * 10 + (c.toNat - 48)) 0

def parseCoin (s : String) : Option Coin :=
  let cs := s.toList
  let ds := cs.takeWhile Char.isDigit
  let rest := cs.dropWhile Char.isDigit
  if ds.isEmpty || rest.isEmpty then none
  else some { denom := String.ofList rest, amount := parseNat ds }

def parseCoins (tok : String) : Option Coins :=
  if tok == "-" then some [] else (tok.splitOn ",").mapM parseCoin

def fmtCoins (cs : Coins) : String :=
  if cs.isEmpty then "-" else ",".intercalate (cs.map fun c => toString c.amount ++ c.denom)

def okErr (st : BankSt) (r : Option Bank.State) : BankSt × String :=
  match r with
  | some b => ({ st with bank := b }, "ok")
  | none => (st, "err")

def dumpBank (st : BankSt) : String :=
  if st.bank.isEmpty then "-"
  else ";".intercalate (st.bank.map fun p => st.showAddr p.1 ++ "=" ++ fmtCoins p.2)

def qBal (st : BankSt) (a d : String) : String :=
  if st.valid a then toString (Bank.queryBalance st.bank a d) else "err"

def qAll (st : BankSt) (a : String) : String :=
  if st.valid a then fmtCoins (Bank.balance st.bank a) else "err"

def qSupply (st : BankSt) (d : String) : String := toString (Bank.supply st.bank d)

def stepBank (st : BankSt) (toks : List String) : BankSt × String :=
  match toks with
  | ["bind", s, a] =>
    if st.syms.any (fun p => p.1 == s) then (st, "bad-op")
    else ({ st with syms := st.syms ++ [(s, a)] }, "ok")
  | ["init", a, c] =>
    match st.resolve a, parseCoins c with
    | some a, some c => ({ st with bank := Bank.setBalance st.bank a c }, "ok")
    | _, _ => (st, "bad-op")
  | ["mint", a, c] =>
    match st.resolve a, parseCoins c with
    | some a, some c => if st.valid a then okErr st (Bank.mint st.bank a c) else (st, "err")
    | _, _ => (st, "bad-op")
  | ["send", a, b, c] =>
    match st.resolve a, st.resolve b, parseCoins c with
    | some a, some b, some c => okErr st (Bank.send st.bank a b c)
    | _, _, _ => (st, "bad-op")
  | ["sendt", a, b, c] =>
    match st.resolve a, st.resolve b, parseCoins c with
    | some a, some b, some c => okErr st (Bank.send st.bank a b c)
    | _, _, _ => (st, "bad-op")
  | ["sendr", a, b, c] =>
    match st.resolve a, st.resolve b, parseCoins c with
    | some a, some b, some c => okErr st (Bank.send st.bank a b c)
    | _, _, _ => (st, "bad-op")
  | ["burn", a, c] =>
    match st.resolve a, parseCoins c with
    | some a, some c => okErr st (Bank.burn st.bank a c)
    | _, _ => (st, "bad-op")
  | ["bal", a, d] =>
    match st.resolve a with
    | some a => (st, qBal st a d)
    | none => (st, "bad-op")
  | ["all", a] =>
    match st.resolve a with
    | some a => (st, qAll st a)
    | none => (st, "bad-op")
  | ["supply", d] => (st, qSupply st d)
  | ["dump-bank"] => (st, dumpBank st)
  | "snap" :: denoms =>
    let addrs := st.syms.map (·.2)
    let bal := "/".intercalate (addrs.map fun a => ",".intercalate (denoms.map fun d => qBal st a d))
    let all := "|".intercalate (addrs.map fun a => qAll st a)
    let sup := ",".intercalate (denoms.map fun d => qSupply st d)
    (st, "bal=" ++ bal ++ " all=" ++ all ++ " supply=" ++ sup ++ " dump=" ++ dumpBank st)
  | _ => (st, "bad-op")

end BankDrv

export BankDrv (BankSt stepBank)

end CwMt.Driver
