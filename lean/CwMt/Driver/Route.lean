import CwMt.Model.Route
import CwMt.Model.Store
import CwMt.Gen.Router
import CwMt.Gen.Lift
import CwMt.Gen.Builder
import CwMt.Gen.Wrapper
import CwMt.Driver.Util
/-
  Line-protocol front end of the `route` slice (C17, C20); the op vocabulary is documented in
  harness/src/route.rs. Every answer is computed from the *generated* tables with the hand-written
  semantics of CwMt/Model/Route.lean:
    build     = `runBuild Gen.Builder.build (runSteps Gen.Builder.steps (construct … new_custom) steps)`
    send/query/sudo = `route FeatureSet.harness Gen.Router.*Table kind`, then the behaviour of the
                component found in the slot (recording / accepting / failing test module, or the
                builder's default component)
    send-sub lifted = `lift FeatureSet.harness Gen.Lift.table kind` first
    wrapper   = `runSteps Gen.Wrapper.steps (construct … new|new_with_empty) steps`
  The only knowledge that is not table-derived is how the test doubles of the harness and the default
  components answer the fixed probe messages (`defaultExec` … below). No theorem depends on this file.
-/
namespace CwMt.Driver.RouteDrv
open CwMt CwMt.Route CwMt.Driver

inductive Mode where
  | record | acc | fail
  | cacc   -- the crate's own always-accepting modules (`AcceptingModule`, `StargateAccepting`): like `acc`, but a stargate query is answered with `{}`
  deriving DecidableEq, Repr

/-- a component handed to a `with_*` step by the harness -/
inductive Comp where
  | module (slot : String) (mode : Mode) (tag : Nat)
  | api (n : Nat)
  | storage (n : Nat)
  | block (n : Nat)
  | wasm (n : Nat)
  deriving Repr

structure Record where
  slot : String
  tag : Nat
  entry : String
  sender : String
  payload : String

structure RouteApp where
  comp : BField → CVal Comp
  inits : Nat
  store : Store Val

structure RouteState where
  app : Option RouteApp := none
  log : List Record := []

def slotNames : List String := ["bank", "custom", "staking", "distribution", "ibc", "gov", "stargate"]
def prefixes : List String := ["cosmwasm", "juno", "osmo"]

def smallNat (s : String) : Option Nat :=
  match s.toNat? with
  | some n => if n ≤ 9 ∧ s.length > 0 then some n else none
  | none => none

def parseMode : String → Option Mode
  | "rec" => some .record | "acc" => some .acc | "fail" => some .fail | _ => none

def stepOfSlot : String → BStep
  | "bank" => .with_bank | "custom" => .with_custom | "staking" => .with_staking
  | "distribution" => .with_distribution | "ibc" => .with_ibc | "gov" => .with_gov
  | "stargate" => .with_stargate | _ => .other

def parseStep (tok : String) : Option (BStep × Comp) :=
  match tok.splitOn ":" with
  | ["api", n] => do let n ← smallNat n; if n < prefixes.length then some (.with_api, Comp.api n) else none
  | ["storage", n] => do let n ← smallNat n; some (.with_storage, Comp.storage n)
  | ["block", n] => do let n ← smallNat n; some (.with_block, Comp.block n)
  | ["wasm", n] => do let n ← smallNat n; some (.with_wasm, Comp.wasm n)
  -- the same keeper wrapped in a pass-through module of the test author's own (what it notes is an implementation-only line)
  | ["wasmrec", n] => do let n ← smallNat n; some (.with_wasm, Comp.wasm n)
  | [slot, mode] => do
    if !slotNames.contains slot then none
    let m ← parseMode mode
    some (stepOfSlot slot, Comp.module slot m 0)
  | [slot, mode, tag] => do
    if !slotNames.contains slot then none
    let m ← parseMode mode
    let t ← smallNat tag
    some (stepOfSlot slot, Comp.module slot m t)
  | _ => none

def bytesOfString (s : String) : List UInt8 := s.toUTF8.toList

def prefilled (n : Nat) : Store Val :=
  Store.set (Store.set ([] : Store Val) (bytesOfString s!"pre{n}") (bytesOfString s!"v{n}")) (bytesOfString "shared") [UInt8.ofNat n]

def initialStore (c : CVal Comp) : Store Val :=
  match c with
  | .supplied (.storage n) => prefilled n
  | _ => []

/-- `init_fn` of the harness: counts its runs and writes the count under `init`. -/
def runInits (n : Nat) (s : Store Val) : Store Val :=
  (List.range n).foldl (fun s i => Store.set s (bytesOfString "init") [UInt8.ofNat (i + 1)]) s

def doBuild (steps : List (BStep × Comp)) : Option RouteApp :=
  let b := runSteps Gen.Builder.steps (construct Gen.Builder.steps .new_custom (fun _ => CVal.undef)) steps
  match runBuild Gen.Builder.build b with
  | some app =>
    let n := app.inits.length
    some { comp := app.comp, inits := n, store := runInits n (initialStore (app.comp .storage)) }
  | none => none

def fieldOfMod : Mod → BField
  | .wasm => .wasm | .bank => .bank | .custom => .custom | .staking => .staking
  | .distribution => .distribution | .ibc => .ibc | .gov => .gov | .stargate => .stargate | .other => .other

def entryName : Method → String
  | .execute => "exec" | .query => "query" | .sudo => "sudo" | .execute_stargate => "exec-stargate"
  | .execute_any => "exec-any" | .query_stargate => "query-stargate" | .query_grpc => "query-grpc" | .other => "?"

def isBound : Arg → Bool
  | .bound _ => true
  | _ => false

inductive Res where
  | ok (data : Option (List UInt8))
  | err
  | panic
  | unknown

def bump (s : Store Val) (slot : String) : Store Val :=
  let key := bytesOfString ("cnt/" ++ slot)
  let n : UInt8 := match Store.get s key with
    | some (b :: _) => b
    | _ => 0
  Store.set s key [n + 1]

/-- How the builder's default components answer the harness's probe messages (measured on /repo):
every default module rejects them, except that `StakeKeeper` answers the validator query with
`{"validator":null}`. -/
def defaultAnswer (slot : BField) (meth : Method) : Res :=
  match slot, meth with
  | .staking, .query => .ok (some (bytesOfString "{\"validator\":null}"))
  | _, _ => .err

structure Call where
  kind : Kind
  sender : String
  payload : List UInt8

/-- One routed call: table lookup, then the component in the slot. Returns outcome, new store, new records. -/
def dispatch (app : RouteApp) (t : MatchTable) (parts : Kind → Nat) (c : Call) (store : Store Val) :
    Res × Store Val × List Record :=
  match route .harness t c.kind with
  | .malformed => (.unknown, store, [])
  | .fall .bail => (.err, store, [])
  | .fall _ => (.panic, store, [])
  | .call m meth args direct =>
    if !direct then (.unknown, store, []) else
    let sender := if meth == .execute || meth == .execute_stargate || meth == .execute_any then
        (if args.contains .sender then c.sender else "?") else "-"
    let payload := if args.filter isBound == boundArgs (parts c.kind) then hex c.payload else "?"
    let isQuery := meth == .query || meth == .query_stargate || meth == .query_grpc
    match m with
    | .wasm =>
      -- the real WasmKeeper runs the emitter/sink contract, which records the call
      let data := if isQuery then some c.payload else none
      (.ok data, store, [⟨"wasm", 0, entryName meth, sender, payload⟩])
    | _ =>
      match app.comp (fieldOfMod m) with
      | .supplied (.module slot mode tag) =>
        match mode with
        | .record =>
          if isQuery then (.ok (some (UInt8.ofNat tag :: c.payload)), store, [⟨slot, tag, entryName meth, sender, payload⟩])
          else (.ok none, bump store slot, [⟨slot, tag, entryName meth, sender, payload⟩])
        | .acc => (.ok (if isQuery then some [] else none), store, [])
        | .cacc => (.ok (if meth == .query_stargate then some [0x7b, 0x7d] else if isQuery then some [] else none), store, [])
        | .fail => (.err, store, [])
      | .const _ => (defaultAnswer (fieldOfMod m) meth, store, [])
      | _ => (.unknown, store, [])

/-- A list of calls in one transaction: the first failure aborts and restores the store; records stay. -/
def runTx (app : RouteApp) (calls : List Call) : Res × Store Val × List Record :=
  let rec go (cs : List Call) (store : Store Val) (recs : List Record) : Res × Store Val × List Record :=
    match cs with
    | [] => (.ok none, store, recs)
    | c :: rest =>
      match dispatch app Gen.Router.execTable Kind.parts c store with
      | (.ok _, store', r) => go rest store' (recs ++ r)
      | (res, _, r) => (res, app.store, recs ++ r)
  go calls app.store []

def showRes : Res → String
  | .ok _ => "ok" | .err => "err" | .panic => "panic" | .unknown => "model-unknown"

def showQueryRes : Res → String
  | .ok (some d) => "ok " ++ hex d
  | .ok none => "ok -"
  | .err => "err" | .panic => "panic" | .unknown => "model-unknown"

def execKindOf : String → Option Kind
  | "bank" => some .bank | "wasm" => some .wasm | "custom" => some .custom | "staking" => some .staking
  | "distribution" => some .distribution | "ibc" => some .ibc | "gov" => some .gov
  | "stargate" => some .stargate | "any" => some .any | _ => none

def queryKindOf : String → Option Kind
  | "bank" => some .bank | "wasm" => some .wasm | "custom" => some .custom | "staking" => some .staking
  | "distribution" => some .distribution | "ibc" => some .ibc | "stargate" => some .stargate
  | "grpc" => some .grpc | _ => none

def sudoKindOf : String → Option Kind
  | "bank" => some .bank | "staking" => some .staking | "wasm" => some .wasm | "custom" => some .custom | _ => none

/-- `(KIND H)+` with the harness's acceptance rules (gov payloads are at most 6 bytes) -/
def parseItems : List String → Option (List (Kind × List UInt8))
  | [] => some []
  | [_] => none
  | k :: h :: rest => do
    let h ← unhex h
    let k ← execKindOf k
    if k == .gov && h.length > 6 then none
    let r ← parseItems rest
    some ((k, h) :: r)

def parseItemsRaw : List String → Option (List (String × List UInt8))
  | [] => some []
  | [_] => none
  | k :: h :: rest => do
    let h ← unhex h
    let r ← parseItemsRaw rest
    some ((k, h) :: r)

/-- mirrors the harness: first every hex token is parsed, then every kind is checked -/
def parseItems' (toks : List String) : Option (List (Kind × List UInt8)) :=
  match toks with
  | [] => none
  | _ => do
    let raw ← parseItemsRaw toks
    raw.mapM fun (k, h) => do
      let k ← execKindOf k
      if k == .gov && h.length > 6 then none
      some (k, h)

def fmtRecord (r : Record) : String :=
  s!"{r.slot}#{r.tag}:{r.entry}:{r.sender}:{r.payload}"

def showVal (v : CVal String) : String :=
  match v with
  | .supplied s => s
  | .const _ => "none"
  | .undef => "undef"

def wrapperTag (rest : List String) : Option Nat :=
  match rest with
  | [] => some 1
  | t :: _ => match t.toNat? with
    | some n => if 1 ≤ n ∧ n ≤ 3 then some n else none
    | none => none

def parseWStep (tok : String) : Option (WStep × String) :=
  match tok.splitOn ":" with
  | [name, v] =>
    if name == "checksum" then (smallNat v).map fun n => (.with_checksum, toString n)
    else do
      let n ← wrapperTag [v]
      match name with
      | "sudo" => some (.with_sudo, toString n)
      | "sudo-empty" => some (.with_sudo_empty, s!"e{n}")
      | "reply" => some (.with_reply, toString n)
      | "reply-empty" => some (.with_reply_empty, s!"e{n}")
      | "migrate" => some (.with_migrate, toString n)
      | "migrate-empty" => some (.with_migrate_empty, s!"e{n}")
      | _ => none
  | _ => none

def doWrapper (toks : List String) : String :=
  match toks with
  | [] => "bad-op"
  | first :: steps =>
    match first.splitOn ":" with
    | [] => "bad-op"
    | name :: rest =>
      match wrapperTag rest with
      | none => "bad-op"
      | some n =>
        let ctor : Option (WStep × String) :=
          if name == "new" then some (.new, toString n)
          else if name == "new-empty" then some (.new_with_empty, s!"e{n}")
          else none
        match ctor, steps.mapM parseWStep with
        | some (c, tag), some l =>
          let args : Nat → CVal String := fun i => if i < 3 then .supplied tag else .undef
          let w := runSteps Gen.Wrapper.steps (construct Gen.Wrapper.steps c args) l
          s!"checksum={showVal (w .checksum)} execute={showVal (w .execute_fn)} instantiate={showVal (w .instantiate_fn)} " ++
          s!"query={showVal (w .query_fn)} sudo={showVal (w .sudo_fn)} reply={showVal (w .reply_fn)} migrate={showVal (w .migrate_fn)}"
        | _, _ => "bad-op"

def parseOrigin : String → Option Origin
  | "instantiate" => some .instantiate | "execute" => some .execute | "migrate" => some .migrate
  | "sudo" => some .sudo | "reply" => some .reply | _ => none

/-- `send-sub-from ENTRY native|lifted (KIND H)+`: the emitter contract returns the messages from its entry
point `o`. The emitting contract is the fresh instance `cx` for `instantiate`, else the standing emitter
`cn` / `cl`; it is the sender of every sub-message whatever the entry point (`subDispatch`); who
triggered the entry point (u1, the admin u2, the sudo caller) appears nowhere. -/
def doSendSub (st : RouteState) (app : RouteApp) (o : Origin) (rest : List String) : RouteState × String :=
  match rest with
  | [] => (st, "bad-op")
  | origin :: items =>
    if origin != "native" && origin != "lifted" then (st, "bad-op") else
    match parseItems' items with
    | none => (st, "bad-op")
    | some l =>
      let me := if o == .instantiate then "cx" else if origin == "native" then "cn" else "cl"
      -- the request that makes the contract run is itself routed to the wasm module
      let triggerOk : Bool :=
        if o.viaSudo then
          (match route .harness Gen.Router.sudoTable .wasm with
           | .call .wasm .sudo _ true => true
           | _ => false)
        else
          (match route .harness Gen.Router.execTable .wasm with
           | .call .wasm .execute _ true => true
           | _ => false)
      if !triggerOk then (st, "model-unknown") else
      -- an Empty-typed contract's response is lifted message by message before anything is dispatched
      let lifted : Option (List (Kind × List UInt8 × Bool)) :=
        if origin == "native" then some (l.map fun (k, h) => (k, h, true))
        else l.mapM fun (k, h) =>
          match lift .harness Gen.Lift.table k with
          | .msg k' intact => some (k', h, intact)
          | _ => none
      match lifted with
      | none => (st, "panic")
      | some ms =>
        if ms.any (fun m => !m.2.2) then (st, "model-unknown") else
        let (res, store, recs) := runTx app (ms.map fun (k, h, _) =>
          ⟨k, (subDispatch .harness Gen.Router.execTable o me k).sender, h⟩)
        ({ app := some { app with store := store }, log := st.log ++ recs }, showRes res)

/-- what the dispatcher's `reply` is told about a sub-message handled by module `m`: a recording module answers with the
events `message`, `rec` and data naming itself; an accepting one with an empty response; a failure arrives as `Err` -/
def replySeen (app : RouteApp) (k : Kind) (res : Res) : String :=
  match res with
  | .ok _ =>
    match route .harness Gen.Router.execTable k with
    | .call m _ _ _ =>
      match app.comp (fieldOfMod m) with
      | .supplied (.module slot .record tag) => "ok/message+rec/" ++ hex (bytesOfString (slot ++ toString tag))
      | _ => "ok//~"
    | _ => "?"
  | _ => "err"

/-- `send-sub-reply native|lifted KIND H`: one sub-message with reply_on = always; the failure of the module is caught
by the reply (which succeeds), so the transaction succeeds either way; a failed sub-message leaves no storage effect -/
def doSendSubReply (st : RouteState) (app : RouteApp) (rest : List String) : RouteState × String :=
  match rest with
  | [origin, ks, hs] =>
    if origin != "native" && origin != "lifted" then (st, "bad-op") else
    if ks == "wasm" then (st, "bad-op") else
    match parseItems' [ks, hs] with
    | some [(k, h)] =>
      if origin == "lifted" && k == .custom then (st, "bad-op") else
      let me := if origin == "native" then "cn" else "cl"
      let triggerOk : Bool :=
        (match route .harness Gen.Router.execTable .wasm with
         | .call .wasm .execute _ true => true
         | _ => false)
      if !triggerOk then (st, "model-unknown") else
      let lifted : Option (Kind × Bool) :=
        if origin == "native" then some (k, true)
        else match lift .harness Gen.Lift.table k with
          | .msg k' intact => some (k', intact)
          | _ => none
      match lifted with
      | none => (st, "panic")
      | some (k', intact) =>
        if !intact then (st, "model-unknown") else
        let (res, store, recs) := dispatch app Gen.Router.execTable Kind.parts
          ⟨k', (subDispatch .harness Gen.Router.execTable .execute me k').sender, h⟩ app.store
        match res with
        | .panic => ({ st with log := st.log ++ recs }, "panic")
        | .unknown => (st, "model-unknown")
        | _ =>
          let store' := match res with | .ok _ => store | _ => app.store
          let rec' : Record := ⟨"wasm", 8, "reply", "-", replySeen app k' res⟩
          ({ app := some { app with store := store' }, log := st.log ++ recs ++ [rec'] }, "ok")
    | _ => (st, "bad-op")
  | _ => (st, "bad-op")

def knownOps : List String :=
  ["send-top", "send-sub", "send-sub-from", "send-sub-reply", "query", "query-sub", "sudo", "records", "block", "storage-dump", "init-count", "api-prefix", "wasm-gen", "wasm-calls"]

def stepRoute (st : RouteState) (toks : List String) : RouteState × String :=
  match toks with
  | "build" :: steps0 =>
    -- `crate-acc` (only as the last step): the crate's own accepting modules in the ibc, gov and stargate slots
    let crate := steps0.getLast? == some "crate-acc"
    let steps := if crate then steps0.dropLast else steps0
    let extra : List (BStep × Comp) := if crate then
        [(.with_ibc, Comp.module "ibc" .cacc 0), (.with_gov, Comp.module "gov" .cacc 0), (.with_stargate, Comp.module "stargate" .cacc 0)] else []
    match (steps.mapM parseStep).map (· ++ extra) with
    | none => (st, "bad-op")
    | some l =>
      match doBuild l with
      | some app => ({ app := some app, log := [] }, "ok")
      | none => ({ app := none, log := [] }, "model-malformed-build")
  | "wrapper" :: rest => (st, doWrapper rest)
  | op :: args =>
    if !knownOps.contains op then (st, "bad-op") else
    match st.app with
    | none => (st, "no-app")
    | some app =>
      match op, args with
      | "send-top", items =>
        match parseItems' items with
        | none => (st, "bad-op")
        | some l =>
          let (res, store, recs) := runTx app (l.map fun (k, h) => ⟨k, "u1", h⟩)
          ({ app := some { app with store := store }, log := st.log ++ recs }, showRes res)
      | "send-sub", rest => doSendSub st app .execute rest
      | "send-sub-reply", rest => doSendSubReply st app rest
      | "send-sub-from", entry :: rest =>
        match parseOrigin entry with
        | none => (st, "bad-op")
        | some o => doSendSub st app o rest
      | "send-sub-from", [] => (st, "bad-op")
      | "query-sub", origin :: items =>
        -- the contract issues the queries one after the other from inside one `execute`; it ignores the answers,
        -- so the call succeeds whatever the modules say; every query reaches its module (one record each)
        if origin != "native" && origin != "lifted" then (st, "bad-op") else
        match parseItemsRaw items with
        | none => (st, "bad-op")
        | some [] => (st, "bad-op")
        | some raw =>
          match raw.mapM (fun (k, h) => (queryKindOf k).map fun k' => (k', h)) with
          | none => (st, "bad-op")
          | some l =>
            if origin == "lifted" && l.any (fun p => p.1 == .custom) then (st, "bad-op") else
            let triggerOk : Bool :=
              (match route .harness Gen.Router.execTable .wasm with
               | .call .wasm .execute _ true => true
               | _ => false)
            if !triggerOk then (st, "model-unknown") else
            let rs := l.map fun (k, h) => dispatch app Gen.Router.queryTable Kind.parts ⟨k, "-", h⟩ app.store
            let recs := rs.flatMap fun r => r.2.2
            if rs.any (fun r => match r.1 with | .panic => true | _ => false) then ({ st with log := st.log ++ recs }, "panic")
            else if rs.any (fun r => match r.1 with | .unknown => true | _ => false) then (st, "model-unknown")
            else ({ st with log := st.log ++ recs }, "ok")
      | "query-sub", [] => (st, "bad-op")
      | "query", [k, h] =>
        match unhex h with
        | none => (st, "bad-op")
        | some h =>
          match queryKindOf k with
          | none => (st, "bad-op")
          | some k =>
            let (res, _, recs) := dispatch app Gen.Router.queryTable Kind.parts ⟨k, "-", h⟩ app.store
            ({ st with log := st.log ++ recs }, showQueryRes res)
      | "sudo", [k, h] =>
        match unhex h with
        | none => (st, "bad-op")
        | some h =>
          match sudoKindOf k with
          | none => (st, "bad-op")
          | some k =>
            let h := if k == .custom then [] else h
            let (res, store, recs) := dispatch app Gen.Router.sudoTable Kind.parts ⟨k, "-", h⟩ app.store
            match res with
            | .ok _ => ({ app := some { app with store := store }, log := st.log ++ recs }, "ok")
            | r => ({ st with log := st.log ++ recs }, showRes r)
      | "query", _ => (st, "bad-op")
      | "sudo", _ => (st, "bad-op")
      | "records", _ => ({ st with log := [] }, "[" ++ ",".intercalate (st.log.map fmtRecord) ++ "]")
      | "block", _ =>
        match app.comp .block with
        | .supplied (.block n) => (st, s!"{n} {n * 1000000000} mark-{n}")
        | .const _ => (st, "12345 1571797419879305533 cosmos-testnet-14002")
        | _ => (st, "model-unknown")
      | "storage-dump", _ => (st, fmtRecords app.store)
      | "init-count", _ => (st, toString app.inits)
      | "api-prefix", _ =>
        match app.comp .api with
        | .supplied (.api n) => (st, prefixes.getD n "?")
        | .const _ => (st, "cosmwasm")
        | _ => (st, "model-unknown")
      | "wasm-calls", _ => (st, "!")
      | "wasm-gen", _ =>
        match app.comp .wasm with
        | .supplied (.wasm n) => (st, toString n ++ "/" ++ toString n)
        | .const _ => (st, "default/default")
        | _ => (st, "model-unknown")
      | _, _ => (st, "bad-op")
  | [] => (st, "bad-op")

end CwMt.Driver.RouteDrv
