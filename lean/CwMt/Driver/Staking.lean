import CwMt.Model.Staking
import CwMt.Driver.Util
/- Line-protocol front end for the `staking` slice (C14, C15, C16). Addresses are the symbols of the ops file;
`pool` is the staking module account, `bad` is a string that `addr_validate` rejects. -/
namespace CwMt.Driver.Stk
open CwMt CwMt.Driver CwMt.Staking

/-- the model's clock is the App's block time in nanoseconds; the default block starts at 1571797419.879305533 -/
structure StkState where
  c : Chain
  dead : Bool

def StkState.init : StkState := ⟨⟨SState.init, [], 1571797419879305533, 0⟩, false⟩

def stkCfg : Cfg := { pool := "pool", valid := fun a => a ≠ "bad" ∧ a ≠ "pool" }

def OTHER_DENOM : String := "OTHER"

private def strLe (a b : String) : Bool := a < b || a == b

private def pairLe (a b : String × String) : Bool :=
  a.1 < b.1 || (a.1 == b.1 && strLe a.2 b.2)

def fmtList (xs : List String) : String := "[" ++ ",".intercalate xs ++ "]"

def fmtSdump (c : Chain) : String :=
  let s := c.st
  let stakes := (s.stakes.mergeSort fun a b => pairLe a.1 b.1).map fun p =>
    s!"{p.1.1}/{p.1.2}:{p.2.stake.atomics}:{p.2.rewards.atomics}"
  let vinfo := (s.vinfo.mergeSort fun a b => strLe a.1 b.1).map fun p =>
    s!"{p.1}:{p.2.stake}:{p.2.last}:" ++ ";".intercalate (p.2.stakers.mergeSort strLe)
  let queue := s.queue.map fun u => s!"{u.delegator}/{u.validator}:{u.amount}:{u.payoutAt}"
  let wd := (s.withdraw.mergeSort fun a b => strLe a.1 b.1).map fun p => s!"{p.1}>{p.2}"
  let vals := s.validators.map fun v => s!"{v.address}:{v.commission.atomics}"
  s!"info={s.info.bondedDenom}:{s.info.unbondingTime}:{s.info.apr.atomics} vals={fmtList vals} " ++
  s!"stakes={fmtList stakes} vinfo={fmtList vinfo} queue={fmtList queue} wd={fmtList wd} " ++
  s!"t={c.time} h={c.height} pool={Bank.queryBalance c.bank stkCfg.pool s.info.bondedDenom}"

def fmtDeleg : Outcome (Option (Nat × Nat)) → String
  | .ok none => "none"
  | .ok (some (a, r)) => s!"some {a} {r}"
  | .err => "err"
  | _ => "panic"

def fmtObs (c : Chain) (ds vs : List String) : String :=
  let pairs := ds.flatMap fun d => vs.map fun v =>
    let r := match queryDelegation stkCfg c d v with
      | .ok none => "none"
      | .ok (some (a, r)) => s!"{a}:{r}"
      | .err => "err"
      | _ => "panic"
    s!"{d}/{v}={r}"
  let bals := (ds ++ ["pool"]).map fun d => s!"{d}={Bank.queryBalance c.bank d c.st.info.bondedDenom}"
  " ".intercalate pairs ++ " | " ++ " ".intercalate bals

def runOp (st : StkState) (op : Op) : StkState × String :=
  match step stkCfg st.c op with
  | (c, .ok) => ({ st with c := c }, "ok")
  | (c, .err) => ({ st with c := c }, "err")
  | (c, .panic) => ({ st with c := c, dead := true }, "panic")

def coinOf (c : Chain) (amount : Nat) (denom : Option String) : Coin :=
  ⟨denom.getD c.st.info.bondedDenom, amount⟩

def stepStaking' (st : StkState) (toks : List String) : StkState × String :=
  let c := st.c
  match toks with
  | ["setup", denom, unb, apr] =>
    match unb.toNat?, apr.toNat? with
    | some u, some a => ({ st with c := setup c ⟨denom, u, ⟨a⟩⟩ }, "ok")
    | _, _ => (st, "bad-op")
  | ["validator", v, comm] =>
    match comm.toNat? with
    | some cm =>
      match addValidator c ⟨v, ⟨cm⟩⟩ with
      | .ok c' => ({ st with c := c' }, "ok")
      | _ => (st, "err")
    | none => (st, "bad-op")
  | ["fund", a, n] | ["fund2", a, n] =>
    match n.toNat? with
    | some n =>
      let denom := if toks.head? = some "fund" then c.st.info.bondedDenom else OTHER_DENOM
      if ¬ stkCfg.valid a then (st, "err") else
      match Bank.mint c.bank a [⟨denom, n⟩] with
      | some b => ({ st with c := { c with bank := b } }, "ok")
      | none => (st, "err")
    | none => (st, "bad-op")
  | "deleg" :: a :: v :: n :: rest =>
    match n.toNat? with
    | some n => runOp st (.delegate a v (coinOf c n rest.head?))
    | none => (st, "bad-op")
  | "undeleg" :: a :: v :: n :: rest =>
    match n.toNat? with
    | some n => runOp st (.undelegate a v (coinOf c n rest.head?))
    | none => (st, "bad-op")
  | "redeleg" :: a :: v1 :: v2 :: n :: rest =>
    match n.toNat? with
    | some n => runOp st (.redelegate a v1 v2 (coinOf c n rest.head?))
    | none => (st, "bad-op")
  | ["withdraw", a, v] => runOp st (.withdraw a v)
  | ["setwd", a, b] => runOp st (.setWithdraw a b)
  -- a message followed, in one execute_multi, by a transfer that cannot succeed: the transaction fails as a whole
  | "rb" :: _ => (st, "err")
  | ["slash-direct", v, p] =>      -- the module's sudo entry point called directly: the same operation
    match p.toNat? with
    | some p => runOp st (.slash v ⟨p⟩)
    | none => (st, "bad-op")
  | ["slash", v, p] =>
    match p.toNat? with
    | some p => runOp st (.slash v ⟨p⟩)
    | none => (st, "bad-op")
  | ["advance", n] =>
    match n.toNat? with
    | some n => runOp st (.advance (n * NS))
    | none => (st, "bad-op")
  | ["advance", n, _mode] =>
    match n.toNat? with
    | some n => runOp st (.advance (n * NS))
    | none => (st, "bad-op")
  | ["advance", n, _mode, ns] =>
    match n.toNat?, ns.toNat? with
    | some n, some ns => if ns ≥ NS then (st, "bad-op") else runOp st (.advance (n * NS + ns))
    | _, _ => (st, "bad-op")
  | ["q-deleg", a, v] => (st, fmtDeleg (queryDelegation stkCfg c a v))
  | ["q-all", a] =>
    match queryAllDelegations stkCfg c a with
    | .ok l => (st, fmtList (l.map fun p => s!"{p.1}:{p.2}"))
    | .err => (st, "err")
    | _ => (st, "panic")
  | ["bal", a] => (st, toString (Bank.queryBalance c.bank a c.st.info.bondedDenom))
  | ["obs", ds, vs] => (st, fmtObs c (ds.splitOn ",") (vs.splitOn ","))
  | ["sdump"] => (st, fmtSdump c)
  | ["dec", f, a, b] =>
    match a.toNat?, b.toNat? with
    | some a, some b =>
      let r : Option Nat :=
        if f == "mul" then some (Dec.mul ⟨a⟩ ⟨b⟩).atomics
        else if f == "div" then (if b = 0 then none else some (Dec.div ⟨a⟩ ⟨b⟩).atomics)
        else if f == "divn" then (if b = 0 then none else some (Dec.divNat ⟨a⟩ b).atomics)
        else if f == "mulfloor" then some (Dec.mulFloor a ⟨b⟩)
        else if f == "ratio" then some (Dec.ofNat a).atomics
        else if f == "floor" then some (Dec.floor ⟨a⟩)
        else if f == "add" then some (Dec.add ⟨a⟩ ⟨b⟩).atomics
        else if f == "sub" then (if a < b then none else some (Dec.sub ⟨a⟩ ⟨b⟩).atomics)
        else some 0
      (st, match r with | some x => toString x | none => "panic")
    | _, _ => (st, "bad-op")
  | _ => (st, "bad-op")

/-- a panicking call (also inside a query) ends the case: the harness stops using that `App` -/
def stepOne (st : StkState) (toks : List String) : StkState × String :=
  if st.dead then (st, "dead") else
  if toks == ["rawhash"] then (st, "!") else     -- implementation-only observation (hash of the raw storage)
  let r := stepStaking' st toks
  if toks.head? != some "dec" && (r.2 == "panic" || (r.2.splitOn "=panic").length > 1) then
    ({ r.1 with dead := true }, "panic")
  else r

/-- several independent `App` instances (slice `staking-det`); `app <n>` switches, a new name starts a fresh instance;
ops before any `app` line go to instance `1` -/
structure StkApps where
  apps : List (String × StkState) := []
  cur : String := "1"

def StkApps.get (a : StkApps) : StkState := (a.apps.lookup a.cur).getD StkState.init

def StkApps.put (a : StkApps) (st : StkState) : StkApps :=
  { a with apps := (a.cur, st) :: a.apps.filter (fun p => p.1 != a.cur) }

def stepStaking (a : StkApps) (toks : List String) : StkApps × String :=
  match toks with
  | ["app", n] => ({ a with cur := n }, "ok")
  | _ =>
    let r := stepOne a.get toks
    (a.put r.1, r.2)

end CwMt.Driver.Stk
