import CwMt.Model.Overlay
import CwMt.Model.Prefix
import CwMt.Driver.Util
/- Line-protocol front end for the `kv` engine (slices `overlay` and `views`). -/
namespace CwMt.Driver
open CwMt

-- ---------------------------------------------------------------------------------------------
-- overlay slice: the state is the stack; `push/commit/discard` change its depth

def fmtList (xs : List (List UInt8)) : String := "[" ++ ",".intercalate (xs.map hex) ++ "]"

def baseOf : Stack → Option Stack
  | .root _ => none
  | .layer b _ => some b

def stepOverlay (st : Stack) (toks : List String) : Stack × String :=
  match toks with
  | ["push"] => (st.push, "ok")
  | ["commit"] => if st.depth = 0 then (st, "bad-op") else (st.commit, "ok")
  | ["discard"] => if st.depth = 0 then (st, "bad-op") else (st.discard, "ok")
  | ["get", k] =>
    match unhex k with
    | some k => (st, match st.get k with | some v => "some " ++ hex v | none => "none")
    | none => (st, "bad-op")
  | ["set", k, v] =>
    match unhex k, unhex v with
    | some k, some v => (st.set k v, "ok")
    | _, _ => (st, "bad-op")
  | ["remove", k] =>
    match unhex k with
    | some k => (st.remove k, "ok")
    | none => (st, "bad-op")
  | ["range", s, e, o] =>
    match unhexOpt s, unhexOpt e, parseOrder o with
    | some s, some e, some o => (st, fmtRecords (st.range s e o))
    | _, _, _ => (st, "bad-op")
  | ["range", s, e, o, n] =>      -- the first n records passed over (`Iterator::nth`), the rest collected
    match unhexOpt s, unhexOpt e, parseOrder o with
    | some s, some e, some o => (st, fmtRecords ((st.range s e o).drop (n.toNat?.getD 0)))
    | _, _, _ => (st, "bad-op")
  | ["keys", s, e, o] =>
    match unhexOpt s, unhexOpt e, parseOrder o with
    | some s, some e, some o => (st, fmtList ((st.range s e o).map (·.1)))
    | _, _, _ => (st, "bad-op")
  | ["values", s, e, o] =>
    match unhexOpt s, unhexOpt e, parseOrder o with
    | some s, some e, some o => (st, fmtList ((st.range s e o).map (·.2)))
    | _, _, _ => (st, "bad-op")
  | ["base-range", s, e, o] =>
    match baseOf st, unhexOpt s, unhexOpt e, parseOrder o with
    | some b, some s, some e, some o => (st, fmtRecords (b.range s e o))
    | _, _, _, _ => (st, "bad-op")
  | ["dump-root"] => (st, fmtRecords (st.rootStore.range none none .asc))
  | _ => (st, "bad-op")

-- ---------------------------------------------------------------------------------------------
-- views slice: the state is the raw root store of the App

inductive PathTok where
  | single (ns : List UInt8)
  | multi (segs : List (List UInt8))

def parsePath (tok : String) : Option PathTok :=
  match tok.splitOn ":" with
  | ["s", h] => (unhex h).map .single
  | ["m", rest] =>
    if rest == "." then some (.multi [])
    else ((rest.splitOn "/").mapM unhex).map .multi
  | _ => none

def pathPrefix : PathTok → Outcome Key
  | .single ns => toLP ns
  | .multi segs => toLPNested segs

/-- one sub-operation of `vseq` on the view with prefix `pfx` -/
def stepViewSub (m : Store Val) (pfx : Key) (sub : String) : Store Val × String :=
  match sub.splitOn ":" with
  | ["g", k] =>
    match unhex k with
    | some k => (m, match View.get m pfx k with | some v => "some " ++ hex v | none => "none")
    | none => (m, "bad-op")
  | ["s", k, v] =>
    match unhex k, unhex v with
    | some k, some v => (View.set m pfx k v, "ok")
    | _, _ => (m, "bad-op")
  | ["r", k] =>
    match unhex k with
    | some k => (View.remove m pfx k, "ok")
    | none => (m, "bad-op")
  | [kind, s, e, o] =>
    match unhexOpt s, unhexOpt e, parseOrder o with
    | some s, some e, some o =>
      let r := View.range m pfx s e o
      if kind == "R" then (m, fmtRecords r)
      else if kind == "K" then (m, fmtList (r.map (·.1)))
      else if kind == "V" then (m, fmtList (r.map (·.2)))
      else (m, "bad-op")
    | _, _, _ => (m, "bad-op")
  | _ => (m, "bad-op")

def stepViewSubs (m : Store Val) (pfx : Key) : List String → Store Val × List String
  | [] => (m, [])
  | sub :: rest =>
    let (m1, o) := stepViewSub m pfx sub
    let (m2, os) := stepViewSubs m1 pfx rest
    (m2, o :: os)

def stepViews (m : Store Val) (toks : List String) : Store Val × String :=
  match toks with
  | "vseq" :: p :: rw :: subs =>
    match parsePath p with
    | some p =>
      match pathPrefix p with
      | .ok pfx =>
        if rw == "rw" then
          let (m1, outs) := stepViewSubs m pfx subs
          (m1, "|".intercalate outs)
        else (m, "panic")
      | _ => (m, "panic")
    | none => (m, "bad-op")
  | ["base-set", k, v] =>
    match unhex k, unhex v with
    | some k, some v => (m.set k v, "ok")
    | _, _ => (m, "bad-op")
  | ["base-remove", k] =>
    match unhex k with
    | some k => (m.remove k, "ok")
    | none => (m, "bad-op")
  | ["dump-root"] => (m, fmtRecords (m.range none none .asc))
  | ["vget", p, _rw, k] =>
    match parsePath p, unhex k with
    | some p, some k =>
      match pathPrefix p with
      | .ok pfx => (m, match View.get m pfx k with | some v => "some " ++ hex v | none => "none")
      | _ => (m, "panic")
    | _, _ => (m, "bad-op")
  | ["vset", p, rw, k, v] =>
    match parsePath p, unhex k, unhex v with
    | some p, some k, some v =>
      match pathPrefix p with
      | .ok pfx => if rw == "rw" then (View.set m pfx k v, "ok") else (m, "panic")
      | _ => (m, "panic")
    | _, _, _ => (m, "bad-op")
  | ["vremove", p, rw, k] =>
    match parsePath p, unhex k with
    | some p, some k =>
      match pathPrefix p with
      | .ok pfx => if rw == "rw" then (View.remove m pfx k, "ok") else (m, "panic")
      | _ => (m, "panic")
    | _, _ => (m, "bad-op")
  | ["vkeys", p, _rw, s, e, o] =>
    match parsePath p, unhexOpt s, unhexOpt e, parseOrder o with
    | some p, some s, some e, some o =>
      match pathPrefix p with
      | .ok pfx => (m, fmtList ((View.range m pfx s e o).map (·.1)))
      | _ => (m, "panic")
    | _, _, _, _ => (m, "bad-op")
  | ["vvalues", p, _rw, s, e, o] =>
    match parsePath p, unhexOpt s, unhexOpt e, parseOrder o with
    | some p, some s, some e, some o =>
      match pathPrefix p with
      | .ok pfx => (m, fmtList ((View.range m pfx s e o).map (·.2)))
      | _ => (m, "panic")
    | _, _, _, _ => (m, "bad-op")
  | ["vrange", p, _rw, s, e, o, n] =>
    match parsePath p, unhexOpt s, unhexOpt e, parseOrder o with
    | some p, some s, some e, some o =>
      match pathPrefix p with
      | .ok pfx => (m, fmtRecords ((View.range m pfx s e o).drop (n.toNat?.getD 0)))
      | _ => (m, "panic")
    | _, _, _, _ => (m, "bad-op")
  | ["vrange", p, _rw, s, e, o] =>
    match parsePath p, unhexOpt s, unhexOpt e, parseOrder o with
    | some p, some s, some e, some o =>
      match pathPrefix p with
      | .ok pfx => (m, fmtRecords (View.range m pfx s e o))
      | _ => (m, "panic")
    | _, _, _, _ => (m, "bad-op")
  | _ => (m, "bad-op")

end CwMt.Driver
