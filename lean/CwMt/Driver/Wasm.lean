import CwMt.Model.Registry
import CwMt.Model.Executor
import CwMt.Model.Address
import CwMt.Model.Staking
import CwMt.Model.Flat
import CwMt.Driver.Util
/-
  Line-protocol front end of the `wasm` slice: s-expressions, the scripted contract (the Lean twin
  of /verif/harness/src/wasm.rs `Scripted`), and the ops. Nothing here is used by a theorem.
-/
namespace CwMt.Driver
open CwMt

-- ---------------------------------------------------------------------------------------------
-- s-expressions

inductive Sx where
  | a (s : String)
  | l (xs : List Sx)
  deriving Inhabited, Repr

partial def Sx.print : Sx → String
  | .a s => s
  | .l xs => "(" ++ " ".intercalate (xs.map Sx.print) ++ ")"

def Sx.atom : Sx → String
  | .a s => s
  | .l _ => ""

def Sx.list : Sx → List Sx
  | .l xs => xs
  | .a _ => []

/-- parses all top-level items; `none` on unbalanced parentheses -/
def parseSx (text : String) : Option (List Sx) :=
  let flush (cur : List Char) (stack : List (List Sx)) : List (List Sx) :=
    if cur.isEmpty then stack else
    match stack with
    | top :: rest => (Sx.a (String.ofList cur.reverse) :: top) :: rest
    | [] => []
  let rec go (cs : List Char) (cur : List Char) (stack : List (List Sx)) : Option (List Sx) :=
    match cs with
    | [] =>
      match flush cur stack with
      | [top] => some top.reverse
      | _ => none
    | c :: rest =>
      if c == '(' then go rest [] ([] :: flush cur stack)
      else if c == ')' then
        match flush cur stack with
        | top :: parent :: more => go rest [] ((Sx.l top.reverse :: parent) :: more)
        | _ => none
      else if c == ' ' || c == '\t' || c == '\n' || c == '\r' then go rest [] (flush cur stack)
      else go rest (c :: cur) stack
  go text.toList [] [[]]

-- ---------------------------------------------------------------------------------------------
-- driver-side extension state: the symbol table and the code tags

structure DExt where
  syms : List (String × String) := []
  tags : List (Nat × String) := []
  /-- state of the staking + distribution modules (CwMt/Model/Staking.lean) -/
  stk : Staking.SState := Staking.SState.init
  /-- `StakeKeeper::setup` was called (the `staking_info` record exists) -/
  stkOn : Bool := false
  deriving Inhabited

abbrev DChain := Chain DExt

def realOf (syms : List (String × String)) (sym : String) : String :=
  if sym == "%empty" then "" else   -- the account whose address is the empty string (`Addr::unchecked("")`)
  (syms.lookup sym).getD sym

def isBound (syms : List (String × String)) (s : String) : Bool := syms.any (·.2 == s)

-- ---------------------------------------------------------------------------------------------
-- formatting

def parseCoins (tok : String) : Option Coins :=
  if tok == "-" then some [] else
  (tok.splitOn ",").mapM fun c =>
    match c.splitOn ":" with
    | [a, d] => a.toNat?.map fun n => { denom := d, amount := n }
    | _ => none

def fmtCoins (cs : Coins) : String :=
  if cs.isEmpty then "-" else ",".intercalate (cs.map fun c => toString c.amount ++ ":" ++ c.denom)

def fmtEvents (evs : List Event) : String :=
  "[" ++ ",".intercalate (evs.map fun e =>
    penc e.ty ++ "{" ++ ";".intercalate (e.attrs.map fun a => penc a.key ++ "=" ++ penc a.value) ++ "}") ++ "]"

def fmtData : Option Val → String
  | none => "~"
  | some d => hex d

def fmtResp (r : AppResponse) : String := fmtEvents r.events ++ " " ++ fmtData r.data

def fmtInfo (cd : ContractData) : String :=
  toString cd.codeId ++ "," ++ cd.creator ++ "," ++ (cd.admin.getD "~")

def strBytes (s : String) : Val := s.toUTF8.toList

def bytesStr (v : Val) : String := (String.fromUTF8? (ByteArray.mk v.toArray)).getD ""

/-- scripts travel as JSON strings -/
def jsonStr (text : String) : Val := strBytes ("\"" ++ text ++ "\"")

def unquote (s : String) : String :=
  let cs := s.toList
  if cs.length ≥ 2 && cs.head? == some '"' && cs.getLast? == some '"' then
    String.ofList ((cs.drop 1).dropLast)
  else s

-- ---------------------------------------------------------------------------------------------
-- messages

def parseReplyOn (tok : String) : ReplyOn :=
  if tok == "always" then .always else if tok == "error" then .error
  else if tok == "success" then .success else .never

def parseExtKind (tok : String) : Option ExtKind :=
  match tok with
  | "custom" => some .custom
  | "ibc" => some .ibc
  | "gov" => some .gov
  | "stargate" => some .stargate
  | "any" => some .any
  | "staking" => some .staking
  | "distribution" => some .distribution
  | _ => none

def toMsg (syms : List (String × String)) (m : Sx) : Option Msg :=
  let l := m.list
  let nth (i : Nat) : Option Sx := l[i]?
  let real (s : String) := realOf syms s
  match (nth 0).map Sx.atom with
  | some "exec" => do
    let c ← nth 1; let s ← nth 2; let f ← nth 3
    let funds ← parseCoins f.atom
    pure (.wasmExecute (real c.atom) (jsonStr s.print) funds)
  | some "inst" => do
    let n ← nth 1; let s ← nth 2; let f ← nth 3; let lb ← nth 4; let ad ← nth 5; let sl ← nth 6
    let code ← n.atom.toNat?
    let funds ← parseCoins f.atom
    let label ← pdec lb.atom
    let admin := if ad.atom == "~" then none else some (real ad.atom)
    let salt ← if sl.atom == "~" then some none else (unhex sl.atom).map some
    pure (.wasmInstantiate admin code (jsonStr s.print) funds label salt)
  | some "mig" => do
    let c ← nth 1; let n ← nth 2; let s ← nth 3
    let code ← n.atom.toNat?
    pure (.wasmMigrate (real c.atom) code (if s.print == "~" then [] else jsonStr s.print))   -- `~`: a zero-length message
  | some "upd" => do
    let c ← nth 1; let a ← nth 2
    pure (.wasmUpdateAdmin (real c.atom) (real a.atom))
  | some "clr" => do
    let c ← nth 1
    pure (.wasmClearAdmin (real c.atom))
  | some "deleg" => do
    let v ← nth 1; let c ← nth 2
    pure (.ext .staking (strBytes ("deleg " ++ v.atom ++ " " ++ c.atom)))
  | some "undeleg" => do
    let v ← nth 1; let c ← nth 2
    pure (.ext .staking (strBytes ("undeleg " ++ v.atom ++ " " ++ c.atom)))
  | some "redeleg" => do
    let v ← nth 1; let w ← nth 2; let c ← nth 3
    pure (.ext .staking (strBytes ("redeleg " ++ v.atom ++ " " ++ w.atom ++ " " ++ c.atom)))
  | some "withdraw" => do
    let v ← nth 1
    pure (.ext .distribution (strBytes ("withdraw " ++ v.atom)))
  | some "setwd" => do
    let a ← nth 1
    pure (.ext .distribution (strBytes ("setwd " ++ real a.atom)))
  | some "send" => do
    let t ← nth 1; let f ← nth 2
    let funds ← parseCoins f.atom
    pure (.bankSend (real t.atom) funds)
  | some "burn" => do
    let f ← nth 1
    let funds ← parseCoins f.atom
    pure (.bankBurn funds)
  | some "ext" => do
    let k ← nth 1; let p ← nth 2
    let kind ← parseExtKind k.atom
    let payload ← unhex p.atom
    pure (.ext kind payload)
  | _ => none

-- ---------------------------------------------------------------------------------------------
-- staking / distribution as router modules (the model of CwMt/Model/Staking.lean behind `extExec`)

def stkCfgOf (syms : List (String × String)) : Staking.Cfg :=
  { pool := "staking_module", valid := fun a => isBound syms a }

def stkChainOf (ch : DChain) (blk : Block) : Staking.Chain :=
  { st := ch.ext.stk, bank := ch.bank, time := blk.time, height := blk.height }

def stkBack (ch : DChain) (sc : Staking.Chain) : DChain :=
  { ch with bank := sc.bank, ext := { ch.ext with stk := sc.st } }

def oneCoin (tok : String) : Option Coin := (parseCoins tok).bind List.head?

def coinStr (c : Coin) : String := toString c.amount ++ c.denom

def stkResult (ch : DChain) (r : Outcome Staking.Chain) (ev : Event) : Outcome (AppResponse × DChain) :=
  match r with
  | .ok sc => .ok ({ events := [ev], data := none }, stkBack ch sc)
  | .err => .err
  | .panic => .panic
  | .outOfFuel => .outOfFuel

/-- `StakeKeeper::execute` / `DistributionKeeper::execute` with their events -/
def stkExec (ch : DChain) (blk : Block) (sender : Addr) (payload : Val) : Outcome (AppResponse × DChain) :=
  let cfg := stkCfgOf ch.ext.syms
  let sc := stkChainOf ch blk
  match tokens (bytesStr payload) with
  | ["deleg", v, c] =>
    match oneCoin c with
    | some coin =>
      stkResult ch (Staking.delegate cfg sc sender v coin)
        { ty := "delegate", attrs := [⟨"validator", v⟩, ⟨"amount", coinStr coin⟩, ⟨"new_shares", toString coin.amount⟩] }
    | none => .err
  | ["undeleg", v, c] =>
    match oneCoin c with
    | some coin =>
      stkResult ch (Staking.undelegate sc sender v coin)
        { ty := "unbond", attrs := [⟨"validator", v⟩, ⟨"amount", coinStr coin⟩,
                                     ⟨"completion_time", "2022-09-27T14:00:00+00:00"⟩] }
    | none => .err
  | ["redeleg", v, w, c] =>
    match oneCoin c with
    | some coin =>
      stkResult ch (Staking.redelegate sc sender v w coin)
        { ty := "redelegate", attrs := [⟨"source_validator", v⟩, ⟨"destination_validator", w⟩, ⟨"amount", coinStr coin⟩] }
    | none => .err
  | ["withdraw", v] =>
    let rw := match Staking.updateRewards sc.st sc.time v with
      | .ok st => ((Staking.KMap.get? st.stakes (sender, v)).map (fun (sh : Staking.Shares) => sh.rewards.floor)).getD 0
      | _ => 0
    stkResult ch (Staking.withdrawRewards cfg sc sender v)
      { ty := "withdraw_delegator_reward", attrs := [⟨"validator", v⟩, ⟨"sender", sender⟩,
                                                       ⟨"amount", toString rw ++ sc.st.info.bondedDenom⟩] }
  | ["setwd", a] =>
    stkResult ch (Staking.setWithdraw cfg sc sender a)
      { ty := "set_withdraw_address", attrs := [⟨"withdraw_address", a⟩] }
  | _ => .err

/-- `StakingSudo::Slash` -/
def stkSudo (ch : DChain) (blk : Block) (payload : Val) : Outcome (AppResponse × DChain) :=
  match tokens (bytesStr payload) with
  | ["slash", v, p] =>
    match p.toNat? with
    | some n =>
      match Staking.sudoSlash (stkChainOf ch blk) v ⟨n⟩ with
      | .ok sc => .ok ({}, stkBack ch sc)
      | .err => .err
      | .panic => .panic
      | .outOfFuel => .outOfFuel
    | none => .err
  | _ => .err

def fmtDelegation (denom : String) : Outcome (Option (Nat × Nat)) → String
  | .ok none => "none"
  | .ok (some (a, r)) => toString a ++ ":" ++ (if r = 0 then "-" else toString r ++ ":" ++ denom)
  | .err => "err"
  | _ => "panic"

def fmtAllDelegations (sep : String) (r : Outcome (List (String × Nat))) : String :=
  match r with
  | .ok ds => sep.intercalate (ds.map fun p => p.1 ++ ":" ++ toString p.2)
  | .err => "err"
  | _ => "panic"

def strSort (xs : List String) : List String := xs.mergeSort (fun a b => a < b || a == b)

def fmtStk (ext : DExt) : String :=
  let s := ext.stk
  if !ext.stkOn && s.validators.isEmpty && s.stakes.isEmpty && s.vinfo.isEmpty && s.queue.isEmpty && s.withdraw.isEmpty then ""
  else
    let stakes := strSort (s.stakes.map fun p => p.1.1 ++ "/" ++ p.1.2 ++ ":" ++ toString p.2.stake.atomics ++ ":" ++ toString p.2.rewards.atomics)
    let vinfo := strSort (s.vinfo.map fun p => p.1 ++ ":" ++ toString p.2.stake ++ ":" ++ toString p.2.last ++ ":" ++ "+".intercalate (strSort p.2.stakers))
    let queue := s.queue.map fun u => u.delegator ++ "/" ++ u.validator ++ ":" ++ toString u.amount ++ ":" ++ toString u.payoutAt
    let wd := strSort (s.withdraw.map fun p => p.1 ++ ">" ++ p.2)
    let vals := s.validators.map fun v => v.address ++ ":" ++ toString v.commission.atomics
    " stk{info=" ++ s.info.bondedDenom ++ ":" ++ toString s.info.unbondingTime ++ ":" ++ toString s.info.apr.atomics ++
      ";vals=" ++ ",".intercalate vals ++ ";stakes=" ++ ",".intercalate stakes ++ ";vinfo=" ++ ",".intercalate vinfo ++
      ";queue=" ++ ",".intercalate queue ++ ";wd=" ++ ",".intercalate wd ++ "}"

-- ---------------------------------------------------------------------------------------------
-- the scripted contract

mutual

/-- smart query evaluated on the snapshot: the target's `query` entry point interprets the script
read-only and answers `"<tag>:<notes>"` -/
partial def smartQuery (now : Nat) (ch : DChain) (target : String) (script : List Sx) : Option String :=
  if !isBound ch.ext.syms target then none else
  match ch.contracts.get? target with
  | none => none
  | some cd =>
    if cd.codeId < 1 then none else
    match ch.ext.tags.lookup cd.codeId with
    | none => none
    | some tag =>
      match interp now ch true script ((ch.cstore.get? target).getD []) {} [] with
      | (.ok _, notes) => some (tag ++ ":" ++ ";".intercalate notes)
      | _ => none

/-- runs the actions; returns the outcome and the notes (recorded also on failure) -/
partial def interp (now : Nat) (ch : DChain) (ro : Bool) (acts : List Sx) (own : Store Val) (resp : Response)
    (notes : List String) : Outcome (Response × Store Val) × List String :=
  match acts with
  | [] => (.ok (resp, own), notes)
  | act :: rest =>
    let l := act.list
    let a (i : Nat) : String := (l[i]?.map Sx.atom).getD ""
    let real (s : String) := realOf ch.ext.syms s
    let valid (s : String) := isBound ch.ext.syms s
    let next := fun (own' : Store Val) (resp' : Response) (notes' : List String) =>
      interp now ch ro rest own' resp' notes'
    match a 0 with
    | "w" =>
      if ro then (.err, notes) else
      match unhex (a 1), unhex (a 2) with
      | some k, some v => next (own.set k v) resp notes
      | _, _ => (.err, notes)
    | "rm" =>
      if ro then (.err, notes) else
      match unhex (a 1) with
      | some k => next (own.remove k) resp notes
      | none => (.err, notes)
    | "rd" =>
      match unhex (a 1) with
      | some k => next own resp (notes ++ ["rd=" ++ (match own.get k with | some v => hex v | none => "none")])
      | none => (.err, notes)
    | "rng" =>
      match unhexOpt (a 1), unhexOpt (a 2) with
      | some s, some e =>
        let o := if a 3 == "desc" then Order.desc else Order.asc
        next own resp (notes ++ ["rng=" ++ fmtRecords (own.range s e o)])
      | _, _ => (.err, notes)
    | "rngk" =>
      match unhexOpt (a 1), unhexOpt (a 2) with
      | some s, some e =>
        let o := if a 3 == "desc" then Order.desc else Order.asc
        next own resp (notes ++ ["rngk=[" ++ ",".intercalate ((own.range s e o).map fun p => hex p.1) ++ "]"])
      | _, _ => (.err, notes)
    | "rngv" =>
      match unhexOpt (a 1), unhexOpt (a 2) with
      | some s, some e =>
        let o := if a 3 == "desc" then Order.desc else Order.asc
        next own resp (notes ++ ["rngv=[" ++ ",".intercalate ((own.range s e o).map fun p => hex p.2) ++ "]"])
      | _, _ => (.err, notes)
    | "attr" =>
      match pdec (a 1), pdec (a 2) with
      | some k, some v => next own { resp with attrs := resp.attrs ++ [⟨k, v⟩] } notes
      | _, _ => (.err, notes)
    | "ev" =>
      match pdec (a 1) with
      | some ty =>
        let attrs := (l.drop 2).filterMap fun kv =>
          match kv.list with
          | [k, v] => match pdec k.atom, pdec v.atom with
            | some k, some v => some (Attr.mk k v)
            | _, _ => none
          | _ => none
        next own { resp with events := resp.events ++ [{ ty := ty, attrs := attrs }] } notes
      | none => (.err, notes)
    | "data" =>
      match unhex (a 1) with
      | some d => next own { resp with data := some d } notes
      | none => (.err, notes)
    | "qbal" =>
      let r := real (a 1)
      next own resp (notes ++ [if valid r then "qbal=" ++ toString (Bank.queryBalance ch.bank r (a 2)) else "qbal=err"])
    | "qall" =>
      let r := real (a 1)
      next own resp (notes ++ [if valid r then "qall=" ++ fmtCoins (Bank.balance ch.bank r) else "qall=err"])
    | "qsup" => next own resp (notes ++ ["qsup=" ++ toString (Bank.supply ch.bank (a 1))])
    | "qraw" =>
      let r := real (a 1)
      match unhex (a 2) with
      | some k =>
        next own resp (notes ++ [if valid r then "qraw=" ++ hex ((((ch.cstore.get? r).getD []).get k).getD []) else "qraw=err"])
      | none => (.err, notes)
    | "qsmart" =>
      let r := real (a 1)
      let script := (l[2]?.map Sx.list).getD []
      next own resp (notes ++ [match smartQuery now ch r script with
        | some s => "qsmart=" ++ penc s
        | none => "qsmart=err"])
    | "qinfo" =>
      let r := real (a 1)
      next own resp (notes ++ [match (if valid r then ch.contracts.get? r else none) with
        | some cd => "qinfo=" ++ fmtInfo cd
        | none => "qinfo=err"])
    | "qcode" =>
      -- the code registry is not part of the chain snapshot; the driver keeps creator/checksum notes in `tags`
      next own resp (notes ++ [match (a 1).toNat?.bind (fun n => ch.ext.tags.lookup (n + 1000000)) with
        | some s => "qcode=" ++ s
        | none => "qcode=err"])
    | "qdeleg" =>
      let sc : Staking.Chain := { st := ch.ext.stk, bank := ch.bank, time := now, height := 0 }
      next own resp (notes ++ ["qdeleg=" ++ fmtDelegation ch.ext.stk.info.bondedDenom
        (Staking.queryDelegation (stkCfgOf ch.ext.syms) sc (real (a 1)) (a 2))])
    | "qalldeleg" =>
      let sc : Staking.Chain := { st := ch.ext.stk, bank := ch.bank, time := 0, height := 0 }
      next own resp (notes ++ ["qalldeleg=" ++ fmtAllDelegations "," (Staking.queryAllDelegations (stkCfgOf ch.ext.syms) sc (real (a 1)))])
    | "qbonded" => next own resp (notes ++ ["qbonded=" ++ ch.ext.stk.info.bondedDenom])
    | "sub" =>
      match (a 1).toNat?, l[3]?, (l[4]?).bind (toMsg ch.ext.syms) with
      | some id, some payload, some m =>
        next own { resp with msgs := resp.msgs ++ [{ id := id, msg := m, replyOn := parseReplyOn (a 2),
                                                       payload := strBytes payload.print }] } notes
      | none, some payload, some m =>
        next own { resp with msgs := resp.msgs ++ [{ id := 0, msg := m, replyOn := parseReplyOn (a 2),
                                                       payload := strBytes payload.print }] } notes
      | _, _, _ => (.err, notes)
    | "msg" =>
      match (l[1]?).bind (toMsg ch.ext.syms) with
      | some m => next own { resp with msgs := resp.msgs ++ [{ id := 0, msg := m, replyOn := .never, payload := [] }] } notes
      | none => (.err, notes)
    | _ => (.err, notes)

end

def scriptOf (text : String) : Option (List Sx) :=
  match parseSx text with
  | some (s :: _) => some s.list
  | _ => none

def fnv (text : String) : UInt32 :=
  text.toUTF8.toList.foldl (fun h b => (h ^^^ b.toUInt32) * 0x01000193) 0x811c9dc5

def hex32 (n : UInt32) : String :=
  String.ofList ((List.range 8).reverse.map fun i => hexDigit ((n.toNat / 16 ^ i) % 16))

def replyExtra (r : Reply) : String :=
  "reply:" ++ toString r.id ++ ":" ++
    (match r.result with
     | .ok evs d => "ok:" ++ fmtData d ++ ":" ++ fmtEvents evs
     | .err => "err") ++ "~g0"

/-- the code stored by `store TAG` -/
def scripted (tag : String) : Code DExt where
  run := fun en _env ch own =>
    let text := match en with
      | .execute _ m | .instantiate _ m | .sudo m | .migrate m => unquote (bytesStr m)
      | .reply r => bytesStr r.payload
    match scriptOf text with
    | some acts =>
      let (res, notes) := interp _env.block.time ch false acts own {} []
      (res, tag ++ "|" ++ hex32 (fnv text) ++ "|" ++ ";".intercalate notes)
    | none => (.err, tag ++ "|" ++ hex32 (fnv text) ++ "|unparsed")
  query := fun m _env ch own =>
    match scriptOf (unquote (bytesStr m)) with
    | some acts =>
      match interp _env.block.time ch true acts own {} [] with
      | (.ok _, notes) => .ok (strBytes ("\"" ++ tag ++ ":" ++ ";".intercalate notes ++ "\""))
      | _ => .err
    | none => .err

/-- the same behaviour packaged through `ContractWrapper::new_with_empty`: lifting is the identity on
every message kind except `Custom`, which the wrapper cannot lift (`unreachable!()`, a panic) -/
def emptyMsg : Entry → Bool
  | .execute _ m | .instantiate _ m | .sudo m | .migrate m => m.isEmpty
  | .reply _ => false

def scriptedWrapped : Code DExt where
  run := fun en env ch own =>
    -- a zero-length message is not JSON: the wrapper fails to deserialise it before the contract's function is entered
    if emptyMsg en then (.err, "!noentry") else
    match (scripted "W").run en env ch own with
    | (.ok (resp, own'), note) =>
      if resp.msgs.any (fun sm => match sm.msg with | .ext .custom _ => true | _ => false) then (.panic, note)
      else (.ok (resp, own'), note)
    | other => other
  query := (scripted "W").query

/-- the same behaviour packaged WITHOUT the optional entry points (`ContractWrapper::new_with_empty(exec, inst, query)`):
`reply`, `sudo` and `migrate` are errors raised by the wrapper before any contract code runs — the scripted contract is not
entered, so nothing is put on the out-of-band trace (note `!noentry`, dropped by `addTrace`) -/
def scriptedBare : Code DExt where
  run := fun en env ch own =>
    match en with
    | .reply _ => (.err, "!noentry")
    | .sudo _ => (.err, "!noentry")
    | .migrate _ => (.err, "!noentry")
    | _ =>
      if emptyMsg en then (.err, "!noentry") else
      match (scripted "N").run en env ch own with
      | (.ok (resp, own'), note) =>
        if resp.msgs.any (fun sm => match sm.msg with | .ext .custom _ => true | _ => false) then (.panic, note)
        else (.ok (resp, own'), note)
      | other => other
  query := (scripted "N").query

def fmtTraceEntry (t : TraceEntry) : String :=
  let (tag, h, notes) := match t.note.splitOn "|" with
    | tag :: h :: rest => (tag, h, "|".intercalate rest)
    | _ => ("", "", "")
  let (name, sender, funds, extra) := match t.entry with
    | .execute i _ => ("execute", i.sender, fmtCoins i.funds, "-")
    | .instantiate i _ => ("instantiate", i.sender, fmtCoins i.funds, "-")
    | .reply r => ("reply", "-", "-", replyExtra r)
    | .sudo _ => ("sudo", "-", "-", "-")
    | .migrate _ => ("migrate", "-", "-", "-")
  -- the chain id the contract is told is noted when it is not the default one
  let notes := if t.env.block.chainId == "cosmos-testnet-14002" then notes
    else "cid=" ++ penc t.env.block.chainId ++ (if notes == "" then "" else ";" ++ notes)
  " ".intercalate [t.callee, name, tag, sender, funds, toString t.env.block.height, toString t.env.block.time, extra ++ "#" ++ h]
    ++ "|" ++ notes

-- ---------------------------------------------------------------------------------------------
-- the App state of the driver

structure DApp where
  ch : DChain := { ext := {} }
  codes : List (Nat × CodeData) := []
  codeBase : List (Code DExt) := []
  block : Block := { height := 12345, time := 1571797419879305533, chainId := "cosmos-testnet-14002" }
  trace : List String := []
  deriving Inhabited

/-- which Api the slice's Apps are built with: 0 = not recomputed (custom Api / address generator),
1 = `MockApi::default()` (Bech32, prefix cosmwasm), 2 = `MockApiBech32::new("juno")`, 3 = `MockApiBech32m::new("juno")` -/
structure WState where
  apps : List DApp := [{}, {}, {}]
  cur : Nat := 0
  chks : List (Nat × Val) := []
  api : Nat := 1
  deriving Inhabited

def apiOfSlice (name : String) : Nat :=
  if name == "wasm-legacy" then 0
  else if name == "wasm-bech-mix" then 3
  else if name.startsWith "wasm-bech" then 2
  else 1

def apiCodec (api : Nat) : Option (Bech32.Variant × List Char) :=
  match api with
  | 1 => some (.default, "cosmwasm".toList)
  | 2 => some (.bech32, "juno".toList)
  | 3 => some (.bech32m, "juno".toList)
  | _ => none

def showAddr (o : Outcome (List Char)) : String :=
  match o with
  | .ok s => String.ofList s
  | .err => "addr-error"
  | .panic => "addr-panic"
  | .outOfFuel => "addr-error"

/-- the value the crate derives for a symbol of the line protocol (`uN` / `nN` / `creator`: `addr_make`;
`c<code>_<instance>`: classic contract address); `none` = not derivable (declared value is used) -/
def computeSym (api : Nat) (sym : String) : Option String :=
  match apiCodec api with
  | none => none
  | some (v, pfx) =>
    if sym == "creator" then some (showAddr (Address.make .default "cosmwasm".toList "creator"))
    else if sym.startsWith "u" || sym.startsWith "n" then some (showAddr (Address.make v pfx sym))
    else if sym.startsWith "c" then
      match (sym.drop 1).toString.splitOn "_" with
      | [c, i] =>
        match c.toNat?, i.toNat? with
        | some c, some i => some (showAddr (Address.classicAddr v pfx c i))
        | _, _ => none
      | _ => none
    else none

def computeSalted (api : Nat) (chk : Val) (creator : String) (salt : Val) : Option String :=
  match apiCodec api with
  | none => none
  | some (v, pfx) => some (showAddr (Address.saltedAddr v pfx chk creator.toList salt))

def fuelMax : Nat := 100000

def cfgOf (app : DApp) : Config DExt where
  codes := app.codes
  codeBase := app.codeBase
  -- valid = declared in the case, except names starting with `bad` (what the permissive Api of slice `wasm-legacy` refuses)
  validAddr := fun s => isBound app.ch.ext.syms s && !s.startsWith "bad"
  addrClassic := fun c i =>
    match app.ch.ext.syms.lookup ("c" ++ toString c ++ "_" ++ toString i) with
    | some r => .ok r
    | none => .ok ("unbound-classic-" ++ toString c ++ "-" ++ toString i)
  addrSalted := fun chk creator salt =>
    if salt.isEmpty || salt.length > 64 then .err else
    match app.ch.ext.syms.lookup ("i2:" ++ hex chk ++ ":" ++ creator ++ ":" ++ hex salt) with
    | some r => .ok r
    | none => .ok ("unbound-salted-" ++ hex chk ++ "-" ++ creator ++ "-" ++ hex salt)
  extExec := fun kind ch blk sender payload =>
    match kind with
    | .staking | .distribution => stkExec ch blk sender payload
    | _ => .err
  extSudo := fun ch blk payload => stkSudo ch blk payload


def fmtDump (app : DApp) : String :=
  let ch := app.ch
  let bank := ";".intercalate (ch.bank.map fun p => p.1 ++ "=" ++ fmtCoins p.2)
  let cons := ";".intercalate (ch.contracts.map fun p =>
    p.1 ++ "=" ++ toString p.2.codeId ++ "," ++ p.2.creator ++ "," ++ p.2.admin.getD "~" ++ "," ++
      penc p.2.label ++ "," ++ toString p.2.created)
  let store := ";".intercalate ((ch.cstore.filter (fun p => !p.2.isEmpty)).map fun p => p.1 ++ "=" ++ fmtRecords p.2)
  "bank{" ++ bank ++ "} contracts{" ++ cons ++ "} store{" ++ store ++ "} other{}" ++ fmtStk ch.ext

def setApp (st : WState) (app : DApp) : WState :=
  { st with apps := st.apps.set st.cur app }

def outcomeStr {α} (o : Outcome α) (f : α → String) : String :=
  match o with
  | .ok a => f a
  | .err => "err"
  | .panic => "panic"
  | .outOfFuel => "out-of-fuel"

def addTrace (app : DApp) (tr : Trace) : DApp :=
  { app with trace := app.trace ++ (tr.filter fun t => t.note != "!noentry").map fmtTraceEntry }

def noExtQuery : ExtKind → DChain → Block → Val → Outcome Val := fun _ _ _ _ => .err

/-- `set_block` / `update_block`: the block changes, then `process_queue(..).unwrap()` runs on the live storage -/
def runQueue (st : WState) (app : DApp) : WState × String :=
  let sc := stkChainOf app.ch app.block
  match Staking.processQueue (stkCfgOf app.ch.ext.syms) sc.time sc.st sc.bank sc.st.queue with
  | .ok (s', bank') => (setApp st { app with ch := { app.ch with bank := bank', ext := { app.ch.ext with stk := s' } } }, "ok")
  | _ => (setApp st app, "panic")

def stepWasm (st : WState) (line : String) : WState × String :=
  match parseSx line with
  | none => (st, "bad-op")
  | some [] => (st, "bad-op")
  | some items =>
    let app := st.apps[st.cur]?.getD {}
    let a (i : Nat) : String := (items[i]?.map Sx.atom).getD ""
    let syms := app.ch.ext.syms
    let real (s : String) := realOf syms s
    let cfg := cfgOf app
    let storeCode (id : Nat) (creator : String) (tag : String) : WState × String :=
      let chk := (st.chks.lookup id).getD []
      let cd : CodeData := { creator := creator, checksum := chk, sourceId := app.codeBase.length }
      let code := if tag == "W!" then scriptedWrapped else if tag == "N!" then scriptedBare else scripted tag
      let tag := if tag == "W!" then "W" else if tag == "N!" then "N" else tag
      let app' : DApp := { app with codes := Registry.insert app.codes id cd, codeBase := app.codeBase ++ [code],
                                     ch := { app.ch with ext := { app.ch.ext with
                                       tags := (id, tag) :: (id + 1000000, creator ++ "," ++ hex chk) :: app.ch.ext.tags } } }
      (setApp st app', "id " ++ toString id)
    match a 0 with
    | "app" => ({ st with cur := if a 1 == "2" then 1 else if a 1 == "3" then 2 else 0 }, "ok")
    | "section" => (st, "ok")
    | "bind" =>
      -- symbols are shared by both App instances; the answer is the value the MODEL derives (SHA-256 + bech32),
      -- so a declaration that is not what the crate's derivation rules give shows up as a difference on this line
      let upd (ap : DApp) : DApp := { ap with ch := { ap.ch with ext := { ap.ch.ext with syms := (a 1, a 2) :: ap.ch.ext.syms } } }
      ({ st with apps := st.apps.map upd }, "bound " ++ (computeSym st.api (a 1)).getD (a 2))
    | "bind2" =>
      let chk := (a 1).toNat?.bind (fun n => st.chks.lookup n) |>.getD []
      let key := "i2:" ++ hex chk ++ ":" ++ real (a 2) ++ ":" ++ a 3
      let sym := "i2_" ++ a 1 ++ "_" ++ a 2 ++ "_" ++ a 3
      let upd (ap : DApp) : DApp := { ap with ch := { ap.ch with ext := { ap.ch.ext with
        syms := (key, a 4) :: (sym, a 4) :: ap.ch.ext.syms } } }
      ({ st with apps := st.apps.map upd }, "bound " ++ (computeSalted st.api chk (real (a 2)) ((unhex (a 3)).getD [])).getD (a 4))
    | "bind2x" =>
      let key := "i2:" ++ a 1 ++ ":" ++ real (a 2) ++ ":" ++ a 3
      let upd (ap : DApp) : DApp := { ap with ch := { ap.ch with ext := { ap.ch.ext with syms := (key, a 4) :: ap.ch.ext.syms } } }
      ({ st with apps := st.apps.map upd },
        "bound " ++ (computeSalted st.api ((unhex (a 1)).getD []) (real (a 2)) ((unhex (a 3)).getD [])).getD (a 4))
    | "store-c" =>
      match Registry.storeCode ⟨app.codes, app.codeBase.length⟩ (real "creator") (fun _ => (unhex (a 2)).getD []) with
      | .ok (id, _) =>
        -- the code's own checksum overrides the generator's
        let st' : WState := { st with chks := (id, (unhex (a 2)).getD []) :: st.chks }
        let cd : CodeData := { creator := real "creator", checksum := (unhex (a 2)).getD [], sourceId := app.codeBase.length }
        let app' : DApp := { app with codes := Registry.insert app.codes id cd, codeBase := app.codeBase ++ [scripted (a 1)],
                                       ch := { app.ch with ext := { app.ch.ext with
                                         tags := (id, a 1) :: (id + 1000000, real "creator" ++ "," ++ a 2) :: app.ch.ext.tags } } }
        (setApp st' app', "id " ++ toString id)
      | .panic => (st, "panic")
      | _ => (st, "err")
    | "bindc" =>
      match (a 1).toNat?, unhex (a 2) with
      | some n, some h => ({ st with chks := (n, h) :: st.chks }, "bound " ++ hex (Address.defaultChecksum n))
      | _, _ => (st, "bad-op")
    | "store" =>
      match Registry.storeCode ⟨app.codes, app.codeBase.length⟩ (real "creator") (fun id => (st.chks.lookup id).getD []) with
      | .ok (id, _) => storeCode id (real "creator") (a 1)
      | .panic => (st, "panic")
      | _ => (st, "err")
    | "store-w" =>
      match Registry.storeCode ⟨app.codes, app.codeBase.length⟩ (real "creator") (fun id => (st.chks.lookup id).getD []) with
      | .ok (id, _) => storeCode id (real "creator") "W!"
      | .panic => (st, "panic")
      | _ => (st, "err")
    | "store-n" =>
      match Registry.storeCode ⟨app.codes, app.codeBase.length⟩ (real "creator") (fun id => (st.chks.lookup id).getD []) with
      | .ok (id, _) => storeCode id (real "creator") "N!"
      | .panic => (st, "panic")
      | _ => (st, "err")
    | "store-as" =>
      match Registry.storeCode ⟨app.codes, app.codeBase.length⟩ (real (a 1)) (fun id => (st.chks.lookup id).getD []) with
      | .ok (id, _) => storeCode id (real (a 1)) (a 2)
      | .panic => (st, "panic")
      | _ => (st, "err")
    | "store-id" =>
      match (a 2).toNat? with
      | some id =>
        match Registry.storeCodeWithId ⟨app.codes, app.codeBase.length⟩ (real (a 1)) id (fun id => (st.chks.lookup id).getD []) with
        | .ok (id, _) => storeCode id (real (a 1)) (a 3)
        | .panic => (st, "panic")
        | _ => (st, "err")
      | none => (st, "bad-op")
    | "dup" =>
      match (a 1).toNat? with
      | some id =>
        match Registry.duplicateCode ⟨app.codes, app.codeBase.length⟩ id with
        | .ok (nid, reg) =>
          let tag := (app.ch.ext.tags.lookup id).getD ""
          let cd := (reg.codes.lookup nid).getD default
          let app' : DApp := { app with codes := reg.codes,
                                         ch := { app.ch with ext := { app.ch.ext with
                                           tags := (nid, tag) :: (nid + 1000000, cd.creator ++ "," ++ hex cd.checksum) :: app.ch.ext.tags } } }
          (setApp st app', "id " ++ toString nid)
        | .panic => (st, "panic")
        | _ => (st, "err")
      | none => (st, "bad-op")
    | "block" =>
      -- `block same T`: `set_block` with the CURRENT height and another time
      match (if a 1 == "same" then some app.block.height else (a 1).toNat?), (a 2).toNat? with
      | some h, some t => runQueue st { app with block := { app.block with height := h, time := t } }
      | _, _ => (st, "bad-op")
    | "block-chain" =>
      match pdec (a 1) with
      | some cid => runQueue st { app with block := { app.block with chainId := cid } }
      | none => (st, "bad-op")
    | "next-block" =>
      runQueue st { app with block := { app.block with height := app.block.height + 1, time := app.block.time + 5000000000 } }
    | "stk-setup" =>
      match (a 2).toNat?, (a 3).toNat? with
      | some unb, some apr =>
        let ext := { app.ch.ext with stk := { app.ch.ext.stk with info := ⟨a 1, unb, ⟨apr⟩⟩ }, stkOn := true }
        (setApp st { app with ch := { app.ch with ext := ext } }, "ok")
      | _, _ => (st, "bad-op")
    | "stk-val" =>
      match (a 2).toNat? with
      | some c =>
        match Staking.addValidator (stkChainOf app.ch app.block) ⟨a 1, ⟨c⟩⟩ with
        | .ok sc => (setApp st { app with ch := stkBack app.ch sc }, "ok")
        | .err => (st, "err")
        | _ => (st, "panic")
      | none => (st, "bad-op")
    | "sudo-slash" =>
      let (r, ch', tr) := App.sudo cfg app.block fuelMax app.ch (.ext (strBytes ("slash " ++ a 1 ++ " " ++ a 2)))
      (setApp st (addTrace { app with ch := ch' } tr), outcomeStr r fun r => "ok " ++ fmtResp r)
    | "q-deleg" =>
      (st, fmtDelegation app.ch.ext.stk.info.bondedDenom
        (Staking.queryDelegation (stkCfgOf syms) (stkChainOf app.ch app.block) (real (a 1)) (a 2)))
    | "q-alldeleg" =>
      let r := Staking.queryAllDelegations (stkCfgOf syms) (stkChainOf app.ch app.block) (real (a 1))
      (st, match r with
        | .ok [] => "-"
        | _ => fmtAllDelegations "," r)
    | "block-info" => (st, toString app.block.height ++ " " ++ toString app.block.time ++ " " ++ penc app.block.chainId)
    | "init-bal" =>
      match parseCoins (a 2) with
      | some cs => (setApp st { app with ch := { app.ch with bank := Bank.setBalance app.ch.bank (real (a 1)) cs } }, "ok")
      | none => (st, "bad-op")
    | "exec" | "exec-bare" =>
      match (items[2]?).bind (toMsg syms) with
      | some m =>
        let (r, ch', tr) := App.execute cfg app.block fuelMax app.ch (real (a 1)) m
        (setApp st (addTrace { app with ch := ch' } tr), outcomeStr r fun r => "ok " ++ fmtResp r)
      | none => (st, "bad-op")
    | "multi" =>
      match (items[2]?).bind (fun l => l.list.mapM (toMsg syms)) with
      | some ms =>
        let (r, ch', tr) := App.executeMulti cfg app.block fuelMax app.ch (real (a 1)) ms
        (setApp st (addTrace { app with ch := ch' } tr),
          outcomeStr r fun rs => "ok " ++ " / ".intercalate (rs.map fmtResp))
      | none => (st, "bad-op")
    | "sudo-mint" =>
      match parseCoins (a 2) with
      | some cs =>
        let (r, ch', tr) := App.sudo cfg app.block fuelMax app.ch (.bankMint (real (a 1)) cs)
        (setApp st (addTrace { app with ch := ch' } tr), outcomeStr r fun r => "ok " ++ fmtResp r)
      | none => (st, "bad-op")
    | "sudo-wasm" =>
      let text := (items[2]?.map Sx.print).getD ""
      let (r, ch', tr) := App.sudo cfg app.block fuelMax app.ch (.wasm (real (a 1)) (jsonStr text))
      (setApp st (addTrace { app with ch := ch' } tr), outcomeStr r fun r => "ok " ++ fmtResp r)
    | "wasm-sudo" =>
      let text := (items[2]?.map Sx.print).getD ""
      let (r, ch', tr) := App.wasmSudo cfg app.block fuelMax app.ch (real (a 1)) (strBytes ("\"" ++ text ++ "\""))
      (setApp st (addTrace { app with ch := ch' } tr), outcomeStr r fun r => "ok " ++ fmtResp r)
    | "h-inst" =>
      -- Executor::instantiate(2)_contract = execute(Instantiate…) then decode the address from the data
      let text := (items[3]?.map Sx.print).getD ""
      match (a 1).toNat?, parseCoins (a 4), pdec (a 5), (if a 7 == "~" then some none else (unhex (a 7)).map some) with
      | some code, some funds, some label, some salt =>
        let admin := if a 6 == "~" then none else some (real (a 6))
        let (r, ch', tr) := Executor.instantiateContract cfg app.block fuelMax app.ch (real (a 2)) code
          (strBytes ("\"" ++ text ++ "\"")) funds label admin salt
        let out := match r with
          | .ok addr => "ok " ++ bytesStr addr
          | .err => "err"
          | .panic => "panic"
          | .outOfFuel => "out-of-fuel"
        (setApp st (addTrace { app with ch := ch' } tr), out)
      | _, _, _, _ => (st, "bad-op")
    | "h-exec" =>
      let text := (items[3]?.map Sx.print).getD ""
      match parseCoins (a 4) with
      | some funds =>
        let (r, ch', tr) := Executor.executeContract cfg app.block fuelMax app.ch (real (a 1)) (real (a 2))
          (strBytes ("\"" ++ text ++ "\"")) funds
        (setApp st (addTrace { app with ch := ch' } tr), outcomeStr r fun r => "ok " ++ fmtResp r)
      | none => (st, "bad-op")
    | "h-mig" =>
      let text := (items[4]?.map Sx.print).getD ""
      match (a 3).toNat? with
      | some code =>
        let (r, ch', tr) := Executor.migrateContract cfg app.block fuelMax app.ch (real (a 1)) (real (a 2))
          (strBytes ("\"" ++ text ++ "\"")) code
        (setApp st (addTrace { app with ch := ch' } tr), outcomeStr r fun r => "ok " ++ fmtResp r)
      | none => (st, "bad-op")
    | "h-send" =>
      match parseCoins (a 3) with
      | some cs =>
        let (r, ch', tr) := Executor.sendTokens cfg app.block fuelMax app.ch (real (a 1)) (real (a 2)) cs
        (setApp st (addTrace { app with ch := ch' } tr), outcomeStr r fun r => "ok " ++ fmtResp r)
      | none => (st, "bad-op")
    | "q-bal" =>
      (st, outcomeStr (query cfg noExtQuery app.block app.ch (.balance (real (a 1)) (a 2))) fun
        | .amount n => toString n
        | _ => "?")
    | "q-all" =>
      (st, outcomeStr (query cfg noExtQuery app.block app.ch (.allBalances (real (a 1)))) fun
        | .coins cs => fmtCoins cs
        | _ => "?")
    | "q-sup" =>
      (st, outcomeStr (query cfg noExtQuery app.block app.ch (.supply (a 1))) fun
        | .amount n => toString n
        | _ => "?")
    | "q-smart" =>
      let text := (items[2]?.map Sx.print).getD ""
      (st, outcomeStr (query cfg noExtQuery app.block app.ch (.wasmSmart (real (a 1)) (strBytes ("\"" ++ text ++ "\"")))) fun
        | .bytes v => penc (unquote (bytesStr v))
        | _ => "?")
    | "q-raw" =>
      match unhex (a 2) with
      | some k =>
        (st, outcomeStr (query cfg noExtQuery app.block app.ch (.wasmRaw (real (a 1)) k)) fun
          | .bytes v => hex v
          | _ => "?")
      | none => (st, "bad-op")
    | "q-info" =>
      (st, outcomeStr (query cfg noExtQuery app.block app.ch (.contractInfo (real (a 1)))) fun
        | .info cd => fmtInfo cd
        | _ => "?")
    | "q-code" =>
      match (a 1).toNat? with
      | some n =>
        (st, outcomeStr (query cfg noExtQuery app.block app.ch (.codeInfo n)) fun
          | .code _ cd => cd.creator ++ "," ++ hex cd.checksum
          | _ => "?")
      | none => (st, "err")
    | "q-ext" => (st, "err")
    | "cdata" =>
      match app.ch.contracts.get? (real (a 1)) with
      | some cd => (st, fmtInfo cd ++ "," ++ penc cd.label ++ "," ++ toString cd.created)
      | none => (st, "err")
    | "wdump" => (st, fmtRecords (((app.ch.cstore.get? (real (a 1))).getD []).range none none .asc))
    | "cstore" =>
      match unhexOpt (a 2), unhexOpt (a 3) with
      | some s, some e =>
        (st, fmtRecords (((app.ch.cstore.get? (real (a 1))).getD []).range s e (if a 4 == "desc" then .desc else .asc)))
      | _, _ => (st, "bad-op")
    | "cs-set" =>
      match unhex (a 2), unhex (a 3) with
      | some k, some v =>
        -- MemoryStorage refuses empty values (cosmwasm-std); App::contract_storage_mut writes straight into the window
        if v.isEmpty then (st, "panic") else
        let own := (app.ch.cstore.get? (real (a 1))).getD []
        (setApp st { app with ch := { app.ch with cstore := app.ch.cstore.set (real (a 1)) (own.set k v) } }, "ok")
      | _, _ => (st, "bad-op")
    | "cs-rm" =>
      match unhex (a 2) with
      | some k =>
        let own := (app.ch.cstore.get? (real (a 1))).getD []
        (setApp st { app with ch := { app.ch with cstore := app.ch.cstore.set (real (a 1)) (own.remove k) } }, "ok")
      | none => (st, "bad-op")
    | "cs-get" =>
      match unhex (a 2) with
      | some k =>
        (st, match ((app.ch.cstore.get? (real (a 1))).getD []).get k with
             | some v => "some " ++ hex v
             | none => "none")
      | none => (st, "bad-op")
    | "dump" => (st, fmtDump app)
    | "rawhash" => (st, "!")
    -- `raw[…]` only for a state that meets the hypotheses of the flat-store theorems (C01.flat_store_*, equal_bytes_equal_state)
    | "rawdump" => (st, (if Flat.wfCheck app.ch then "raw" else "raw-not-wf") ++ fmtRecords (Flat.flatten app.ch))
    | "nondet" => (st, "!")       -- verdict slot of slice wasm-bech-mix (implementation-only)
    | "trace" =>
      (setApp st { app with trace := [] }, "trace[" ++ " || ".intercalate app.trace ++ "]")
    | _ => (st, "bad-op")

end CwMt.Driver
