import CwMt.Model.Bech32
import CwMt.Driver.Util
/- Line-protocol front end for the `addr` engine (slice `addr`, property C18).

   humanize     <bech32|bech32m|default> <prefix> <hex>            → ok <string> | err | panic
   canonicalize <variant> <prefix> <string>                        → ok <hex>    | err | panic
   validate     <variant> <prefix> <string>                        → ok <string> | err | panic
   make         <variant> <prefix> <name> <digesthex>              → ok <string> | err | panic

   `<prefix>`, `<string>`, `<name>` and the strings in outputs are percent-encoded (`penc`/`pdec`).
   For `make` the harness passes SHA-256(name), because the hash is a parameter `H` of the model;
   the driver instantiates `H` with the constant function returning that digest.
   A trailing token starting with `#` (generator label such as `#corrupt`) is ignored. -/
namespace CwMt.Driver
open CwMt CwMt.Bech32

def parseVariant (tok : String) : Option Variant :=
  if tok == "bech32" then some .bech32
  else if tok == "bech32m" then some .bech32m
  else if tok == "default" then some .default
  else none

def fmtStrOutcome : Outcome (List Char) → String
  | .ok s => "ok " ++ penc (String.ofList s)
  | .err => "err"
  | .panic => "panic"
  | .outOfFuel => "out-of-fuel"

def fmtBytesOutcome : Outcome (List UInt8) → String
  | .ok bs => "ok " ++ hex bs
  | .err => "err"
  | .panic => "panic"
  | .outOfFuel => "out-of-fuel"

def dropLabels (toks : List String) : List String := toks.filter (fun t => !t.startsWith "#")

def stepAddr (st : Unit) (toks : List String) : Unit × String :=
  match dropLabels toks with
  | ["humanize", v, p, h] =>
    match parseVariant v, pdec p, unhex h with
    | some v, some p, some bs => (st, fmtStrOutcome (addrHumanize v p.toList bs))
    | _, _, _ => (st, "bad-op")
  | ["canonicalize", v, p, s] =>
    match parseVariant v, pdec p, pdec s with
    | some v, some p, some s => (st, fmtBytesOutcome (addrCanonicalize v p.toList s.toList))
    | _, _, _ => (st, "bad-op")
  | ["validate", v, p, s] =>
    match parseVariant v, pdec p, pdec s with
    | some v, some p, some s => (st, fmtStrOutcome (addrValidate v p.toList s.toList))
    | _, _, _ => (st, "bad-op")
  | ["make", v, p, n, d] =>
    match parseVariant v, pdec p, pdec n, unhex d with
    | some v, some p, some n, some d =>
      (st, fmtStrOutcome (addrMake (fun _ => d) v p.toList n.toUTF8.toList))
    | _, _, _, _ => (st, "bad-op")
  | _ => (st, "bad-op")

end CwMt.Driver
