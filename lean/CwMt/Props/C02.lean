import CwMt.Proofs.Engine
import CwMt.Proofs.EngineObs
import CwMt.Proofs.EngineTx
import CwMt.Proofs.TxSites
import CwMt.Proofs.EngineBig
/-
  C02 — A failed sub-message leaves no trace; caught only if reply_on says so.
  Model: `executeSubmsg`, `processResponse`, `reply` of CwMt/Model/Engine.lean. All statements hold
  for arbitrary depth below the sub-message: `execute` stands for the complete (recursive) execution
  of the sub-message, whatever it dispatched and however far it got before failing.
-/
namespace CwMt.C02
open CwMt
variable {E : Type}

/-- A failed sub-message: everything after it (its reply handler, hence later siblings and the
parent's caller) continues from `ch`, the state just before it was dispatched — whatever the failed
sub-tree wrote is gone. It is absorbed exactly when the mode is `error`/`always`. -/
theorem failed_sub_discarded (cfg : Config E) (blk : Block) (fuel : Nat) (ch : Chain E) (contract : Addr)
    (sm : SubMsg) (tr tr₁ : Trace)
    (h : execute cfg blk fuel ch contract sm.msg tr = (.err, tr₁)) :
    executeSubmsg cfg blk (fuel + 1) ch contract sm tr =
      (if wantsReplyOnErr sm.replyOn then reply cfg blk fuel ch contract ⟨sm.id, sm.payload, .err⟩ tr₁
       else (.err, tr₁)) :=
  Engine.failed_sub_discarded cfg blk fuel ch contract sm tr tr₁ h

/-- The parent continues past a failed sub-message iff reply_on ∈ {error, always} and the reply
(including everything it dispatches) succeeds. -/
theorem caught_iff (cfg : Config E) (blk : Block) (fuel : Nat) (ch : Chain E) (contract : Addr)
    (sm : SubMsg) (tr tr₁ : Trace)
    (h : execute cfg blk fuel ch contract sm.msg tr = (.err, tr₁)) :
    (executeSubmsg cfg blk (fuel + 1) ch contract sm tr).1.isOk = true ↔
      (wantsReplyOnErr sm.replyOn = true ∧
        (reply cfg blk fuel ch contract ⟨sm.id, sm.payload, .err⟩ tr₁).1.isOk = true) :=
  Engine.caught_iff cfg blk fuel ch contract sm tr tr₁ h

/-- A successful sub-message: its state `ch₁` is what the reply handler / the next sibling sees. -/
theorem ok_sub_visible (cfg : Config E) (blk : Block) (fuel : Nat) (ch ch₁ : Chain E) (contract : Addr)
    (sm : SubMsg) (tr tr₁ : Trace) (r : AppResponse)
    (h : execute cfg blk fuel ch contract sm.msg tr = (.ok (r, ch₁), tr₁)) :
    executeSubmsg cfg blk (fuel + 1) ch contract sm tr =
      (if wantsReplyOnOk sm.replyOn then
        (match reply cfg blk fuel ch₁ contract ⟨sm.id, sm.payload, .ok r.events r.data⟩ tr₁ with
         | (.ok (rr, ch₂), tr₂) => (.ok ({ events := r.events ++ rr.events, data := rr.data }, ch₂), tr₂)
         | other => other)
       else (.ok ({ r with data := none }, ch₁), tr₁)) :=
  Engine.ok_sub_visible cfg blk fuel ch ch₁ contract sm tr tr₁ r h

/-- A successful sub-message whose wanted reply fails makes the parent fail. -/
theorem reply_failure_propagates (cfg : Config E) (blk : Block) (fuel : Nat) (ch ch₁ : Chain E)
    (contract : Addr) (sm : SubMsg) (tr tr₁ tr₂ : Trace) (r : AppResponse)
    (h : execute cfg blk fuel ch contract sm.msg tr = (.ok (r, ch₁), tr₁))
    (hw : wantsReplyOnOk sm.replyOn = true)
    (hr : reply cfg blk fuel ch₁ contract ⟨sm.id, sm.payload, .ok r.events r.data⟩ tr₁ = (.err, tr₂)) :
    executeSubmsg cfg blk (fuel + 1) ch contract sm tr = (.err, tr₂) :=
  Engine.reply_failure_propagates cfg blk fuel ch ch₁ contract sm tr tr₁ tr₂ r h hw hr

/-- Siblings run in list order, each on the state its predecessor left; the parent's own writes and
the effects of completed siblings are in that state (`ch` here already contains them). -/
theorem siblings_in_order (cfg : Config E) (blk : Block) (fuel : Nat) (ch : Chain E) (contract : Addr)
    (resp : AppResponse) (sm : SubMsg) (rest : List SubMsg) (tr : Trace) :
    processResponse cfg blk (fuel + 1) ch contract resp (sm :: rest) tr =
      (match executeSubmsg cfg blk fuel ch contract sm tr with
       | (.ok (sr, ch₁), tr₁) =>
         processResponse cfg blk fuel ch₁ contract
           { events := resp.events ++ sr.events, data := sr.data.orElse fun _ => resp.data } rest tr₁
       | other => other) :=
  Engine.siblings_in_order cfg blk fuel ch contract resp sm rest tr

/-- An uncaught failure of any sub-message fails the parent as a whole. -/
theorem uncaught_propagates (cfg : Config E) (blk : Block) (fuel : Nat) (ch : Chain E) (contract : Addr)
    (resp : AppResponse) (sm : SubMsg) (rest : List SubMsg) (tr tr₁ : Trace)
    (h : executeSubmsg cfg blk fuel ch contract sm tr = (.err, tr₁)) :
    processResponse cfg blk (fuel + 1) ch contract resp (sm :: rest) tr = (.err, tr₁) :=
  Engine.uncaught_propagates cfg blk fuel ch contract resp sm rest tr tr₁ h

/-! ### "leaves no trace": what failed, and how far it got, is invisible to everything that follows -/

/-- The ghost invocation trace is a pure observer: the outcome and the resulting state of an execution
do not depend on the trace handed in, and the entries appended are the same. -/
theorem trace_is_observer (cfg : Config E) (blk : Block) (fuel : Nat) (ch : Chain E) (sender : Addr) (m : Msg)
    (tr₁ tr₂ : Trace) :
    (execute cfg blk fuel ch sender m tr₁).1 = (execute cfg blk fuel ch sender m tr₂).1 ∧
    ∃ new, (execute cfg blk fuel ch sender m tr₁).2 = tr₁ ++ new ∧
           (execute cfg blk fuel ch sender m tr₂).2 = tr₂ ++ new :=
  EngineObs.trace_is_observer cfg blk fuel ch sender m tr₁ tr₂

/-- Two sub-messages with the same id, payload and reply mode that both fail — whatever they are,
however deep they went and whatever they wrote before failing — leave the parent in exactly the
same situation: same outcome, same state, same response. -/
theorem failed_subs_indistinguishable (cfg : Config E) (blk : Block) (fuel : Nat) (ch : Chain E) (contract : Addr)
    (sm sm' : SubMsg) (tr tr₁ tr₁' : Trace)
    (hid : sm'.id = sm.id) (hp : sm'.payload = sm.payload) (hr : sm'.replyOn = sm.replyOn)
    (h : execute cfg blk fuel ch contract sm.msg tr = (.err, tr₁))
    (h' : execute cfg blk fuel ch contract sm'.msg tr = (.err, tr₁')) :
    (executeSubmsg cfg blk (fuel + 1) ch contract sm tr).1 =
      (executeSubmsg cfg blk (fuel + 1) ch contract sm' tr).1 :=
  EngineObs.failed_subs_indistinguishable cfg blk fuel ch contract sm sm' tr tr₁ tr₁' hid hp hr h h'

/-! ### the same facts for the engine with in-place writes (`CwMt/Model/EngineTx.lean`) -/

/-- Every function of the imperative engine, at every depth, agrees with its value-semantics twin on
outcome, trace and — when it succeeds — state; what a failing one leaves in its storage never matters
to anything above the nearest `transactional`. -/
theorem imperative_refines (cfg : Config E) (d : Dirt E) (blk : Block) (fuel : Nat) (ch : Chain E) (tr : Trace) :
    (∀ sender m, (executeI cfg d blk fuel ch sender m tr).forget = execute cfg blk fuel ch sender m tr) ∧
    (∀ c resp msgs, (processResponseI cfg d blk fuel ch c resp msgs tr).forget
        = processResponse cfg blk fuel ch c resp msgs tr) ∧
    (∀ c sm, (executeSubmsgI cfg d blk fuel ch c sm tr).forget = executeSubmsg cfg blk fuel ch c sm tr) ∧
    (∀ c rp, (replyI cfg d blk fuel ch c rp tr).forget = reply cfg blk fuel ch c rp tr) :=
  EngineTx.refines cfg d blk fuel ch tr

/-- A sub-message that fails after writing — `chDirty` is what its cache showed when it gave up, at
whatever depth — is followed by a reply handler (or an error return) that sees exactly `ch`, the
dispatcher's storage as it was when the sub-message was dispatched. -/
theorem imperative_failed_sub_discarded (cfg : Config E) (d : Dirt E) (blk : Block) (fuel : Nat) (ch chDirty : Chain E)
    (contract : Addr) (sm : SubMsg) (tr tr₁ : Trace)
    (h : executeI cfg d blk fuel ch contract sm.msg tr = (.err, chDirty, tr₁)) :
    executeSubmsgI cfg d blk (fuel + 1) ch contract sm tr =
      (if wantsReplyOnErr sm.replyOn then replyI cfg d blk fuel ch contract ⟨sm.id, sm.payload, .err⟩ tr₁
       else (.err, ch, tr₁)) :=
  EngineTx.failed_sub_discarded cfg d blk fuel ch chDirty contract sm tr tr₁ h

/-- A sub-message that succeeds is committed into the dispatcher's storage, and stays there even if
the dispatcher's reply handler then fails: the failure travels upwards with that state, to be dropped by
the next enclosing `transactional` (an outer sub-message, or the entry point). -/
theorem imperative_committed_then_reply_fails (cfg : Config E) (d : Dirt E) (blk : Block) (fuel : Nat)
    (ch ch₁ ch₂ : Chain E) (contract : Addr) (sm : SubMsg) (tr tr₁ tr₂ : Trace) (r : AppResponse)
    (h : executeI cfg d blk fuel ch contract sm.msg tr = (.ok r, ch₁, tr₁))
    (hw : wantsReplyOnOk sm.replyOn = true)
    (hr : replyI cfg d blk fuel ch₁ contract ⟨sm.id, sm.payload, .ok r.events r.data⟩ tr₁ = (.err, ch₂, tr₂)) :
    executeSubmsgI cfg d blk (fuel + 1) ch contract sm tr = (.err, ch₂, tr₂) :=
  EngineTx.committed_then_reply_fails cfg d blk fuel ch ch₁ ch₂ contract sm tr tr₁ tr₂ r h hw hr

/-- Tie to the sources (regenerated on every run by checklib/tr_tx.py): non-test code of app.rs / wasm.rs
creates write caches at exactly the places where `CwMt/Model/EngineTx.lean` has `transactionalI` — the three
entry points, once around every sub-message (with both `reply` calls outside, on the dispatcher's storage)
and once around every contract call (the querier reading the storage beneath). -/
theorem tx_sites_as_modelled : Gen.Tx.sites = expectedTxSites :=
  TxSites.sites_as_modelled

/-! ### final-state specification: fuel-free, trace-free judgements and their compositional rules

`Exec / Proc / Sub / Rep cfg blk … o` (CwMt/Model/EngineBig.lean): "this run terminates with outcome `o`". The
rules below characterise them for message trees of arbitrary depth; each is an `iff`, so they can be read in both
directions (what a given tree does, and what must have happened for a given outcome). In particular case (2) of
`sub_rule` is the property's first sentence: after a failed sub-message the reply — and through `proc_cons` every
later sibling — runs on `ch`, the state from before it. -/

/-- the judgements are functional: a run has one outcome -/
theorem exec_deterministic (cfg : Config E) (blk : Block) (ch : Chain E) (s : Addr) (m : Msg) (o₁ o₂ : Out E)
    (h₁ : Exec cfg blk ch s m o₁) (h₂ : Exec cfg blk ch s m o₂) : o₁ = o₂ :=
  EngineBig.exec_deterministic cfg blk ch s m o₁ o₂ h₁ h₂

theorem sub_deterministic (cfg : Config E) (blk : Block) (ch : Chain E) (c : Addr) (sm : SubMsg) (o₁ o₂ : Out E)
    (h₁ : Sub cfg blk ch c sm o₁) (h₂ : Sub cfg blk ch c sm o₂) : o₁ = o₂ :=
  EngineBig.sub_deterministic cfg blk ch c sm o₁ o₂ h₁ h₂

/-- the judgement does not depend on the ghost trace the run starts with -/
theorem exec_any_trace (cfg : Config E) (blk : Block) (ch : Chain E) (s : Addr) (m : Msg) (o : Out E) (tr : Trace) :
    Exec cfg blk ch s m o ↔ (o ≠ .outOfFuel ∧ ∃ fuel, (execute cfg blk fuel ch s m tr).1 = o) :=
  EngineBig.exec_any_trace cfg blk ch s m o tr

/-- no sub-messages left: the accumulated response and the current state -/
theorem proc_nil (cfg : Config E) (blk : Block) (ch : Chain E) (c : Addr) (resp : AppResponse) (o : Out E) :
    Proc cfg blk ch c resp [] o ↔ o = .ok (resp, ch) :=
  EngineBig.proc_nil cfg blk ch c resp o

/-- siblings: the first sub-message (with its reply) runs on `ch`; if it ends `ok` with state `ch₁`, the rest runs
on `ch₁` with its events appended and its data (if any) replacing the data so far; otherwise its outcome is the
outcome of the whole list -/
theorem proc_cons (cfg : Config E) (blk : Block) (ch : Chain E) (c : Addr) (resp : AppResponse) (sm : SubMsg)
    (rest : List SubMsg) (o : Out E) :
    Proc cfg blk ch c resp (sm :: rest) o ↔
      ∃ o₁, Sub cfg blk ch c sm o₁ ∧
        (match o₁ with
         | .ok (sr, ch₁) =>
           Proc cfg blk ch₁ c { events := resp.events ++ sr.events, data := sr.data.orElse fun _ => resp.data } rest o
         | other => o = other) :=
  EngineBig.proc_cons cfg blk ch c resp sm rest o

/-- one sub-message: (1) it succeeded with `r`, state `ch₁`: the reply (if wanted) runs on `ch₁` and decides; without
a reply its data is dropped; (2) it failed: the reply (if wanted) runs on `ch` — the state before the sub-message —
and decides, otherwise the failure is the outcome; (3) it panicked. -/
theorem sub_rule (cfg : Config E) (blk : Block) (ch : Chain E) (c : Addr) (sm : SubMsg) (o : Out E) :
    Sub cfg blk ch c sm o ↔
      ((∃ r ch₁, Exec cfg blk ch c sm.msg (.ok (r, ch₁)) ∧
          ((wantsReplyOnOk sm.replyOn = true ∧
              ∃ o', Rep cfg blk ch₁ c ⟨sm.id, sm.payload, .ok r.events r.data⟩ o' ∧ o = mergeReply r o') ∨
           (wantsReplyOnOk sm.replyOn = false ∧ o = .ok ({ r with data := none }, ch₁)))) ∨
       (Exec cfg blk ch c sm.msg .err ∧
          ((wantsReplyOnErr sm.replyOn = true ∧ Rep cfg blk ch c ⟨sm.id, sm.payload, .err⟩ o) ∨
           (wantsReplyOnErr sm.replyOn = false ∧ o = .err))) ∨
       (Exec cfg blk ch c sm.msg .panic ∧ o = .panic)) :=
  EngineBig.sub_rule cfg blk ch c sm o

/-- the reply handler: the contract call on `ch`, then its own sub-messages -/
theorem rep_rule (cfg : Config E) (blk : Block) (ch : Chain E) (c : Addr) (rp : Reply) (o : Out E) :
    Rep cfg blk ch c rp o ↔
      (match (callContract cfg blk ch c (.reply rp) []).1 with
       | .ok (resp, ch₁) =>
         Proc cfg blk ch₁ c (buildAppResponse c (replyEvent c rp) resp).1 (buildAppResponse c (replyEvent c rp) resp).2 o
       | .err => o = .err
       | .panic => o = .panic
       | .outOfFuel => False) :=
  EngineBig.rep_rule cfg blk ch c rp o

/-- `WasmMsg::Execute`: funds first, then the contract on the state with the funds moved, then its sub-messages;
the data of the final response is wrapped in the execute-response encoding -/
theorem exec_wasm_execute (cfg : Config E) (blk : Block) (ch : Chain E) (s : Addr) (contract : String) (m : Val)
    (funds : Coins) (o : Out E) :
    Exec cfg blk ch s (.wasmExecute contract m funds) o ↔
      (if cfg.validAddr contract = false then o = .err else
       match sendFunds ch s contract funds with
       | .ok ch₁ =>
         (match (callContract cfg blk ch₁ contract (.execute ⟨s, funds⟩ m) []).1 with
          | .ok (resp, ch₂) =>
            ∃ o', Proc cfg blk ch₂ contract
                (buildAppResponse contract { ty := "execute", attrs := [contractAttr contract] } resp).1
                (buildAppResponse contract { ty := "execute", attrs := [contractAttr contract] } resp).2 o' ∧
              o = (match o' with
                   | .ok (r, ch₃) => .ok ({ r with data := r.data.map encodeExecuteResponse }, ch₃)
                   | other => other)
          | .err => o = .err
          | .panic => o = .panic
          | .outOfFuel => False)
       | .err => o = .err
       | .panic => o = .panic
       | .outOfFuel => False) :=
  EngineBig.exec_wasm_execute cfg blk ch s contract m funds o

/-- bank messages, admin changes and module messages do not recurse: their outcome is the module's -/
theorem exec_bank (cfg : Config E) (blk : Block) (ch : Chain E) (s : Addr) (to : String) (amount : Coins) (o : Out E) :
    Exec cfg blk ch s (.bankSend to amount) o ↔ (o = bankExecute ch s (.bankSend to amount) ∧ o ≠ .outOfFuel) :=
  EngineBig.exec_bank cfg blk ch s to amount o

/-- `WasmMsg::Instantiate(2)`: register, move the funds to the new address, run `instantiate` there, then its
sub-messages; the data is always the instantiate-response encoding of the new address and the final data -/
theorem exec_wasm_instantiate (cfg : Config E) (blk : Block) (ch : Chain E) (s : Addr) (admin : Option String)
    (codeId : Nat) (m : Val) (funds : Coins) (label : String) (salt : Option Val) (o : Out E) :
    Exec cfg blk ch s (.wasmInstantiate admin codeId m funds label salt) o ↔
      (if label.isEmpty = true then o = .err else
       match registerContract cfg ch codeId s admin label blk.height salt with
       | .ok (addr, ch₀) =>
         (match sendFunds ch₀ s addr funds with
          | .ok ch₁ =>
            (match (callContract cfg blk ch₁ addr (.instantiate ⟨s, funds⟩ m) []).1 with
             | .ok (resp, ch₂) =>
               ∃ o', Proc cfg blk ch₂ addr
                   (buildAppResponse addr { ty := "instantiate", attrs := [contractAttr addr, ⟨"code_id", toString codeId⟩] } resp).1
                   (buildAppResponse addr { ty := "instantiate", attrs := [contractAttr addr, ⟨"code_id", toString codeId⟩] } resp).2 o' ∧
                 o = (match o' with
                      | .ok (r, ch₃) => .ok ({ r with data := some (encodeInstantiateResponse addr (r.data.getD [])) }, ch₃)
                      | other => other)
             | .err => o = .err
             | .panic => o = .panic
             | .outOfFuel => False)
          | .err => o = .err
          | .panic => o = .panic
          | .outOfFuel => False)
       | .err => o = .err
       | .panic => o = .panic
       | .outOfFuel => False) :=
  EngineBig.exec_wasm_instantiate cfg blk ch s admin codeId m funds label salt o

/-- `WasmMsg::Migrate`: checks, then the new code id is recorded, then `migrate` of the NEW code runs on that state,
then its sub-messages; data wrapped as for execute -/
theorem exec_wasm_migrate (cfg : Config E) (blk : Block) (ch : Chain E) (s : Addr) (contract : String) (newCodeId : Nat)
    (m : Val) (o : Out E) :
    Exec cfg blk ch s (.wasmMigrate contract newCodeId m) o ↔
      (if cfg.validAddr contract = false then o = .err else
       if codeKnown cfg newCodeId = false then o = .err else
       match ch.contracts.get? contract with
       | none => o = .err
       | some cd =>
         if cd.admin ≠ some s then o = .err else
         match (callContract cfg blk { ch with contracts := ch.contracts.set contract { cd with codeId := newCodeId } }
                  contract (.migrate m) []).1 with
         | .ok (resp, ch₂) =>
           ∃ o', Proc cfg blk ch₂ contract
               (buildAppResponse contract { ty := "migrate", attrs := [contractAttr contract, ⟨"code_id", toString newCodeId⟩] } resp).1
               (buildAppResponse contract { ty := "migrate", attrs := [contractAttr contract, ⟨"code_id", toString newCodeId⟩] } resp).2 o' ∧
             o = (match o' with
                  | .ok (r, ch₃) => .ok ({ r with data := r.data.map encodeExecuteResponse }, ch₃)
                  | other => other)
         | .err => o = .err
         | .panic => o = .panic
         | .outOfFuel => False) :=
  EngineBig.exec_wasm_migrate cfg blk ch s contract newCodeId m o

/-- the entry point `App::execute_multi` in terms of the judgement: it persists exactly the state of a terminating
successful run of all messages and nothing otherwise (given enough fuel) -/
theorem app_execute_single (cfg : Config E) (blk : Block) (fuel : Nat) (ch : Chain E) (s : Addr) (m : Msg)
    (r : AppResponse) (ch' : Chain E) (tr : Trace)
    (h : App.execute cfg blk fuel ch s m = (.ok r, ch', tr)) : Exec cfg blk ch s m (.ok (r, ch')) :=
  EngineBig.app_execute_single cfg blk fuel ch s m r ch' tr h

end CwMt.C02
