import CwMt.Proofs.Engine
import CwMt.Proofs.EngineObs
import CwMt.Proofs.EngineTx
import CwMt.Proofs.TxSites
/-
  C02 — A failed sub-message leaves no trace; caught only if reply_on says so.
  Model: `executeSubmsg`, `processResponse`, `reply` of CwMt/Model/Engine.lean. All statements hold
  for arbitrary depth below the sub-message: `execute` stands for the complete (recursive) execution
  of the sub-message, whatever it dispatched and however far it got before failing.
-/
namespace CwMt.C02
open CwMt
variable {E : Type}

/-- A failed sub-message: everything after it (its reply handler, hence later siblings and the
parent's caller) continues from `ch`, the state just before it was dispatched — whatever the failed
sub-tree wrote is gone. It is absorbed exactly when the mode is `error`/`always`. -/
theorem failed_sub_discarded (cfg : Config E) (blk : Block) (fuel : Nat) (ch : Chain E) (contract : Addr)
    (sm : SubMsg) (tr tr₁ : Trace)
    (h : execute cfg blk fuel ch contract sm.msg tr = (.err, tr₁)) :
    executeSubmsg cfg blk (fuel + 1) ch contract sm tr =
      (if wantsReplyOnErr sm.replyOn then reply cfg blk fuel ch contract ⟨sm.id, sm.payload, .err⟩ tr₁
       else (.err, tr₁)) :=
  Engine.failed_sub_discarded cfg blk fuel ch contract sm tr tr₁ h

/-- The parent continues past a failed sub-message iff reply_on ∈ {error, always} and the reply
(including everything it dispatches) succeeds. -/
theorem caught_iff (cfg : Config E) (blk : Block) (fuel : Nat) (ch : Chain E) (contract : Addr)
    (sm : SubMsg) (tr tr₁ : Trace)
    (h : execute cfg blk fuel ch contract sm.msg tr = (.err, tr₁)) :
    (executeSubmsg cfg blk (fuel + 1) ch contract sm tr).1.isOk = true ↔
      (wantsReplyOnErr sm.replyOn = true ∧
        (reply cfg blk fuel ch contract ⟨sm.id, sm.payload, .err⟩ tr₁).1.isOk = true) :=
  Engine.caught_iff cfg blk fuel ch contract sm tr tr₁ h

/-- A successful sub-message: its state `ch₁` is what the reply handler / the next sibling sees. -/
theorem ok_sub_visible (cfg : Config E) (blk : Block) (fuel : Nat) (ch ch₁ : Chain E) (contract : Addr)
    (sm : SubMsg) (tr tr₁ : Trace) (r : AppResponse)
    (h : execute cfg blk fuel ch contract sm.msg tr = (.ok (r, ch₁), tr₁)) :
    executeSubmsg cfg blk (fuel + 1) ch contract sm tr =
      (if wantsReplyOnOk sm.replyOn then
        (match reply cfg blk fuel ch₁ contract ⟨sm.id, sm.payload, .ok r.events r.data⟩ tr₁ with
         | (.ok (rr, ch₂), tr₂) => (.ok ({ events := r.events ++ rr.events, data := rr.data }, ch₂), tr₂)
         | other => other)
       else (.ok ({ r with data := none }, ch₁), tr₁)) :=
  Engine.ok_sub_visible cfg blk fuel ch ch₁ contract sm tr tr₁ r h

/-- A successful sub-message whose wanted reply fails makes the parent fail. -/
theorem reply_failure_propagates (cfg : Config E) (blk : Block) (fuel : Nat) (ch ch₁ : Chain E)
    (contract : Addr) (sm : SubMsg) (tr tr₁ tr₂ : Trace) (r : AppResponse)
    (h : execute cfg blk fuel ch contract sm.msg tr = (.ok (r, ch₁), tr₁))
    (hw : wantsReplyOnOk sm.replyOn = true)
    (hr : reply cfg blk fuel ch₁ contract ⟨sm.id, sm.payload, .ok r.events r.data⟩ tr₁ = (.err, tr₂)) :
    executeSubmsg cfg blk (fuel + 1) ch contract sm tr = (.err, tr₂) :=
  Engine.reply_failure_propagates cfg blk fuel ch ch₁ contract sm tr tr₁ tr₂ r h hw hr

/-- Siblings run in list order, each on the state its predecessor left; the parent's own writes and
the effects of completed siblings are in that state (`ch` here already contains them). -/
theorem siblings_in_order (cfg : Config E) (blk : Block) (fuel : Nat) (ch : Chain E) (contract : Addr)
    (resp : AppResponse) (sm : SubMsg) (rest : List SubMsg) (tr : Trace) :
    processResponse cfg blk (fuel + 1) ch contract resp (sm :: rest) tr =
      (match executeSubmsg cfg blk fuel ch contract sm tr with
       | (.ok (sr, ch₁), tr₁) =>
         processResponse cfg blk fuel ch₁ contract
           { events := resp.events ++ sr.events, data := sr.data.orElse fun _ => resp.data } rest tr₁
       | other => other) :=
  Engine.siblings_in_order cfg blk fuel ch contract resp sm rest tr

/-- An uncaught failure of any sub-message fails the parent as a whole. -/
theorem uncaught_propagates (cfg : Config E) (blk : Block) (fuel : Nat) (ch : Chain E) (contract : Addr)
    (resp : AppResponse) (sm : SubMsg) (rest : List SubMsg) (tr tr₁ : Trace)
    (h : executeSubmsg cfg blk fuel ch contract sm tr = (.err, tr₁)) :
    processResponse cfg blk (fuel + 1) ch contract resp (sm :: rest) tr = (.err, tr₁) :=
  Engine.uncaught_propagates cfg blk fuel ch contract resp sm rest tr tr₁ h

/-! ### "leaves no trace": what failed, and how far it got, is invisible to everything that follows -/

/-- The ghost invocation trace is a pure observer: the outcome and the resulting state of an execution
do not depend on the trace handed in, and the entries appended are the same. -/
theorem trace_is_observer (cfg : Config E) (blk : Block) (fuel : Nat) (ch : Chain E) (sender : Addr) (m : Msg)
    (tr₁ tr₂ : Trace) :
    (execute cfg blk fuel ch sender m tr₁).1 = (execute cfg blk fuel ch sender m tr₂).1 ∧
    ∃ new, (execute cfg blk fuel ch sender m tr₁).2 = tr₁ ++ new ∧
           (execute cfg blk fuel ch sender m tr₂).2 = tr₂ ++ new :=
  EngineObs.trace_is_observer cfg blk fuel ch sender m tr₁ tr₂

/-- Two sub-messages with the same id, payload and reply mode that both fail — whatever they are,
however deep they went and whatever they wrote before failing — leave the parent in exactly the
same situation: same outcome, same state, same response. -/
theorem failed_subs_indistinguishable (cfg : Config E) (blk : Block) (fuel : Nat) (ch : Chain E) (contract : Addr)
    (sm sm' : SubMsg) (tr tr₁ tr₁' : Trace)
    (hid : sm'.id = sm.id) (hp : sm'.payload = sm.payload) (hr : sm'.replyOn = sm.replyOn)
    (h : execute cfg blk fuel ch contract sm.msg tr = (.err, tr₁))
    (h' : execute cfg blk fuel ch contract sm'.msg tr = (.err, tr₁')) :
    (executeSubmsg cfg blk (fuel + 1) ch contract sm tr).1 =
      (executeSubmsg cfg blk (fuel + 1) ch contract sm' tr).1 :=
  EngineObs.failed_subs_indistinguishable cfg blk fuel ch contract sm sm' tr tr₁ tr₁' hid hp hr h h'

/-! ### the same facts for the engine with in-place writes (`CwMt/Model/EngineTx.lean`) -/

/-- Every function of the imperative engine, at every depth, agrees with its value-semantics twin on
outcome, trace and — when it succeeds — state; what a failing one leaves in its storage never matters
to anything above the nearest `transactional`. -/
theorem imperative_refines (cfg : Config E) (d : Dirt E) (blk : Block) (fuel : Nat) (ch : Chain E) (tr : Trace) :
    (∀ sender m, (executeI cfg d blk fuel ch sender m tr).forget = execute cfg blk fuel ch sender m tr) ∧
    (∀ c resp msgs, (processResponseI cfg d blk fuel ch c resp msgs tr).forget
        = processResponse cfg blk fuel ch c resp msgs tr) ∧
    (∀ c sm, (executeSubmsgI cfg d blk fuel ch c sm tr).forget = executeSubmsg cfg blk fuel ch c sm tr) ∧
    (∀ c rp, (replyI cfg d blk fuel ch c rp tr).forget = reply cfg blk fuel ch c rp tr) :=
  EngineTx.refines cfg d blk fuel ch tr

/-- A sub-message that fails after writing — `chDirty` is what its cache showed when it gave up, at
whatever depth — is followed by a reply handler (or an error return) that sees exactly `ch`, the
dispatcher's storage as it was when the sub-message was dispatched. -/
theorem imperative_failed_sub_discarded (cfg : Config E) (d : Dirt E) (blk : Block) (fuel : Nat) (ch chDirty : Chain E)
    (contract : Addr) (sm : SubMsg) (tr tr₁ : Trace)
    (h : executeI cfg d blk fuel ch contract sm.msg tr = (.err, chDirty, tr₁)) :
    executeSubmsgI cfg d blk (fuel + 1) ch contract sm tr =
      (if wantsReplyOnErr sm.replyOn then replyI cfg d blk fuel ch contract ⟨sm.id, sm.payload, .err⟩ tr₁
       else (.err, ch, tr₁)) :=
  EngineTx.failed_sub_discarded cfg d blk fuel ch chDirty contract sm tr tr₁ h

/-- A sub-message that succeeds is committed into the dispatcher's storage, and stays there even if
the dispatcher's reply handler then fails: the failure travels upwards with that state, to be dropped by
the next enclosing `transactional` (an outer sub-message, or the entry point). -/
theorem imperative_committed_then_reply_fails (cfg : Config E) (d : Dirt E) (blk : Block) (fuel : Nat)
    (ch ch₁ ch₂ : Chain E) (contract : Addr) (sm : SubMsg) (tr tr₁ tr₂ : Trace) (r : AppResponse)
    (h : executeI cfg d blk fuel ch contract sm.msg tr = (.ok r, ch₁, tr₁))
    (hw : wantsReplyOnOk sm.replyOn = true)
    (hr : replyI cfg d blk fuel ch₁ contract ⟨sm.id, sm.payload, .ok r.events r.data⟩ tr₁ = (.err, ch₂, tr₂)) :
    executeSubmsgI cfg d blk (fuel + 1) ch contract sm tr = (.err, ch₂, tr₂) :=
  EngineTx.committed_then_reply_fails cfg d blk fuel ch ch₁ ch₂ contract sm tr tr₁ tr₂ r h hw hr

/-- Tie to the sources (regenerated on every run by checklib/tr_tx.py): non-test code of app.rs / wasm.rs
creates write caches at exactly the places where `CwMt/Model/EngineTx.lean` has `transactionalI` — the three
entry points, once around every sub-message (with both `reply` calls outside, on the dispatcher's storage)
and once around every contract call (the querier reading the storage beneath). -/
theorem tx_sites_as_modelled : Gen.Tx.sites = expectedTxSites :=
  TxSites.sites_as_modelled

end CwMt.C02
