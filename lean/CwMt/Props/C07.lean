import CwMt.Proofs.Prefix
/-
  C07 — Namespaced storage views are exact, disjoint windows onto the base store.
  Property theorems only; helper lemmas live in CwMt/Proofs/{Store,Prefix}.lean.

  Model: CwMt/Model/Prefix.lean (`toLP`, `toLPNested`, `namespaceUpperBound`, `View.*`, `window`).
  `window pfx base` is the specification: the base entries whose raw key starts with `pfx`, with
  `pfx` stripped. Segments longer than 65535 bytes make `toLP` panic (as `encode_length` does), so a
  namespace path *has* a prefix exactly when all its segments are at most 65535 bytes long.
-/
namespace CwMt.C07
open CwMt

/-! ### the length-prefixed code is prefix-free -/

/-- One segment: equal raw keys under two namespaces force equal namespaces and equal rests. -/
theorem lp_prefix_free (a b : List UInt8) (pa pb x y : Key)
    (ha : toLP a = .ok pa) (hb : toLP b = .ok pb) (h : pa ++ x = pb ++ y) : a = b ∧ x = y :=
  Prefix.lp_prefix_free a b pa pb x y ha hb h

/-- Paths: a raw key lies under both paths only if one path extends the other. -/
theorem disjoint (p q : List (List UInt8)) (pp pq k : Key)
    (hp : toLPNested p = .ok pp) (hq : toLPNested q = .ok pq)
    (hkp : pp <+: k) (hkq : pq <+: k) : p <+: q ∨ q <+: p :=
  Prefix.nested_disjoint p q pp pq k hp hq hkp hkq

/-- If `q` extends `p` by `r`, the `q`-window is precisely the `r`-window of the `p`-window. -/
theorem subwindow (p r : List (List UInt8)) (pp pr : Key) (base : Store Val)
    (hp : toLPNested p = .ok pp) (hr : toLPNested r = .ok pr) :
    toLPNested (p ++ r) = .ok (pp ++ pr) ∧ window (pp ++ pr) base = window pr (window pp base) :=
  Prefix.subwindow p r pp pr base hp hr

/-- Segments of at most 65535 bytes always have a prefix; longer ones panic. -/
theorem toLP_total (a : List UInt8) : (∃ p, toLP a = .ok p) ↔ a.length ≤ 65535 := Prefix.toLP_ok_iff a

/-! ### get / set / remove touch exactly the raw key `pfx ++ k` -/

theorem window_sorted (pfx : Key) (base : Store Val) (h : base.Sorted) : (window pfx base).Sorted :=
  Prefix.window_sorted pfx base h

theorem get_exact (base : Store Val) (h : base.Sorted) (pfx k : Key) :
    View.get base pfx k = (window pfx base).get k := Prefix.get_exact base h pfx k

theorem set_exact (base : Store Val) (h : base.Sorted) (pfx k : Key) (v : Val) :
    window pfx (View.set base pfx k v) = (window pfx base).set k v ∧
    ∀ r, r ≠ pfx ++ k → (View.set base pfx k v).get r = base.get r :=
  Prefix.set_exact base h pfx k v

theorem remove_exact (base : Store Val) (h : base.Sorted) (pfx k : Key) :
    window pfx (View.remove base pfx k) = (window pfx base).remove k ∧
    ∀ r, r ≠ pfx ++ k → (View.remove base pfx k).get r = base.get r :=
  Prefix.remove_exact base h pfx k

/-! ### range -/

/-- The same-length upper bound of `namespace_upper_bound` lies strictly above every key that carries
the prefix, whenever the prefix has a byte that is not 0xFF. -/
theorem upper_bound_covers (pfx k : Key) (hne : allFF pfx = false) (hk : pfx <+: k) :
    pfx ≤ k ∧ k < namespaceUpperBound pfx := Prefix.upper_bound_covers pfx k hne hk

/-- Full strength: every prefix (including the empty one and prefixes ending in or consisting of
0xFF bytes), every base content (including foreign keys shorter than the prefix), all bounds, both
orders. -/
theorem range_exact (base : Store Val) (h : base.Sorted) (pfx : Key) (s e : Option Key) (o : Order) :
    View.range base pfx s e o = (window pfx base).range s e o := Prefix.range_exact base h pfx s e o

/-! ### non-vacuity -/

example : toLPNested [[102, 111], [111]] = .ok [0, 2, 102, 111, 0, 1, 111] := by decide
example : toLP [102, 111, 111] = .ok [0, 3, 102, 111, 111] := by decide
/-- the D1(b) shape: a short foreign key just above the namespace `f\xff\xff` -/
example : View.range [([0, 3, 102, 255, 255, 97], [1]), ([0, 3, 103], [2])] [0, 3, 102, 255, 255] none none .asc
    = [([97], [1])] := by decide
/-- the D1(a) shape: the empty path sees everything -/
example : View.range [([0], [1]), ([255, 255], [2])] [] none none .desc = [([255, 255], [2]), ([0], [1])] := by decide

end CwMt.C07
