import CwMt.Proofs.EngineB
import CwMt.Proofs.Engine
/-
  C10 — Queries are pure and observe exactly the transaction's current state.
  `query` has no state in its result type (purity is a typing fact of the model: the same snapshot
  gives the same answer and there is nothing to change); what is proved is which snapshot a contract
  is given.
-/
namespace CwMt.C10
open CwMt
variable {E : Type}

/-- The answer of any query is a function of the snapshot alone: equal snapshots, equal answers. -/
theorem query_deterministic (cfg : Config E) (eq : ExtKind → Chain E → Block → Val → Outcome Val)
    (blk : Block) (ch₁ ch₂ : Chain E) (q : Query) (h : ch₁ = ch₂) :
    query cfg eq blk ch₁ q = query cfg eq blk ch₂ q := by rw [h]

/-- A contract runs against the snapshot `ch` it was called on — the enclosing transaction's state at
that moment — and its own window of that state; its in-flight writes are not in the snapshot. -/
theorem snapshot_is_call_state (cfg : Config E) (blk : Block) (ch : Chain E) (addr : Addr) (en : Entry)
    (tr : Trace) (cd : ContractData) (code : Code E)
    (hc : ch.contracts.get? addr = some cd) (hcode : contractCode? cfg cd.codeId = some code) :
    callContract cfg blk ch addr en tr =
      (let own := (ch.cstore.get? addr).getD []
       let res := code.run en (contractEnv blk addr) ch own
       let tr' := tr ++ [{ callee := addr, entry := en, env := contractEnv blk addr, note := res.2 }]
       match res.1 with
       | .ok (resp, own') =>
         if responseOk resp then (.ok (resp, { ch with cstore := ch.cstore.set addr own' }), tr') else (.err, tr')
       | .err => (.err, tr')
       | .panic => (.panic, tr')
       | .outOfFuel => (.outOfFuel, tr')) :=
  EngineB.snapshot_is_call_state cfg blk ch addr en tr cd code hc hcode

/-- The snapshot after a completed sub-message is that sub-message's result state; after a failed one
it is the state before it (C02), so no rolled-back effect is observable by a later query. -/
theorem later_calls_see_completed_effects (cfg : Config E) (blk : Block) (fuel : Nat) (ch : Chain E)
    (contract : Addr) (resp : AppResponse) (sm : SubMsg) (rest : List SubMsg) (tr tr₁ : Trace)
    (sr : AppResponse) (ch₁ : Chain E)
    (h : executeSubmsg cfg blk fuel ch contract sm tr = (.ok (sr, ch₁), tr₁)) :
    processResponse cfg blk (fuel + 1) ch contract resp (sm :: rest) tr =
      processResponse cfg blk fuel ch₁ contract
        { events := resp.events ++ sr.events, data := sr.data.orElse fun _ => resp.data } rest tr₁ :=
  EngineB.later_calls_see_completed_effects cfg blk fuel ch contract resp sm rest tr tr₁ sr ch₁ h

/-- Bank queries agree with each other on any snapshot. -/
theorem balance_is_entry_of_all (cfg : Config E) (eq : ExtKind → Chain E → Block → Val → Outcome Val)
    (blk : Block) (ch : Chain E) (a d : String) (hv : cfg.validAddr a = true) :
    query cfg eq blk ch (.balance a d) = .ok (.amount (Bank.amountOf (Bank.balance ch.bank a) d)) ∧
    query cfg eq blk ch (.allBalances a) = .ok (.coins (Bank.balance ch.bank a)) :=
  EngineB.balance_is_entry_of_all cfg eq blk ch a d hv

/-- A query issued through `App` after a transaction that did not return `Ok` gets the answer it would have got
before the transaction, whatever the query: the failed transaction is not observable (with C01). -/
theorem app_query_after_failed_tx (cfg : Config E) (eq : ExtKind → Chain E → Block → Val → Outcome Val)
    (blk : Block) (fuel : Nat) (ch : Chain E) (sender : Addr) (msgs : List Msg) (r : Outcome (List AppResponse))
    (ch' : Chain E) (tr : Trace) (h : App.executeMulti cfg blk fuel ch sender msgs = (r, ch', tr))
    (hr : r.isOk = false) (q : Query) : query cfg eq blk ch' q = query cfg eq blk ch q := by
  rw [Engine.atomic_execute_multi cfg blk fuel ch sender msgs r ch' tr h hr]

/-- … and after a successful one it is evaluated on exactly the state the message list computed (nothing of it is
missing from what `App`-level queries see). -/
theorem app_query_after_ok_tx (cfg : Config E) (eq : ExtKind → Chain E → Block → Val → Outcome Val)
    (blk : Block) (fuel : Nat) (ch : Chain E) (sender : Addr) (msgs : List Msg) (rs : List AppResponse)
    (ch' : Chain E) (tr : Trace) (h : App.executeMulti cfg blk fuel ch sender msgs = (.ok rs, ch', tr)) (q : Query) :
    ∃ chF, App.runMsgs cfg blk fuel ch sender msgs [] = (.ok (rs, chF), tr) ∧
      query cfg eq blk ch' q = query cfg eq blk chF q :=
  ⟨ch', Engine.ok_persists cfg blk fuel ch sender msgs rs ch' tr h, rfl⟩

/-- A raw query and a smart query of contract `c` read the same key space: the raw query returns the entry of the
very store that the contract's `query` entry point is handed (absent = empty bytes). -/
theorem raw_and_smart_read_one_store (cfg : Config E) (eq : ExtKind → Chain E → Block → Val → Outcome Val)
    (blk : Block) (ch : Chain E) (c : String) (k m : Val) (cd : ContractData) (code : Code E)
    (hv : cfg.validAddr c = true) (hc : ch.contracts.get? c = some cd)
    (hcode : contractCode? cfg cd.codeId = some code) :
    query cfg eq blk ch (.wasmRaw c k) = .ok (.bytes ((((ch.cstore.get? c).getD []).get k).getD [])) ∧
    query cfg eq blk ch (.wasmSmart c m) =
      (code.query m (contractEnv blk c) ch ((ch.cstore.get? c).getD [])).map .bytes := by
  simp [query, hv, hc, hcode]

/-- The state a reply handler (and so every query it makes) sees after a FAILED sub-message is the state from before
that sub-message: nothing the sub-message did, however deep, can be queried (restating C02 for queries). -/
theorem reply_after_failed_sub_queries_old_state (cfg : Config E) (blk : Block) (fuel : Nat) (ch : Chain E)
    (contract : Addr) (sm : SubMsg) (tr tr₁ : Trace)
    (h : execute cfg blk fuel ch contract sm.msg tr = (.err, tr₁)) (hw : wantsReplyOnErr sm.replyOn = true) :
    executeSubmsg cfg blk (fuel + 1) ch contract sm tr = reply cfg blk fuel ch contract ⟨sm.id, sm.payload, .err⟩ tr₁ := by
  rw [Engine.failed_sub_discarded cfg blk fuel ch contract sm tr tr₁ h, if_pos hw]

end CwMt.C10
