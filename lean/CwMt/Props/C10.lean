import CwMt.Proofs.EngineB
/-
  C10 — Queries are pure and observe exactly the transaction's current state.
  `query` has no state in its result type (purity is a typing fact of the model: the same snapshot
  gives the same answer and there is nothing to change); what is proved is which snapshot a contract
  is given.
-/
namespace CwMt.C10
open CwMt
variable {E : Type}

/-- The answer of any query is a function of the snapshot alone: equal snapshots, equal answers. -/
theorem query_deterministic (cfg : Config E) (eq : ExtKind → Chain E → Block → Val → Outcome Val)
    (blk : Block) (ch₁ ch₂ : Chain E) (q : Query) (h : ch₁ = ch₂) :
    query cfg eq blk ch₁ q = query cfg eq blk ch₂ q := by rw [h]

/-- A contract runs against the snapshot `ch` it was called on — the enclosing transaction's state at
that moment — and its own window of that state; its in-flight writes are not in the snapshot. -/
theorem snapshot_is_call_state (cfg : Config E) (blk : Block) (ch : Chain E) (addr : Addr) (en : Entry)
    (tr : Trace) (cd : ContractData) (code : Code E)
    (hc : ch.contracts.get? addr = some cd) (hcode : contractCode? cfg cd.codeId = some code) :
    callContract cfg blk ch addr en tr =
      (let own := (ch.cstore.get? addr).getD []
       let res := code.run en (contractEnv blk addr) ch own
       let tr' := tr ++ [{ callee := addr, entry := en, env := contractEnv blk addr, note := res.2 }]
       match res.1 with
       | .ok (resp, own') =>
         if responseOk resp then (.ok (resp, { ch with cstore := ch.cstore.set addr own' }), tr') else (.err, tr')
       | .err => (.err, tr')
       | .panic => (.panic, tr')
       | .outOfFuel => (.outOfFuel, tr')) :=
  EngineB.snapshot_is_call_state cfg blk ch addr en tr cd code hc hcode

/-- The snapshot after a completed sub-message is that sub-message's result state; after a failed one
it is the state before it (C02), so no rolled-back effect is observable by a later query. -/
theorem later_calls_see_completed_effects (cfg : Config E) (blk : Block) (fuel : Nat) (ch : Chain E)
    (contract : Addr) (resp : AppResponse) (sm : SubMsg) (rest : List SubMsg) (tr tr₁ : Trace)
    (sr : AppResponse) (ch₁ : Chain E)
    (h : executeSubmsg cfg blk fuel ch contract sm tr = (.ok (sr, ch₁), tr₁)) :
    processResponse cfg blk (fuel + 1) ch contract resp (sm :: rest) tr =
      processResponse cfg blk fuel ch₁ contract
        { events := resp.events ++ sr.events, data := sr.data.orElse fun _ => resp.data } rest tr₁ :=
  EngineB.later_calls_see_completed_effects cfg blk fuel ch contract resp sm rest tr tr₁ sr ch₁ h

/-- Bank queries agree with each other on any snapshot. -/
theorem balance_is_entry_of_all (cfg : Config E) (eq : ExtKind → Chain E → Block → Val → Outcome Val)
    (blk : Block) (ch : Chain E) (a d : String) (hv : cfg.validAddr a = true) :
    query cfg eq blk ch (.balance a d) = .ok (.amount (Bank.amountOf (Bank.balance ch.bank a) d)) ∧
    query cfg eq blk ch (.allBalances a) = .ok (.coins (Bank.balance ch.bank a)) :=
  EngineB.balance_is_entry_of_all cfg eq blk ch a d hv

end CwMt.C10
