import CwMt.Proofs.EngineB
import CwMt.Proofs.EngineTx
import CwMt.Proofs.RulesVerify
/-
  C13 — Malformed contract responses are rejected before any effect is kept.
-/
namespace CwMt.C13
open CwMt
variable {E : Type}

/-- `rtrim` removes exactly the leading and trailing Unicode White_Space characters. -/
theorem trim_spec (cs : List Char) :
    ∃ pre post, cs = pre ++ trimChars cs ++ post ∧ (∀ c ∈ pre, isWhite c = true) ∧ (∀ c ∈ post, isWhite c = true) ∧
      (∀ c, (trimChars cs).head? = some c → isWhite c = false) ∧
      (∀ c, (trimChars cs).getLast? = some c → isWhite c = false) :=
  EngineB.trim_spec cs

/-- the acceptance predicate: every attribute key (on the response and on every event) is, after
trimming, non-empty and does not start with an underscore, and every event type is at least two
bytes long after trimming. Values — including empty values — never matter. -/
theorem verify_iff (r : Response) :
    responseOk r = true ↔
      ((∀ a ∈ r.attrs, KeyOK a.key) ∧
       ∀ e ∈ r.events, (∀ a ∈ e.attrs, KeyOK a.key) ∧ 2 ≤ (rtrim e.ty).utf8ByteSize) :=
  EngineB.verify_iff r

theorem values_never_matter (r : Response) (f : String → String) :
    responseOk { r with attrs := r.attrs.map fun a => { a with value := f a.value },
                        events := r.events.map fun e => { e with attrs := e.attrs.map fun a => { a with value := f a.value } } }
      = responseOk r :=
  EngineB.values_never_matter r f

/-- every entry point: a malformed response makes the call fail (with the invocation on the trace),
exactly like a contract error — and, being an error, it yields no state (C01/C02 roll it back). -/
theorem malformed_rejected (cfg : Config E) (blk : Block) (ch : Chain E) (addr : Addr) (en : Entry) (tr : Trace)
    (cd : ContractData) (code : Code E) (resp : Response) (own' : Store Val) (note : String)
    (hc : ch.contracts.get? addr = some cd) (hcode : contractCode? cfg cd.codeId = some code)
    (hrun : code.run en (contractEnv blk addr) ch ((ch.cstore.get? addr).getD []) = (.ok (resp, own'), note))
    (hbad : responseOk resp = false) :
    callContract cfg blk ch addr en tr = (.err, tr ++ [⟨addr, en, contractEnv blk addr, note⟩]) :=
  EngineB.malformed_rejected cfg blk ch addr en tr cd code resp own' note hc hcode hrun hbad

/-- same outcome as a plain contract error of that call -/
theorem rollback_as_error (cfg : Config E) (blk : Block) (ch : Chain E) (addr : Addr) (en : Entry) (tr : Trace)
    (cd : ContractData) (code : Code E) (note : String)
    (hc : ch.contracts.get? addr = some cd) (hcode : contractCode? cfg cd.codeId = some code)
    (hrun : code.run en (contractEnv blk addr) ch ((ch.cstore.get? addr).getD []) = (.err, note)) :
    callContract cfg blk ch addr en tr = (.err, tr ++ [⟨addr, en, contractEnv blk addr, note⟩]) :=
  EngineB.rollback_as_error cfg blk ch addr en tr cd code note hc hcode hrun

/-- accepted keys, values and event types surface unchanged (not trimmed) -/
theorem accepted_unchanged (addr : Addr) (custom : Event) (r : Response) :
    (∀ a ∈ r.attrs, r.attrs ≠ [] → ∃ e ∈ (buildAppResponse addr custom r).1.events, e.ty = "wasm" ∧ a ∈ e.attrs) ∧
    (∀ ev ∈ r.events, ∃ e ∈ (buildAppResponse addr custom r).1.events,
        e.ty = "wasm-" ++ ev.ty ∧ e.attrs = contractAttr addr :: ev.attrs) :=
  EngineB.accepted_unchanged addr custom r

/-- non-vacuity -/
-- PROOF CHANGED (statement unchanged): `String.startsWith` does not reduce in the kernel, so `decide`
-- fails; `simp` evaluates the string operations on the literals instead.
example : responseOk { attrs := [⟨" key ", ""⟩], events := [{ ty := "ab", attrs := [⟨"k", ""⟩] }] } = true := by
  simp [responseOk, attrOk, eventOk, rtrim, trimChars, isWhite]; decide
example : responseOk { attrs := [⟨" _key", "v"⟩] } = false := by
  simp [responseOk, attrOk, rtrim, trimChars, isWhite]
example : responseOk { events := [{ ty := " a ", attrs := [] }] } = false := by decide
example : responseOk { attrs := [⟨" ", "v"⟩] } = false := by decide

/-! ### "before any effect is kept", for the engine with in-place writes (`CwMt/Model/EngineTx.lean`)

In the Rust code `with_storage` commits the contract's writes into the enclosing storage as soon as the entry
point returns `Ok`; `verify_response` runs after that. So when the error is raised the writes of the rejected
call ARE in the storage it was handed — what makes the property true is the cache around it. -/

/-- the rejected call returns `err` with its writes in place -/
theorem imperative_malformed_writes_then_error (cfg : Config E) (d : Dirt E) (blk : Block) (ch : Chain E) (addr : Addr)
    (en : Entry) (tr : Trace) (cd : ContractData) (code : Code E) (resp : Response) (own' : Store Val) (note : String)
    (hc : ch.contracts.get? addr = some cd) (hcode : contractCode? cfg cd.codeId = some code)
    (hrun : code.run en (contractEnv blk addr) ch ((ch.cstore.get? addr).getD []) = (.ok (resp, own'), note))
    (hbad : responseOk resp = false) :
    callContractI cfg d blk ch addr en tr =
      (.err, { ch with cstore := ch.cstore.set addr own' }, tr ++ [⟨addr, en, contractEnv blk addr, note⟩]) :=
  EngineTx.malformed_writes_then_error cfg d blk ch addr en tr cd code resp own' note hc hcode hrun hbad

/-- … and the nearest enclosing `transactional` (entry point or sub-message) drops them -/
theorem imperative_malformed_dropped_by_cache (cfg : Config E) (d : Dirt E) (blk : Block) (ch : Chain E) (addr : Addr)
    (en : Entry) (tr : Trace) (cd : ContractData) (code : Code E) (resp : Response) (own' : Store Val) (note : String)
    (hc : ch.contracts.get? addr = some cd) (hcode : contractCode? cfg cd.codeId = some code)
    (hrun : code.run en (contractEnv blk addr) ch ((ch.cstore.get? addr).getD []) = (.ok (resp, own'), note))
    (hbad : responseOk resp = false) :
    transactionalI ch (callContractI cfg d blk ch addr en tr) =
      (.err, ch, tr ++ [⟨addr, en, contractEnv blk addr, note⟩]) :=
  EngineTx.malformed_dropped_by_cache cfg d blk ch addr en tr cd code resp own' note hc hcode hrun hbad

/-! ### tie T: the validation steps of the current sources (re-read on every run by checklib/tr_rules.py) -/

/-- `verify_attributes` trims key (and value, for the message only), bails on an empty and on a `_`-prefixed trimmed key;
`verify_response` applies it to the response's attributes and to every event's attributes and bails on a trimmed event
type of fewer than two bytes — the steps, in this order, that `attrOk` / `eventOk` / `responseOk` transcribe. -/
theorem validation_steps_as_modelled : Gen.Rules.verifySteps = expectedVerifySteps :=
  Rules.verify_steps_as_modelled

end CwMt.C13
