import CwMt.Proofs.EngineB
/-
  C04 — Events and response data are composed deterministically per wasmd rules.
  The composition functions of the model (`buildAppResponse`, the folding in `processResponse` /
  `executeSubmsg`, the wire encoders) are the rules themselves; the theorems pin their shape and the
  encoders' invertibility.
-/
namespace CwMt.C04
open CwMt
variable {E : Type}

/-- entry-point event, then the `wasm` event iff the contract set attributes (contract address
first), then each custom event renamed `wasm-<type>` with the contract address as first attribute;
data and messages passed through. -/
theorem events_of_call (addr : Addr) (custom : Event) (r : Response) :
    (buildAppResponse addr custom r).1.events =
      custom ::
        ((if r.attrs.isEmpty then [] else [{ ty := "wasm", attrs := contractAttr addr :: r.attrs }]) ++
          r.events.map fun ev => { ty := "wasm-" ++ ev.ty, attrs := contractAttr addr :: ev.attrs }) ∧
    (buildAppResponse addr custom r).1.data = r.data ∧ (buildAppResponse addr custom r).2 = r.msgs :=
  EngineB.events_of_call addr custom r

/-- events of a successful sub-message are followed by those of its reply; data is the reply's. -/
theorem sub_events_then_reply_events (cfg : Config E) (blk : Block) (fuel : Nat) (ch ch₁ ch₂ : Chain E)
    (contract : Addr) (sm : SubMsg) (tr tr₁ tr₂ : Trace) (r rr : AppResponse)
    (h : execute cfg blk fuel ch contract sm.msg tr = (.ok (r, ch₁), tr₁))
    (hw : wantsReplyOnOk sm.replyOn = true)
    (hr : reply cfg blk fuel ch₁ contract ⟨sm.id, sm.payload, .ok r.events r.data⟩ tr₁ = (.ok (rr, ch₂), tr₂)) :
    executeSubmsg cfg blk (fuel + 1) ch contract sm tr =
      (.ok ({ events := r.events ++ rr.events, data := rr.data }, ch₂), tr₂) :=
  EngineB.sub_events_then_reply_events cfg blk fuel ch ch₁ ch₂ contract sm tr tr₁ tr₂ r rr h hw hr

/-- a sub-message whose reply is not invoked contributes its events and no data -/
theorem no_reply_no_data (cfg : Config E) (blk : Block) (fuel : Nat) (ch ch₁ : Chain E)
    (contract : Addr) (sm : SubMsg) (tr tr₁ : Trace) (r : AppResponse)
    (h : execute cfg blk fuel ch contract sm.msg tr = (.ok (r, ch₁), tr₁))
    (hw : wantsReplyOnOk sm.replyOn = false) :
    executeSubmsg cfg blk (fuel + 1) ch contract sm tr = (.ok ({ events := r.events, data := none }, ch₁), tr₁) :=
  EngineB.no_reply_no_data cfg blk fuel ch ch₁ contract sm tr tr₁ r h hw

/-- a caught failure contributes only the reply's events (those of the failed sub-message are dropped) -/
theorem caught_failure_events (cfg : Config E) (blk : Block) (fuel : Nat) (ch : Chain E)
    (contract : Addr) (sm : SubMsg) (tr tr₁ : Trace)
    (h : execute cfg blk fuel ch contract sm.msg tr = (.err, tr₁))
    (hw : wantsReplyOnErr sm.replyOn = true) :
    executeSubmsg cfg blk (fuel + 1) ch contract sm tr =
      reply cfg blk fuel ch contract ⟨sm.id, sm.payload, .err⟩ tr₁ :=
  EngineB.caught_failure_events cfg blk fuel ch contract sm tr tr₁ h hw

/-- BankMsg::Send yields exactly one `transfer` event (recipient, sender, amount); burn yields none. -/
theorem bank_event (ch ch' : Chain E) (sender : Addr) (to : String) (amount : Coins) (r : AppResponse)
    (h : bankExecute ch sender (.bankSend to amount) = .ok (r, ch')) :
    r = { events := [{ ty := "transfer", attrs := [⟨"recipient", to⟩, ⟨"sender", sender⟩,
            ⟨"amount", coinsToString amount⟩] }], data := none } :=
  EngineB.bank_event ch ch' sender to amount r h

theorem burn_no_event (ch ch' : Chain E) (sender : Addr) (amount : Coins) (r : AppResponse)
    (h : bankExecute ch sender (.bankBurn amount) = .ok (r, ch')) : r = {} :=
  EngineB.burn_no_event ch ch' sender amount r h

/-! ### the wire encodings are invertible (so "present but empty" is not confused with "absent" by
the encoder: `Some []` encodes to the empty message and decodes to empty data) -/

theorem varint_roundtrip (n : Nat) (rest : List UInt8) (h : n < 128 ^ 10) :
    unvarint (varint n ++ rest) = some (n, rest) := EngineB.varint_roundtrip n rest h

theorem execute_response_roundtrip (d : List UInt8) (h : d.length < 128 ^ 10) :
    decodeExecuteResponse (encodeExecuteResponse d) = some d := EngineB.execute_response_roundtrip d h

theorem instantiate_response_roundtrip (addr : String) (d : List UInt8)
    (ha : addr.toUTF8.toList.length < 128 ^ 10) (hd : d.length < 128 ^ 10) :
    decodeInstantiateResponse (encodeInstantiateResponse addr d) = some (addr.toUTF8.toList, d) :=
  EngineB.instantiate_response_roundtrip addr d ha hd

end CwMt.C04
