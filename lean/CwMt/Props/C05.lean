import CwMt.Proofs.EngineInv
import CwMt.Proofs.Engine
/-
  C05 — Contracts see the true caller, own address, current block and attached funds.
  Stated against the ghost invocation trace.
-/
namespace CwMt.C05
open CwMt
variable {E : Type}

/-- Every sender a contract is told during the execution of a message is the account that sent that
message or a contract that was invoked earlier in the same execution: there is no path that takes
the sender from message contents. -/
theorem sender_authentic (cfg : Config E) (blk : Block) (fuel : Nat) (ch : Chain E) (sender : Addr)
    (m : Msg) (tr : Trace) (new : Trace)
    (h : (execute cfg blk fuel ch sender m tr).2 = tr ++ new) : SendersFrom sender new :=
  Engine.sender_authentic cfg blk fuel ch sender m tr new h

/-- The direct callee of a top-level (or any) wasm execute message is told exactly the message's
sender and funds. -/
theorem direct_callee_sees_sender_and_funds (cfg : Config E) (blk : Block) (fuel : Nat) (ch : Chain E)
    (sender : Addr) (c : String) (msg : Val) (funds : Coins) (tr : Trace) (new : Trace) (e : TraceEntry)
    (h : (execute cfg blk fuel ch sender (.wasmExecute c msg funds) tr).2 = tr ++ new)
    (he : new.head? = some e) :
    e.callee = c ∧ e.entry = .execute ⟨sender, funds⟩ msg :=
  Engine.direct_callee cfg blk fuel ch sender c msg funds tr new e h he

/-- Every invocation (all five entry points) is shown the callee's own address and the block of the
transaction. -/
theorem env_authentic (cfg : Config E) (blk : Block) (fuel : Nat) (ch : Chain E) (sender : Addr)
    (m : Msg) (tr : Trace) (new : Trace)
    (h : (execute cfg blk fuel ch sender m tr).2 = tr ++ new) : ∀ e ∈ new, EnvOK blk e :=
  Engine.env_authentic cfg blk fuel ch sender m tr new h

/-- Funds are moved before the contract runs: the callee is invoked on `ch₁`, the state in which the
transfer from the sender has already happened (and its snapshot for queries is that state). -/
theorem funds_moved_first (cfg : Config E) (blk : Block) (fuel : Nat) (ch ch₁ : Chain E) (sender : Addr)
    (c : String) (msg : Val) (funds : Coins) (tr : Trace)
    (hv : cfg.validAddr c = true) (hs : sendFunds ch sender c funds = .ok ch₁) :
    execute cfg blk (fuel + 1) ch sender (.wasmExecute c msg funds) tr =
      (match callContract cfg blk ch₁ c (.execute ⟨sender, funds⟩ msg) tr with
       | (.ok (resp, ch₂), tr₁) =>
         (match processResponse cfg blk fuel ch₂ c
             (buildAppResponse c { ty := "execute", attrs := [contractAttr c] } resp).1
             (buildAppResponse c { ty := "execute", attrs := [contractAttr c] } resp).2 tr₁ with
          | (.ok (r, ch₃), tr₂) => (.ok ({ r with data := r.data.map encodeExecuteResponse }, ch₃), tr₂)
          | other => other)
       | (.err, tr₁) => (.err, tr₁)
       | (.panic, tr₁) => (.panic, tr₁)
       | (.outOfFuel, tr₁) => (.outOfFuel, tr₁)) ∧
      (funds ≠ [] → Bank.send ch.bank sender c funds = some ch₁.bank) :=
  Engine.funds_moved_first cfg blk fuel ch ch₁ sender c msg funds tr hv hs

/-- Attaching more than the sender owns fails without running the contract. -/
theorem insufficient_funds_no_call (cfg : Config E) (blk : Block) (fuel : Nat) (ch : Chain E) (sender : Addr)
    (c : String) (msg : Val) (funds : Coins) (tr : Trace)
    (hne : funds ≠ []) (hs : Bank.send ch.bank sender c funds = none) :
    execute cfg blk (fuel + 1) ch sender (.wasmExecute c msg funds) tr = (.err, tr) :=
  Engine.insufficient_funds_no_call cfg blk fuel ch sender c msg funds tr hne hs

end CwMt.C05

/-! ### the funds really arrive -/
namespace CwMt.C05
open CwMt

/-- When funds are attached (sender ≠ callee) the state the callee runs on shows, for every
denomination, the callee's balance raised and the sender's lowered by exactly the attached total. -/
theorem funds_arrive {E : Type} (ch ch₁ : Chain E) (sender : Addr) (c : String) (funds : Coins)
    (hinv : Bank.NormInv ch.bank) (hne : sender ≠ c) (hf : funds ≠ [])
    (hs : sendFunds ch sender c funds = .ok ch₁) :
    ∀ d, Bank.queryBalance ch₁.bank c d = Bank.queryBalance ch.bank c d + Bank.totalOf funds d ∧
         Bank.queryBalance ch₁.bank sender d + Bank.totalOf funds d = Bank.queryBalance ch.bank sender d :=
  EngineInv.funds_arrive ch ch₁ sender c funds hinv hne hf hs

end CwMt.C05
