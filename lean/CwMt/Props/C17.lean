import CwMt.Model.Route
import CwMt.Gen.Router
import CwMt.Gen.Lift
import CwMt.Proofs.Engine
import CwMt.Proofs.EngineB
/-
  C17 — Every message and query reaches exactly the module configured for it.
  Property theorems only. They are stated over the tables that checklib/tr_router.py regenerates from
  /repo/src/app.rs (`impl CosmosRouter for Router`) and /repo/src/contracts.rs (`customize_msg`) on
  every run (tie T), with the hand-written semantics of a Rust `match` in CwMt/Model/Route.lean:
  `route fs table k` = the first arm enabled under the feature set `fs` whose pattern is variant `k`,
  else the wildcard arm. `.call m meth args true` says: receiver field `self.m`, method `meth`, the
  argument list `args` (context handed on; `sender`; the pattern's variables `bound i` as plain
  identifiers, i.e. sender and payload intact), and the arm body is exactly that call, so the module's
  `Ok`/`Err` is what the caller sees.

  `FeatureSet.harness` is the configuration the correspondence harness is compiled with
  (staking, stargate, cosmwasm_2_2). The `_features` versions cover every feature combination.
  Routing of *sub-messages* through the same `Router::execute` with the emitting contract as sender, and
  rollback after a failing module, are engine facts (C02/C05). At the end of this file two of them are
  restated over the engine model (`ext_message_reaches_module_intact`,
  `migrate_submessages_sent_by_contract`); on the real code they are covered by the correspondence ops
  `send-sub-from ENTRY native|lifted …` (every entry point: instantiate, execute, migrate, sudo, reply)
  and the predicate, which demands the emitting contract as sender of every record.
-/
namespace CwMt.C17
open CwMt.Route CwMt.Gen

/-- Every message kind has exactly one arm, and it hands context, sender and payload unchanged to the
module slot of that kind and returns its result. -/
theorem exec_routes (k : Kind) (hk : k ∈ execKinds) :
    route .harness Router.execTable k = .call k.module (execMethod k) (execArgs k) true ∧
    armCount Router.execTable k = 1 :=
  (by decide : ∀ k ∈ execKinds, route .harness Router.execTable k = .call k.module (execMethod k) (execArgs k) true ∧
    armCount Router.execTable k = 1) k hk

example : Kind.gov ∈ execKinds ∧ Kind.any ∈ execKinds := by decide

/-- Under any feature combination: routed as above when the kind's feature is on, otherwise the
wildcard arm (`bail!`, i.e. an error, never another module). -/
theorem exec_routes_features (fs : FeatureSet) (k : Kind) (hk : k ∈ execKinds) :
    route fs Router.execTable k =
      if fs.has k.feature then .call k.module (execMethod k) (execArgs k) true else .fall .bail := by
  rcases fs with ⟨_ | _, _ | _, _ | _⟩ <;>
    exact (by decide : ∀ k ∈ execKinds, route _ Router.execTable k =
      if FeatureSet.has _ k.feature then .call k.module (execMethod k) (execArgs k) true else .fall .bail) k hk

/-- Query kinds the router has a module slot for (R3): one arm each, request passed on unchanged
together with the router's own querier, result returned as is. -/
theorem query_routes (k : Kind) (hk : k ∈ queryKinds) :
    route .harness Router.queryTable k = .call k.module (queryMethod k) (queryArgs k) true ∧
    armCount Router.queryTable k = 1 :=
  (by decide : ∀ k ∈ queryKinds, route .harness Router.queryTable k = .call k.module (queryMethod k) (queryArgs k) true ∧
    armCount Router.queryTable k = 1) k hk

example : Kind.grpc ∈ queryKinds := by decide

theorem query_routes_features (fs : FeatureSet) (k : Kind) (hk : k ∈ queryKinds) :
    route fs Router.queryTable k =
      if fs.has k.feature then .call k.module (queryMethod k) (queryArgs k) true else .fall .unimplemented := by
  rcases fs with ⟨_ | _, _ | _, _ | _⟩ <;>
    exact (by decide : ∀ k ∈ queryKinds, route _ Router.queryTable k =
      if FeatureSet.has _ k.feature then .call k.module (queryMethod k) (queryArgs k) true else .fall .unimplemented) k hk

/-- `QueryRequest::Distribution` has no module slot: it takes the wildcard arm (`unimplemented!()`) and
reaches no module (R3: outside the property, but it must not reach a *wrong* module). -/
theorem query_distribution_reaches_no_module (fs : FeatureSet) :
    route fs Router.queryTable .distribution = .fall .unimplemented := by
  rcases fs with ⟨_ | _, _ | _, _ | _⟩ <;> decide

/-- Privileged messages: wasm, bank, staking. -/
theorem sudo_routes (k : Kind) (hk : k ∈ sudoKinds) :
    route .harness Router.sudoTable k = .call k.module .sudo (sudoArgs k) true ∧
    armCount Router.sudoTable k = 1 :=
  (by decide : ∀ k ∈ sudoKinds, route .harness Router.sudoTable k = .call k.module .sudo (sudoArgs k) true ∧
    armCount Router.sudoTable k = 1) k hk

example : Kind.staking ∈ sudoKinds := by decide

theorem sudo_routes_features (fs : FeatureSet) (k : Kind) (hk : k ∈ sudoKinds) :
    route fs Router.sudoTable k =
      if fs.has k.feature then .call k.module .sudo (sudoArgs k) true else .fall .unimplemented := by
  rcases fs with ⟨_ | _, _ | _, _ | _⟩ <;>
    exact (by decide : ∀ k ∈ sudoKinds, route _ Router.sudoTable k =
      if FeatureSet.has _ k.feature then .call k.module .sudo (sudoArgs k) true else .fall .unimplemented) k hk

/-- Lifting a sub-message of an `Empty`-typed contract into the chain's message type keeps its kind
and passes the payload through unchanged — for every kind except `custom` (R3). Full strength: the
`Gov` and `Stargate` arms exist since the D4 fix. -/
theorem lift_preserves_kind (k : Kind) (hk : k ∈ execKinds) (hc : k ≠ .custom) :
    lift .harness Lift.table k = .msg k true ∧ liftArmCount Lift.table k = 1 :=
  (by decide : ∀ k ∈ execKinds, k ≠ .custom →
    (lift .harness Lift.table k = .msg k true ∧ liftArmCount Lift.table k = 1)) k hk hc

example : Kind.gov ∈ execKinds ∧ Kind.gov ≠ Kind.custom ∧ Kind.stargate ∈ execKinds ∧ Kind.stargate ≠ Kind.custom := by decide

theorem lift_preserves_kind_features (fs : FeatureSet) (k : Kind) (hk : k ∈ execKinds) (hc : k ≠ .custom)
    (hf : fs.has k.feature = true) : lift fs Lift.table k = .msg k true := by
  rcases fs with ⟨_ | _, _ | _, _ | _⟩ <;>
    exact (by decide : ∀ k ∈ execKinds, k ≠ .custom → FeatureSet.has _ k.feature = true →
      lift _ Lift.table k = .msg k true) k hk hc hf

/-- The rest of the sub-message (id, payload, gas limit, reply mode) is carried over as it is. -/
theorem lift_keeps_envelope (f : SubField) (hf : f ∈ [SubField.id, .payload, .gas_limit, .reply_on]) :
    subFieldKept Lift.table f = true :=
  (by decide : ∀ f ∈ [SubField.id, .payload, .gas_limit, .reply_on], subFieldKept Lift.table f = true) f hf

/-- R3: `CosmosMsg::Custom(Empty)` of an `Empty`-typed contract cannot be lifted: `unreachable!()`. -/
theorem lift_custom_excluded (fs : FeatureSet) : lift fs Lift.table .custom = .diverge .unreachable := by
  rcases fs with ⟨_ | _, _ | _, _ | _⟩ <;> decide

end CwMt.C17

/-! ### sub-messages: the emitting entry point does not matter -/
namespace CwMt.C17
open CwMt.Route CwMt.Gen

/-- In the routing model a sub-message returned by contract `c` is dispatched exactly like a top-level
message of the same kind, with `c` as sender, whichever entry point (instantiate, execute, migrate,
sudo, reply) returned it. (By construction of `subDispatch`; that the wasm module of the real code hands
the contract address to the router in all five wrappers is what the two engine theorems below and the
`send-sub-from` correspondence ops are for.) -/
theorem sub_dispatch_entry_independent {A : Type} (fs : FeatureSet) (o₁ o₂ : Origin) (c : A) (k : Kind) :
    subDispatch fs Router.execTable o₁ c k = subDispatch fs Router.execTable o₂ c k ∧
    (subDispatch fs Router.execTable o₁ c k).sender = c ∧
    (subDispatch fs Router.execTable o₁ c k).target = route fs Router.execTable k :=
  ⟨rfl, rfl, rfl⟩

end CwMt.C17

/-! ### the same two facts over the engine model (CwMt/Model/Engine.lean) -/
namespace CwMt.C17
open CwMt
variable {E : Type}

/-- A message for a non-wasm, non-bank module (`.ext kind payload`: custom, staking, distribution, ibc,
gov, stargate/any) is handed to that module's handler with the sender and the payload it was sent with,
and the handler's outcome is the outcome; this holds at every nesting depth, because `execute` is what
`executeSubmsg` calls for sub-messages. -/
theorem ext_message_reaches_module_intact (cfg : Config E) (blk : Block) (fuel : Nat) (ch : Chain E)
    (sender : Addr) (kind : ExtKind) (payload : Val) (tr : Trace) :
    execute cfg blk (fuel + 1) ch sender (.ext kind payload) tr = (cfg.extExec kind ch blk sender payload, tr) :=
  Engine.execute_succ_ext cfg blk fuel ch sender kind payload tr

/-- `migrate`: the sub-messages of the response are processed with the migrated CONTRACT `c` as
dispatcher (fourth argument of `processResponse`), not with the admin `sender` who signed the
migration — the unfolding of the `wasmMigrate` arm for a permitted migration. -/
theorem migrate_submessages_sent_by_contract (cfg : Config E) (blk : Block) (fuel : Nat) (ch : Chain E)
    (sender : Addr) (c : String) (n : Nat) (m : Val) (tr : Trace) (cd : ContractData)
    (hv : cfg.validAddr c = true) (hk : codeKnown cfg n = true)
    (hc : ch.contracts.get? c = some cd) (ha : cd.admin = some sender) :
    execute cfg blk (fuel + 1) ch sender (.wasmMigrate c n m) tr =
      (match callContract cfg blk { ch with contracts := ch.contracts.set c { cd with codeId := n } } c (.migrate m) tr with
       | (.ok (resp, ch₂), tr₁) =>
         (match processResponse cfg blk fuel ch₂ c
             (buildAppResponse c { ty := "migrate", attrs := [contractAttr c, ⟨"code_id", toString n⟩] } resp).1
             (buildAppResponse c { ty := "migrate", attrs := [contractAttr c, ⟨"code_id", toString n⟩] } resp).2 tr₁ with
          | (.ok (r, ch₃), tr₂) => (.ok ({ r with data := r.data.map encodeExecuteResponse }, ch₃), tr₂)
          | other => other)
       | (.err, tr₁) => (.err, tr₁)
       | (.panic, tr₁) => (.panic, tr₁)
       | (.outOfFuel, tr₁) => (.outOfFuel, tr₁)) :=
  (EngineB.migrate_runs_new_code cfg blk fuel ch sender c n m tr cd hv hk hc ha).2.2

end CwMt.C17
