import CwMt.Proofs.Engine
import CwMt.Proofs.EngineTx
import CwMt.Proofs.TxSites
import CwMt.Proofs.Executor
import CwMt.Proofs.Layout
import CwMt.Proofs.Json
import CwMt.Proofs.FlatChain
/-
  C01 — Top-level transactions are atomic: all-or-nothing, in order.
  Model: CwMt/Model/Engine.lean (`App.executeMulti`, `App.execute`, `App.sudo`, `App.wasmSudo`,
  `App.runMsgs`). The engine is written in value semantics (a state is produced only on `ok`), which
  C06 (`client` of the overlay = ordered map) and the correspondence harness justify for the real
  write-cache machinery; the theorems below are what a caller of the four entry points can rely on,
  for every chain state, every contract behaviour (contracts are arbitrary functions), every module
  behaviour and every fuel value.
-/
namespace CwMt.C01
open CwMt
variable {E : Type}

/-! ### all-or-nothing -/

theorem atomic_execute_multi (cfg : Config E) (blk : Block) (fuel : Nat) (ch : Chain E) (sender : Addr)
    (msgs : List Msg) (r : Outcome (List AppResponse)) (ch' : Chain E) (tr : Trace)
    (h : App.executeMulti cfg blk fuel ch sender msgs = (r, ch', tr)) (hr : r.isOk = false) : ch' = ch :=
  Engine.atomic_execute_multi cfg blk fuel ch sender msgs r ch' tr h hr

theorem atomic_execute (cfg : Config E) (blk : Block) (fuel : Nat) (ch : Chain E) (sender : Addr)
    (m : Msg) (r : Outcome AppResponse) (ch' : Chain E) (tr : Trace)
    (h : App.execute cfg blk fuel ch sender m = (r, ch', tr)) (hr : r.isOk = false) : ch' = ch :=
  Engine.atomic_execute cfg blk fuel ch sender m r ch' tr h hr

theorem atomic_sudo (cfg : Config E) (blk : Block) (fuel : Nat) (ch : Chain E) (m : SudoMsg)
    (r : Outcome AppResponse) (ch' : Chain E) (tr : Trace)
    (h : App.sudo cfg blk fuel ch m = (r, ch', tr)) (hr : r.isOk = false) : ch' = ch :=
  Engine.atomic_sudo cfg blk fuel ch m r ch' tr h hr

theorem atomic_wasm_sudo (cfg : Config E) (blk : Block) (fuel : Nat) (ch : Chain E) (c : Addr) (m : Val)
    (r : Outcome AppResponse) (ch' : Chain E) (tr : Trace)
    (h : App.wasmSudo cfg blk fuel ch c m = (r, ch', tr)) (hr : r.isOk = false) : ch' = ch :=
  Engine.atomic_wasm_sudo cfg blk fuel ch c m r ch' tr h hr

/-- On `ok` nothing is dropped: the persisted state is the state the whole message list computed. -/
theorem ok_persists (cfg : Config E) (blk : Block) (fuel : Nat) (ch : Chain E) (sender : Addr)
    (msgs : List Msg) (rs : List AppResponse) (ch' : Chain E) (tr : Trace)
    (h : App.executeMulti cfg blk fuel ch sender msgs = (.ok rs, ch', tr)) :
    App.runMsgs cfg blk fuel ch sender msgs [] = (.ok (rs, ch'), tr) :=
  Engine.ok_persists cfg blk fuel ch sender msgs rs ch' tr h

/-! ### in order, each seeing its predecessors' effects, one response per message -/

theorem multi_length (cfg : Config E) (blk : Block) (fuel : Nat) (ch : Chain E) (sender : Addr)
    (msgs : List Msg) (tr : Trace) (rs : List AppResponse) (ch' : Chain E) (tr' : Trace)
    (h : App.runMsgs cfg blk fuel ch sender msgs tr = (.ok (rs, ch'), tr')) : rs.length = msgs.length :=
  Engine.multi_length cfg blk fuel ch sender msgs tr rs ch' tr' h

/-- Running `ms₁ ++ ms₂` is running `ms₁`, then `ms₂` on the resulting state (responses concatenated). -/
theorem multi_in_order_ok (cfg : Config E) (blk : Block) (fuel : Nat) (ch : Chain E) (sender : Addr)
    (ms₁ ms₂ : List Msg) (tr : Trace) (rs₁ : List AppResponse) (ch₁ : Chain E) (tr₁ : Trace)
    (h : App.runMsgs cfg blk fuel ch sender ms₁ tr = (.ok (rs₁, ch₁), tr₁)) :
    App.runMsgs cfg blk fuel ch sender (ms₁ ++ ms₂) tr =
      (match App.runMsgs cfg blk fuel ch₁ sender ms₂ tr₁ with
       | (.ok (rs₂, ch₂), tr₂) => (.ok (rs₁ ++ rs₂, ch₂), tr₂)
       | (.err, tr₂) => (.err, tr₂)
       | (.panic, tr₂) => (.panic, tr₂)
       | (.outOfFuel, tr₂) => (.outOfFuel, tr₂)) :=
  Engine.multi_in_order_ok cfg blk fuel ch sender ms₁ ms₂ tr rs₁ ch₁ tr₁ h

/-- The first failing message aborts the whole list with that failure. -/
theorem multi_first_error_aborts (cfg : Config E) (blk : Block) (fuel : Nat) (ch : Chain E) (sender : Addr)
    (ms₁ ms₂ : List Msg) (tr : Trace) (o : Outcome (List AppResponse × Chain E)) (tr₁ : Trace)
    (h : App.runMsgs cfg blk fuel ch sender ms₁ tr = (o, tr₁)) (ho : o.isOk = false) :
    App.runMsgs cfg blk fuel ch sender (ms₁ ++ ms₂) tr = (o, tr₁) :=
  Engine.multi_first_error_aborts cfg blk fuel ch sender ms₁ ms₂ tr o tr₁ h ho

/-! ### the fuel of the model is an artefact: once a result is reached, more fuel changes nothing -/

theorem fuel_irrelevant (cfg : Config E) (blk : Block) (fuel k : Nat) (ch : Chain E) (sender : Addr)
    (m : Msg) (tr : Trace) (r : Outcome (AppResponse × Chain E)) (tr' : Trace)
    (h : execute cfg blk fuel ch sender m tr = (r, tr')) (hr : r ≠ .outOfFuel) :
    execute cfg blk (fuel + k) ch sender m tr = (r, tr') :=
  Engine.fuel_mono_execute cfg blk fuel k ch sender m tr r tr' h hr

/-! ### the same entry points as the Rust code runs them: writing as they go, returning early on `Err`

`CwMt/Model/EngineTx.lean` is the engine with in-place writes: a failing step leaves whatever it (or
anything before it) had already written in the storage it was handed, and only `transactional` — at
the entry point, around every sub-message and around every contract call — ever drops writes. `Dirt`
(what failing contracts and modules leave behind) is arbitrary. -/

/-- `App::execute_multi` run imperatively gives exactly the outcome, the trace **and the persisted
state** of the value-semantics engine, whatever was written before the failure. -/
theorem imperative_execute_multi (cfg : Config E) (d : Dirt E) (blk : Block) (fuel : Nat) (ch : Chain E)
    (sender : Addr) (msgs : List Msg) :
    AppI.executeMulti cfg d blk fuel ch sender msgs = App.executeMulti cfg blk fuel ch sender msgs :=
  EngineTx.executeMulti_eq cfg d blk fuel ch sender msgs

theorem imperative_sudo (cfg : Config E) (d : Dirt E) (blk : Block) (fuel : Nat) (ch : Chain E) (m : SudoMsg) :
    AppI.sudo cfg d blk fuel ch m = App.sudo cfg blk fuel ch m :=
  EngineTx.sudo_eq cfg d blk fuel ch m

theorem imperative_wasm_sudo (cfg : Config E) (d : Dirt E) (blk : Block) (fuel : Nat) (ch : Chain E)
    (c : Addr) (m : Val) :
    AppI.wasmSudo cfg d blk fuel ch c m = App.wasmSudo cfg blk fuel ch c m :=
  EngineTx.wasmSudo_eq cfg d blk fuel ch c m

/-- All-or-nothing for the imperative engine: a failed `execute_multi` persists nothing, although the
loop inside it did write (see `dirt_is_real`). -/
theorem imperative_atomic (cfg : Config E) (d : Dirt E) (blk : Block) (fuel : Nat) (ch : Chain E)
    (sender : Addr) (msgs : List Msg) (r : Outcome (List AppResponse)) (ch' : Chain E) (tr : Trace)
    (h : AppI.executeMulti cfg d blk fuel ch sender msgs = (r, ch', tr)) (hr : r.isOk = false) : ch' = ch :=
  EngineTx.imperative_atomic cfg d blk fuel ch sender msgs r ch' tr h hr

/-- The message loop without its enclosing `transactional` is *not* atomic: a message list whose second
message fails returns `err` with the first message's transfer still in the storage. (Non-vacuity of the
theorems above: the dirt they discard exists.) -/
theorem dirt_is_real :
    ∃ (cfg : Config Unit) (d : Dirt Unit) (blk : Block) (fuel : Nat) (ch : Chain Unit) (sender : Addr)
      (msgs : List Msg) (ch' : Chain Unit) (tr : Trace),
      AppI.runMsgsI cfg d blk fuel ch sender msgs [] = (.err, ch', tr) ∧ ch'.bank ≠ ch.bank :=
  EngineTx.dirt_is_real

/-- Tie to the sources (regenerated on every run by checklib/tr_tx.py): non-test code of app.rs / wasm.rs
creates write caches at exactly the places where `CwMt/Model/EngineTx.lean` has `transactionalI` — the three
entry points, once around every sub-message (with both `reply` calls outside, on the dispatcher's storage)
and once around every contract call (the querier reading the storage beneath). -/
theorem tx_sites_as_modelled : Gen.Tx.sites = expectedTxSites :=
  TxSites.sites_as_modelled


/-! ### the `Executor` helpers built on `execute` (executor.rs)

`instantiate_contract`, `instantiate2_contract` and `execute_contract` parse the response data AFTER `execute` has
committed the transaction; `migrate_contract` and `send_tokens` are `execute` of one message. The parsers are
the cw-utils ones transcribed in `CwMt/Model/Executor.lean`; they accept everything the encoders of
`CwMt/Model/Wire.lean` produce (for responses shorter than 2^63 bytes and a non-empty contract address), so a
helper that does not return `Ok` has persisted nothing. -/

theorem helper_instantiate_atomic (cfg : Config E) (hg : ExecutorP.GenNonEmpty cfg) (blk : Block) (fuel : Nat)
    (ch : Chain E) (s : Addr) (codeId : Nat) (m : Val) (funds : Coins) (label : String) (admin : Option String)
    (salt : Option Val)
    (hsize : ∀ r c t, App.execute cfg blk fuel ch s (.wasmInstantiate admin codeId m funds label salt) = (.ok r, c, t) →
      (r.data.getD []).length < 128 ^ 9)
    (o : Outcome (List UInt8)) (ch' : Chain E) (tr : Trace)
    (h : Executor.instantiateContract cfg blk fuel ch s codeId m funds label admin salt = (o, ch', tr))
    (ho : o.isOk = false) : ch' = ch :=
  ExecutorP.instantiate_contract_atomic cfg hg blk fuel ch s codeId m funds label admin salt hsize o ch' tr h ho

theorem helper_instantiate_returns_address (cfg : Config E) (hg : ExecutorP.GenNonEmpty cfg) (blk : Block) (fuel : Nat)
    (ch : Chain E) (s : Addr) (codeId : Nat) (m : Val) (funds : Coins) (label : String) (admin : Option String)
    (salt : Option Val)
    (hsize : ∀ r c t, App.execute cfg blk fuel ch s (.wasmInstantiate admin codeId m funds label salt) = (.ok r, c, t) →
      (r.data.getD []).length < 128 ^ 9)
    (a : List UInt8) (ch' : Chain E) (tr : Trace)
    (h : Executor.instantiateContract cfg blk fuel ch s codeId m funds label admin salt = (.ok a, ch', tr)) :
    ∃ addr ch₀ r, registerContract cfg ch codeId s admin label blk.height salt = .ok (addr, ch₀) ∧
      a = addr.toUTF8.toList ∧
      App.execute cfg blk fuel ch s (.wasmInstantiate admin codeId m funds label salt) = (.ok r, ch', tr) :=
  ExecutorP.instantiate_contract_returns_address cfg hg blk fuel ch s codeId m funds label admin salt hsize a ch' tr h

theorem helper_execute_atomic (cfg : Config E) (blk : Block) (fuel : Nat) (ch : Chain E) (s : Addr)
    (contract : String) (m : Val) (funds : Coins)
    (hsize : ∀ r c t, App.execute cfg blk fuel ch s (.wasmExecute contract m funds) = (.ok r, c, t) →
      (r.data.getD []).length < 128 ^ 9)
    (o : Outcome AppResponse) (ch' : Chain E) (tr : Trace)
    (h : Executor.executeContract cfg blk fuel ch s contract m funds = (o, ch', tr)) (ho : o.isOk = false) :
    ch' = ch :=
  ExecutorP.execute_contract_atomic cfg blk fuel ch s contract m funds hsize o ch' tr h ho

theorem helper_migrate_atomic (cfg : Config E) (blk : Block) (fuel : Nat) (ch : Chain E) (s : Addr)
    (contract : String) (m : Val) (newCodeId : Nat) (o : Outcome AppResponse) (ch' : Chain E) (tr : Trace)
    (h : Executor.migrateContract cfg blk fuel ch s contract m newCodeId = (o, ch', tr)) (ho : o.isOk = false) :
    ch' = ch :=
  Engine.atomic_execute cfg blk fuel ch s _ o ch' tr h ho

theorem helper_send_tokens_atomic (cfg : Config E) (blk : Block) (fuel : Nat) (ch : Chain E) (s : Addr)
    (recipient : String) (amount : Coins) (o : Outcome AppResponse) (ch' : Chain E) (tr : Trace)
    (h : Executor.sendTokens cfg blk fuel ch s recipient amount = (o, ch', tr)) (ho : o.isOk = false) :
    ch' = ch :=
  Engine.atomic_execute cfg blk fuel ch s _ o ch' tr h ho

/-- The non-emptiness hypothesis is needed, not a convenience: with an empty contract address (only a custom
`AddressGenerator` can hand one out) and non-empty data, the encoder omits field 1 and the cw-utils parser rejects
the response of the already committed transaction. Replayed on the real code (DESIGN.md 0.7): `instantiate_contract`
returns `Err("… invalid field #2 for field #1")` and the storage has changed. -/
theorem helper_instantiate_needs_nonempty_address :
    parseInstantiateResponseData (encodeInstantiateResponse "" [120]) = none := by
  unfold encodeInstantiateResponse
  rw [show ("" : String) = String.ofList [] from rfl, Layout.utf8_ofList]
  decide

/-- the parsers accept what the encoders produce (statement used above; non-vacuity on a concrete response) -/
example : parseInstantiateResponseData (encodeInstantiateResponse "c0" [1, 2]) = some ([99, 48], some [1, 2]) := by
  unfold encodeInstantiateResponse
  rw [show ("c0" : String) = String.ofList ['c', '0'] from rfl, Layout.utf8_ofList]
  decide
example : parseExecuteResponseData (encodeExecuteResponse []) = some none := by decide

/-! ### "every byte of storage": the typed state and the bytes kept in the store

The model's chain state is typed (balances, `ContractData`); the root storage holds their JSON text (`cosmwasm_std::to_json_vec` =
serde-json-wasm). `CwMt/Model/Json.lean` transcribes that text and `CwMt/Model/Flat.lean` lists the raw records of a state; the wasm
slices compare them byte for byte with the real root storage (`rawdump`). The theorems below say that nothing is lost in between:
the text reads back as the record it was printed from — for every denomination, label and address string, including quotes,
backslashes, control characters and non-ASCII text — so equal bytes in the store mean equal typed state and vice versa. -/

/-- a stored balance reads back -/
theorem json_balances_roundtrip (cs : Coins) (rest : List Char) :
    Json.parseBalances (Json.balances cs ++ rest) = some (cs, rest) :=
  Json.parseBalances_balances cs rest

/-- a stored `ContractData` reads back -/
theorem json_contract_roundtrip (cd : ContractData) (rest : List Char) :
    Json.parseContract (Json.contract cd ++ rest) = some (cd, rest) :=
  Json.parseContract_contract cd rest

/-- equal bytes under a bank key ⇒ equal balances -/
theorem stored_balance_bytes_injective {a b : Coins} (h : Json.balancesJson a = Json.balancesJson b) : a = b :=
  Json.balances_injective (Json.toBytes_injective h)

/-- equal bytes under a registry key ⇒ equal contract records -/
theorem stored_contract_bytes_injective {a b : ContractData} (h : Json.contractJson a = Json.contractJson b) : a = b :=
  Json.contract_injective (Json.toBytes_injective h)

/-- not vacuous: a balance with an awkward denomination and a contract without admin -/
example : (Json.parseBalances (Json.balances [⟨"d\"\n", 5⟩, ⟨"é", 0⟩])).map (·.1) = some [⟨"d\"\n", 5⟩, ⟨"é", 0⟩] := by
  rw [← List.append_nil (Json.balances _), json_balances_roundtrip]; rfl

/-! ### the flat store of a typed state (`Flat.flatten`, what `rawdump` prints)

`Flat.FlatWF ch`: no address twice in the ledger, the registry or the map of contract stores, every contract store sorted, contract
addresses of at most 65521 bytes (beyond that the real length prefix panics). -/

/-- the flat store holds exactly the raw records of the typed state -/
theorem flat_store_is_the_records (ch : Chain E) (wf : Flat.FlatWF ch) (k : Key) (v : Val) :
    (Flat.flatten ch).get k = some v ↔ (k, v) ∈ Flat.records ch :=
  Flat.flatten_get_iff ch wf k v

/-- under `00 04 bank 00 08 balances ‖ a`: the JSON text of `a`'s balance; nothing for an account the ledger does not list -/
theorem flat_store_bank (ch : Chain E) (wf : Flat.FlatWF ch) (a : Addr) :
    (Flat.flatten ch).get (Flat.bankKey a) = (ch.bank.get? a).map Json.balancesJson :=
  Flat.flatten_bank ch wf a

/-- under `00 04 wasm 00 09 contracts ‖ a`: the JSON text of `a`'s `ContractData` -/
theorem flat_store_registry (ch : Chain E) (wf : Flat.FlatWF ch) (a : Addr) :
    (Flat.flatten ch).get (Flat.contractKey a) = (ch.contracts.get? a).map Json.contractJson :=
  Flat.flatten_contract ch wf a

/-- **every byte of storage**: two well-formed typed states with the same flat store agree on every balance, every contract record
and every entry of every contract's store — so "the model's chain state is unchanged" and "the bytes of the bank and wasm
namespaces are unchanged" are the same statement -/
theorem equal_bytes_equal_state (ch ch' : Chain E) (wf : Flat.FlatWF ch) (wf' : Flat.FlatWF ch') (h : Flat.flatten ch = Flat.flatten ch') :
    (∀ a, ch.bank.get? a = ch'.bank.get? a) ∧ (∀ a, ch.contracts.get? a = ch'.contracts.get? a) ∧
    (∀ a k, (Flat.utf8 a).length ≤ 65521 → (ch.cstore.get? a).bind (·.get k) = (ch'.cstore.get? a).bind (·.get k)) :=
  Flat.flatten_injective ch ch' wf wf' h

/-- the hypothesis `FlatWF` is not wishful: it is what the executable check `Flat.wfCheck` establishes, and the wasm driver runs that
check on every state it flattens (`rawdump` answers `raw-not-wf…` otherwise, which the implementation never prints) -/
theorem flat_wf_is_checked (ch : Chain E) (h : Flat.wfCheck ch = true) : Flat.FlatWF ch :=
  Flat.wfCheck_sound ch h

/-- a state with two accounts, one contract and one stored entry -/
def sampleChain : Chain Unit :=
  { bank := [("a", [⟨"d1", 5⟩]), ("b", [])]
    contracts := [("c", { codeId := 1, creator := "a", admin := none, label := "l", created := 7 })]
    cstore := [("c", [([1], [2])])]
    ext := () }

/-- not vacuous: it is well-formed -/
example : Flat.FlatWF sampleChain where
  bank := by decide
  contracts := by decide
  cstore := by decide
  inner := by
    intro p hp
    have : p = ("c", [([1], [2])]) := by simpa [sampleChain] using hp
    subst this; exact List.pairwise_singleton _ _
  short := by
    intro p hp
    have : p = ("c", [([1], [2])]) := by simpa [sampleChain] using hp
    subst this
    show (Flat.utf8 "c").length ≤ 65521
    rw [Flat.utf8, show "c" = String.ofList ['c'] from rfl, Layout.utf8_ofList]; decide

end CwMt.C01
