import CwMt.Proofs.Engine
import CwMt.Proofs.EngineTx
import CwMt.Proofs.TxSites
/-
  C01 — Top-level transactions are atomic: all-or-nothing, in order.
  Model: CwMt/Model/Engine.lean (`App.executeMulti`, `App.execute`, `App.sudo`, `App.wasmSudo`,
  `App.runMsgs`). The engine is written in value semantics (a state is produced only on `ok`), which
  C06 (`client` of the overlay = ordered map) and the correspondence harness justify for the real
  write-cache machinery; the theorems below are what a caller of the four entry points can rely on,
  for every chain state, every contract behaviour (contracts are arbitrary functions), every module
  behaviour and every fuel value.
-/
namespace CwMt.C01
open CwMt
variable {E : Type}

/-! ### all-or-nothing -/

theorem atomic_execute_multi (cfg : Config E) (blk : Block) (fuel : Nat) (ch : Chain E) (sender : Addr)
    (msgs : List Msg) (r : Outcome (List AppResponse)) (ch' : Chain E) (tr : Trace)
    (h : App.executeMulti cfg blk fuel ch sender msgs = (r, ch', tr)) (hr : r.isOk = false) : ch' = ch :=
  Engine.atomic_execute_multi cfg blk fuel ch sender msgs r ch' tr h hr

theorem atomic_execute (cfg : Config E) (blk : Block) (fuel : Nat) (ch : Chain E) (sender : Addr)
    (m : Msg) (r : Outcome AppResponse) (ch' : Chain E) (tr : Trace)
    (h : App.execute cfg blk fuel ch sender m = (r, ch', tr)) (hr : r.isOk = false) : ch' = ch :=
  Engine.atomic_execute cfg blk fuel ch sender m r ch' tr h hr

theorem atomic_sudo (cfg : Config E) (blk : Block) (fuel : Nat) (ch : Chain E) (m : SudoMsg)
    (r : Outcome AppResponse) (ch' : Chain E) (tr : Trace)
    (h : App.sudo cfg blk fuel ch m = (r, ch', tr)) (hr : r.isOk = false) : ch' = ch :=
  Engine.atomic_sudo cfg blk fuel ch m r ch' tr h hr

theorem atomic_wasm_sudo (cfg : Config E) (blk : Block) (fuel : Nat) (ch : Chain E) (c : Addr) (m : Val)
    (r : Outcome AppResponse) (ch' : Chain E) (tr : Trace)
    (h : App.wasmSudo cfg blk fuel ch c m = (r, ch', tr)) (hr : r.isOk = false) : ch' = ch :=
  Engine.atomic_wasm_sudo cfg blk fuel ch c m r ch' tr h hr

/-- On `ok` nothing is dropped: the persisted state is the state the whole message list computed. -/
theorem ok_persists (cfg : Config E) (blk : Block) (fuel : Nat) (ch : Chain E) (sender : Addr)
    (msgs : List Msg) (rs : List AppResponse) (ch' : Chain E) (tr : Trace)
    (h : App.executeMulti cfg blk fuel ch sender msgs = (.ok rs, ch', tr)) :
    App.runMsgs cfg blk fuel ch sender msgs [] = (.ok (rs, ch'), tr) :=
  Engine.ok_persists cfg blk fuel ch sender msgs rs ch' tr h

/-! ### in order, each seeing its predecessors' effects, one response per message -/

theorem multi_length (cfg : Config E) (blk : Block) (fuel : Nat) (ch : Chain E) (sender : Addr)
    (msgs : List Msg) (tr : Trace) (rs : List AppResponse) (ch' : Chain E) (tr' : Trace)
    (h : App.runMsgs cfg blk fuel ch sender msgs tr = (.ok (rs, ch'), tr')) : rs.length = msgs.length :=
  Engine.multi_length cfg blk fuel ch sender msgs tr rs ch' tr' h

/-- Running `ms₁ ++ ms₂` is running `ms₁`, then `ms₂` on the resulting state (responses concatenated). -/
theorem multi_in_order_ok (cfg : Config E) (blk : Block) (fuel : Nat) (ch : Chain E) (sender : Addr)
    (ms₁ ms₂ : List Msg) (tr : Trace) (rs₁ : List AppResponse) (ch₁ : Chain E) (tr₁ : Trace)
    (h : App.runMsgs cfg blk fuel ch sender ms₁ tr = (.ok (rs₁, ch₁), tr₁)) :
    App.runMsgs cfg blk fuel ch sender (ms₁ ++ ms₂) tr =
      (match App.runMsgs cfg blk fuel ch₁ sender ms₂ tr₁ with
       | (.ok (rs₂, ch₂), tr₂) => (.ok (rs₁ ++ rs₂, ch₂), tr₂)
       | (.err, tr₂) => (.err, tr₂)
       | (.panic, tr₂) => (.panic, tr₂)
       | (.outOfFuel, tr₂) => (.outOfFuel, tr₂)) :=
  Engine.multi_in_order_ok cfg blk fuel ch sender ms₁ ms₂ tr rs₁ ch₁ tr₁ h

/-- The first failing message aborts the whole list with that failure. -/
theorem multi_first_error_aborts (cfg : Config E) (blk : Block) (fuel : Nat) (ch : Chain E) (sender : Addr)
    (ms₁ ms₂ : List Msg) (tr : Trace) (o : Outcome (List AppResponse × Chain E)) (tr₁ : Trace)
    (h : App.runMsgs cfg blk fuel ch sender ms₁ tr = (o, tr₁)) (ho : o.isOk = false) :
    App.runMsgs cfg blk fuel ch sender (ms₁ ++ ms₂) tr = (o, tr₁) :=
  Engine.multi_first_error_aborts cfg blk fuel ch sender ms₁ ms₂ tr o tr₁ h ho

/-! ### the fuel of the model is an artefact: once a result is reached, more fuel changes nothing -/

theorem fuel_irrelevant (cfg : Config E) (blk : Block) (fuel k : Nat) (ch : Chain E) (sender : Addr)
    (m : Msg) (tr : Trace) (r : Outcome (AppResponse × Chain E)) (tr' : Trace)
    (h : execute cfg blk fuel ch sender m tr = (r, tr')) (hr : r ≠ .outOfFuel) :
    execute cfg blk (fuel + k) ch sender m tr = (r, tr') :=
  Engine.fuel_mono_execute cfg blk fuel k ch sender m tr r tr' h hr

/-! ### the same entry points as the Rust code runs them: writing as they go, returning early on `Err`

`CwMt/Model/EngineTx.lean` is the engine with in-place writes: a failing step leaves whatever it (or
anything before it) had already written in the storage it was handed, and only `transactional` — at
the entry point, around every sub-message and around every contract call — ever drops writes. `Dirt`
(what failing contracts and modules leave behind) is arbitrary. -/

/-- `App::execute_multi` run imperatively gives exactly the outcome, the trace **and the persisted
state** of the value-semantics engine, whatever was written before the failure. -/
theorem imperative_execute_multi (cfg : Config E) (d : Dirt E) (blk : Block) (fuel : Nat) (ch : Chain E)
    (sender : Addr) (msgs : List Msg) :
    AppI.executeMulti cfg d blk fuel ch sender msgs = App.executeMulti cfg blk fuel ch sender msgs :=
  EngineTx.executeMulti_eq cfg d blk fuel ch sender msgs

theorem imperative_sudo (cfg : Config E) (d : Dirt E) (blk : Block) (fuel : Nat) (ch : Chain E) (m : SudoMsg) :
    AppI.sudo cfg d blk fuel ch m = App.sudo cfg blk fuel ch m :=
  EngineTx.sudo_eq cfg d blk fuel ch m

theorem imperative_wasm_sudo (cfg : Config E) (d : Dirt E) (blk : Block) (fuel : Nat) (ch : Chain E)
    (c : Addr) (m : Val) :
    AppI.wasmSudo cfg d blk fuel ch c m = App.wasmSudo cfg blk fuel ch c m :=
  EngineTx.wasmSudo_eq cfg d blk fuel ch c m

/-- All-or-nothing for the imperative engine: a failed `execute_multi` persists nothing, although the
loop inside it did write (see `dirt_is_real`). -/
theorem imperative_atomic (cfg : Config E) (d : Dirt E) (blk : Block) (fuel : Nat) (ch : Chain E)
    (sender : Addr) (msgs : List Msg) (r : Outcome (List AppResponse)) (ch' : Chain E) (tr : Trace)
    (h : AppI.executeMulti cfg d blk fuel ch sender msgs = (r, ch', tr)) (hr : r.isOk = false) : ch' = ch :=
  EngineTx.imperative_atomic cfg d blk fuel ch sender msgs r ch' tr h hr

/-- The message loop without its enclosing `transactional` is *not* atomic: a message list whose second
message fails returns `err` with the first message's transfer still in the storage. (Non-vacuity of the
theorems above: the dirt they discard exists.) -/
theorem dirt_is_real :
    ∃ (cfg : Config Unit) (d : Dirt Unit) (blk : Block) (fuel : Nat) (ch : Chain Unit) (sender : Addr)
      (msgs : List Msg) (ch' : Chain Unit) (tr : Trace),
      AppI.runMsgsI cfg d blk fuel ch sender msgs [] = (.err, ch', tr) ∧ ch'.bank ≠ ch.bank :=
  EngineTx.dirt_is_real

/-- Tie to the sources (regenerated on every run by checklib/tr_tx.py): non-test code of app.rs / wasm.rs
creates write caches at exactly the places where `CwMt/Model/EngineTx.lean` has `transactionalI` — the three
entry points, once around every sub-message (with both `reply` calls outside, on the dispatcher's storage)
and once around every contract call (the querier reading the storage beneath). -/
theorem tx_sites_as_modelled : Gen.Tx.sites = expectedTxSites :=
  TxSites.sites_as_modelled

end CwMt.C01
