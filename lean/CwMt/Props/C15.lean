import CwMt.Proofs.StakingExample
import CwMt.Proofs.StakingHistory
/-
  C15 — Staking rewards accrue linearly, are never over-paid, and pay out what is shown.
  Property theorems only; the proofs live in CwMt/Proofs/Staking{Rewards,Arith,Bounds}.lean.

  Readings (DESIGN.md section 7): R1 — "stake" is the delegation's fractional value; R7 — every bound carries a slack of
  a few 10^-18 tokens per reward update. The rounding bounds are stated in `Nat` with the denominators multiplied out:
  for validator total `S` (whole tokens), rate `A` (atomics), commission `c` (atomics), share `sa` (atomics) and `T`
  seconds the exact credit, in atomics, is  X = S·A·T·(10^18 − c)·sa / P  with  P = S·10^18·10^18·YEAR.
  `creditOf S A c sa T` is what one `update_rewards` adds to the delegator's accumulator (`credit_is_creditOf`).

  Proved here: the exact statements (`withdraw_exact`, `mints_nothing_else`, `others_unaffected`, `zero_rejected`,
  `crediting_is_invisible`) for all states; the per-update rounding bounds `upper_step` / `lower_step` with their sum over
  any split of a period of constant stake (`path_independent_upper/lower`); with invariant I5 of C14 (validator total ≥
  whole tokens of the sum of its shares, restored by the fix of `slash`) the bounds free of the validator total
  `upper_step_free` (credit ≤ exact + 2 atomics) and `lower_step_free` (exact ≤ credit + 4 atomics), whose side conditions
  hold for every SHOWN delegation (`shown_delegation_accrues`: total ≥ 1 token, share < total + 1 tokens); and their sum
  over a whole delegation period as an invariant of the reward ledger (`history_bounds`): for ANY interleaving of reward
  updates (each with its own validator total, share and time span) and withdrawals
        withdrawn + accumulator ≤ Σ exact + 2·n atomics,   Σ exact ≤ withdrawn + accumulator + w tokens + 4·n atomics
  (n updates, w withdrawals; the shown pending reward is the floor of the accumulator, which costs the final "+1 token").
  The model's operations are steps of that ledger: `update_is_credit` (an `update_rewards` adds exactly `creditOf …` to
  the accumulator of every recorded delegator and keeps the stake), `withdraw_exact` (a withdrawal pays the floor and
  resets).
  The composition over operation histories is proved as well (CwMt/Proofs/StakingHistory.lean): `history_of_model` — for
  every chain satisfying `Inv` and EVERY list of operations (slashes of any validator, anything by other delegators, any
  number of withdrawals and withdraw-address changes by `d`, block updates) in which `d` does not itself delegate /
  undelegate / redelegate the pair `(d, v)` and its delegation stays shown, the run of the model is a run of the ledger
  (`model_run_is_ledger_run`), the tokens the ledger records as paid are exactly what the bank mints to `d`'s withdraw
  address (`withdrawals_mint_paid`), and the final Delegation query shows `shown` with
        (paid + shown) tokens ≤ E + 2·n atomics     and     E < (paid + shown + w + 1) tokens + 4·n atomics,
  `E` = accumulator at the start + Σ over the crediting reward updates of `v` (the final query's own, virtual, update
  included) of share · apr · (1 − commission) · Δt / YEAR, all scaled by `P0` so that they are natural numbers.
  Not covered by that theorem: periods across a re-staking of the pair by `d` itself (each such operation starts a new
  application of the theorem from the chain it produces, with the accumulator carried over as `a0`) and sub-token
  remnants that are not shown (they earn nothing while alone with their validator — observation O4).
-/
namespace CwMt.C15
open CwMt CwMt.Staking KMap

/-! ### exact statements -/

/-- Crediting the rewards of a validator (what every stake change, withdrawal and slash does first) is invisible to
every Delegation query: the query was already adding exactly the term that is credited. -/
theorem crediting_is_invisible {cfg : Cfg} {c : Chain} {s1 : SState} {v : String} (hi : SInv c.st)
    (hl : LastLe c.st c.time) (h : updateRewards c.st c.time v = .ok s1) (d : Addr) (w : String) :
    queryDelegation cfg { c with st := s1 } d w = queryDelegation cfg c d w := query_updR hi hl h d w

/-- A successful withdrawal mints exactly the pending reward `r` that the Delegation query showed immediately before
(`shownReward … = ok r`, `r ≠ 0`) to the delegator's current withdraw address, resets the accumulator, keeps the stake;
afterwards the query shows 0; queue, withdraw addresses and other validators' infos are untouched. -/
theorem withdraw_exact {cfg : Cfg} {c c' : Chain} {a : Addr} {v : String} (hi : SInv c.st)
    (hl : LastLe c.st c.time) (h : withdrawRewards cfg c a v = .ok c') : WithdrawEffect cfg c a v c' :=
  withdraw_effect hi hl h

/-- … and mints nothing else: the only balance that changes is that of the withdraw address, by exactly `r`. -/
theorem mints_nothing_else {cfg : Cfg} {c c' : Chain} {a : Addr} {v : String} (hi : SInv c.st)
    (hl : LastLe c.st c.time) (hwf : BankFacts.WF c.bank) (h : withdrawRewards cfg c a v = .ok c') :
    ∃ r, (∃ vo vi, c.st.validator? v = some vo ∧ get? c.st.vinfo v = some vi ∧
            shownReward c.st c.time (curShares c.st a v) vo vi = .ok r) ∧
      ∀ x d, Bank.queryBalance c'.bank x d = Bank.queryBalance c.bank x d +
        (if x = withdrawAddr c.st a ∧ d = c.st.info.bondedDenom then r else 0) :=
  withdraw_balances hi hl hwf h

/-- Other delegators (and the same delegator at other validators) get the identical answer from the Delegation query
before and after someone's withdrawal. -/
theorem others_unaffected {cfg : Cfg} {c c' : Chain} {a : Addr} {v : String} (hi : SInv c.st)
    (hl : LastLe c.st c.time) (h : withdrawRewards cfg c a v = .ok c') (d2 : Addr) (w : String)
    (hne : (d2, w) ≠ (a, v)) : queryDelegation cfg c' d2 w = queryDelegation cfg c d2 w :=
  (withdraw_effect hi hl h).others d2 w hne

/-- Zero pending reward ⇒ the withdrawal is rejected. -/
theorem zero_rejected {cfg : Cfg} {c : Chain} {a : Addr} {v : String} (hi : SInv c.st)
    (hl : LastLe c.st c.time) (vo : Validator) (vi : ValInfo) (hvo : c.st.validator? v = some vo)
    (hvi : get? c.st.vinfo v = some vi) (hz : shownReward c.st c.time (curShares c.st a v) vo vi = .ok 0) :
    ∀ c', withdrawRewards cfg c a v ≠ .ok c' := withdraw_zero_rejected hi hl vo vi hvo hvi hz

/-! ### rounding bounds -/

/-- what `update_rewards` adds to a delegator's accumulator -/
theorem credit_is_creditOf {now since : Nat} {apr c : Dec} {vi : ValInfo} {nr : Dec} (sh : Shares)
    (hc : c.atomics ≤ Dec.ONE) (hle : since ≤ now) (hS : vi.stake ≠ 0)
    (h : calcRewards now since apr c vi.stake = .ok nr) :
    (shareOfRewards sh vi nr).atomics = creditOf vi.stake apr.atomics c.atomics sh.stake.atomics (elapsed now since) :=
  credit_eq sh hc hle hS h

/-- Upper bound of one update: `credit ≤ X + ρ` atomics, `ρ = sa/(S·10^18)` the share/total ratio (≤ 1 + number of
fractional slashes; exactly the over-crediting by the commission that is rounded down). -/
theorem upper_step (S A c sa T : Nat) (hc : c ≤ Dec.ONE) :
    creditOf S A c sa T * (S * Dec.ONE * Dec.ONE * YEAR)
      ≤ S * A * T * (Dec.ONE - c) * sa + Dec.ONE * YEAR * sa := credit_upper_step S A c sa T hc

/-- Lower bound of one update: `X < credit + 1 + 1/S + (1 − c)·ρ` atomics. -/
theorem lower_step (S A c sa T : Nat) (hS : 0 < S) (hc : c ≤ Dec.ONE) :
    S * A * T * (Dec.ONE - c) * sa
      ≤ (creditOf S A c sa T + 1) * (S * Dec.ONE * Dec.ONE * YEAR) + Dec.ONE * Dec.ONE * YEAR
        + YEAR * (Dec.ONE - c) * sa := credit_lower_step S A c sa T hS hc

/-- Path independence: however a period of constant stake is split into updates `Ts`, the sum of the credits is at
most the exact value of the whole period plus `ρ` atomics per update … -/
theorem path_independent_upper (S A c sa : Nat) (hc : c ≤ Dec.ONE) (Ts : List Nat) :
    (Ts.map (creditOf S A c sa)).sum * (S * Dec.ONE * Dec.ONE * YEAR)
      ≤ S * A * Ts.sum * (Dec.ONE - c) * sa + Ts.length * (Dec.ONE * YEAR * sa) := split_upper S A c sa hc Ts

/-- … and at least the exact value minus `1 + 1/S + (1 − c)·ρ` atomics per update; so two splittings of the same
period into `k` and `k'` updates differ by less than `(k + k')·(2 + ρ)·10^-18` tokens. -/
theorem path_independent_lower (S A c sa : Nat) (hS : 0 < S) (hc : c ≤ Dec.ONE) (Ts : List Nat) :
    S * A * Ts.sum * (Dec.ONE - c) * sa
      ≤ ((Ts.map (creditOf S A c sa)).sum + Ts.length) * (S * Dec.ONE * Dec.ONE * YEAR)
        + Ts.length * (Dec.ONE * Dec.ONE * YEAR + YEAR * (Dec.ONE - c) * sa) := split_lower S A c sa hS hc Ts

/-- Under I5 every shown delegation accrues: the validator total is positive and the share is below total + 1 tokens
(the side conditions of the bounds below; before the fix of `slash` the total could be 0 under a shown delegation). -/
theorem shown_delegation_accrues {s : SState} (ht : TInv s) {d : Addr} {v : String} {sh : Shares} {vi : ValInfo}
    (hs : get? s.stakes (d, v) = some sh) (hv : get? s.vinfo v = some vi) (hpos : 0 < sh.stake.floor) (T : Nat) :
    (Ev.mk vi.stake sh.stake.atomics T).ok := shown_event_ok ht hs hv hpos T

/-- Upper bound of one update without the validator total: credit ≤ exact + 2 atomics (`P0 = 10^18·10^18·YEAR`). -/
theorem upper_step_free (S A c sa T : Nat) (hS : 0 < S) (hc : c ≤ Dec.ONE) (hsa : sa ≤ Dec.ONE * (S + 1)) :
    creditOf S A c sa T * P0 ≤ A * T * (Dec.ONE - c) * sa + 2 * P0 := credit_upper_free S A c sa T hS hc hsa

/-- Lower bound of one update without the validator total: exact ≤ credit + 4 atomics. -/
theorem lower_step_free (S A c sa T : Nat) (hS : 0 < S) (hc : c ≤ Dec.ONE) (hsa : sa ≤ Dec.ONE * (S + 1)) :
    A * T * (Dec.ONE - c) * sa ≤ (creditOf S A c sa T + 4) * P0 := credit_lower_free S A c sa T hS hc hsa

/-- History level: both bounds hold after any interleaving of reward updates and withdrawals of one delegation period
(`Ledger.Good` = withdrawn + accumulator ≤ Σ exact + 2n atomics ∧ Σ exact ≤ withdrawn + accumulator + w tokens + 4n
atomics). -/
theorem history_bounds (A c : Nat) (hc : c ≤ Dec.ONE) (steps : List LStep) (hok : ∀ st ∈ steps, st.ok) :
    (Ledger.run A c {} steps).Good := Ledger.good_run A c hc steps {} hok Ledger.good_init

/-- A reward update of the model is a `credit` step of that ledger for every recorded delegator. -/
theorem update_is_credit {s s1 : SState} {now : Nat} {v : String} {d : Addr} {vi : ValInfo} {vo : Validator}
    {sh : Shares} (hi : SInv s) (h : updateRewards s now v = .ok s1)
    (hvi : get? s.vinfo v = some vi) (hvo : s.validator? v = some vo) (hsh : get? s.stakes (d, v) = some sh)
    (hlt : vi.last < now) (hS : vi.stake ≠ 0) :
    (curShares s1 d v).rewards.atomics = sh.rewards.atomics +
        creditOf vi.stake s.info.apr.atomics vo.commission.atomics sh.stake.atomics (elapsed now vi.last) ∧
    (curShares s1 d v).stake = sh.stake := Staking.update_is_credit hi h hvi hvo hsh hlt hS

/-! ### history level, on the model itself -/

/-- Every run of the model is a run of the reward ledger of the pair: invariant, validator, shown delegation, the two
bounds and "ledger accumulator = accumulator of the record" persist along any history that does not re-stake the pair. -/
theorem model_run_is_ledger_run {cfg : Cfg} {d : Addr} {v : String} {vo : Validator} (ops : List Op) (c : Chain)
    (l : Ledger) (hi : Inv cfg c) (hok : ∀ op ∈ ops, op.okFor cfg ∧ ¬ op.restakes d v)
    (hvo : c.st.validator? v = some vo) (hshown : ShownAll cfg d v c ops) (hg : l.Good)
    (hacc : l.acc = (curShares c.st d v).rewards.atomics) :
    Inv cfg (runAll cfg c ops).1 ∧ (runAll cfg c ops).1.st.validator? v = some vo ∧
    1 ≤ (stakeOf (runAll cfg c ops).1.st d v).floor ∧ (track cfg d v c ops l).Good ∧
    (track cfg d v c ops l).acc = (curShares (runAll cfg c ops).1.st d v).rewards.atomics :=
  track_run ops c l hi hok hvo hshown hg hacc

/-- What the ledger books as `paid` at `d`'s own withdrawal is exactly what the bank mints to `d`'s withdraw address. -/
theorem withdrawals_mint_paid {cfg : Cfg} {c c' : Chain} {d : Addr} {v : String} {vo : Validator} {l : Ledger}
    (hi : Inv cfg c) (hvo : c.st.validator? v = some vo) (hs : 1 ≤ (stakeOf c.st d v).floor)
    (hacc : l.acc = (curShares c.st d v).rewards.atomics) (hrun : (Op.withdraw d v).run cfg c = .ok c') :
    (trackStep cfg d v c (.withdraw d v) l).w = l.w + 1 ∧
    Bank.mint c.bank (withdrawAddr c.st d)
      [⟨c.st.info.bondedDenom, (trackStep cfg d v c (.withdraw d v) l).paid - l.paid⟩] = some c'.bank :=
  own_withdraw_mints hi hvo hs hacc hrun

/-- C15 upper and lower bound for every run of the model (full statement in the header): `lE` is the ledger of the pair
along `ops` plus the virtual update of the final query; the query shows `⌊lE.acc / 10^18⌋`. -/
theorem history_of_model {cfg : Cfg} {d : Addr} {v : String} {vo : Validator} (ops : List Op) (c : Chain)
    (hi : Inv cfg c) (hok : ∀ op ∈ ops, op.okFor cfg ∧ ¬ op.restakes d v) (hvo : c.st.validator? v = some vo)
    (hshown : ShownAll cfg d v c ops) (hvalid : cfg.valid d = true) :
    ∃ lE : Ledger,
      lE = creditL (runAll cfg c ops).1 d v
            (track cfg d v c ops { acc := (curShares c.st d v).rewards.atomics,
                                   exact := (curShares c.st d v).rewards.atomics * P0 }) ∧
      queryDelegation cfg (runAll cfg c ops).1 d v =
        .ok (some ((stakeOf (runAll cfg c ops).1.st d v).floor, lE.acc / Dec.ONE)) ∧
      (lE.paid + lE.acc / Dec.ONE) * Dec.ONE * P0 ≤ lE.exact + 2 * lE.n * P0 ∧
      lE.exact < ((lE.paid + lE.acc / Dec.ONE + lE.w + 1) * Dec.ONE + 4 * lE.n) * P0 :=
  model_history_bounds ops c hi hok hvo hshown hvalid

/-! ### non-vacuity -/

/-- a history for `history_of_model`: after `d1` delegated 10 to `v1` — a third of a year, another delegator joins,
a 10 % slash, another third, `d1` withdraws, changes its withdraw address, time passes, the other delegator leaves -/
def exHistory : List Op :=
  [.advance 10512000000000000, .delegate "d2" "v1" ⟨"TOKEN", 5⟩, .slash "v1" ⟨100000000000000000⟩, .advance 10512000000000000,
   .withdraw "d1" "v1", .setWithdraw "d1" "d2", .advance 10512001000000000, .undelegate "d2" "v1" ⟨"TOKEN", 1⟩, .advance 61000000000]

def exStart : Chain := (runAll exCfg exChain [.delegate "d1" "v1" ⟨"TOKEN", 10⟩]).1

example : Inv exCfg exStart :=
  (runAll_inv [.delegate "d1" "v1" ⟨"TOKEN", 10⟩] exChain exChain_inv (by intro op h; simp at h; subst h; simp [Op.okFor, exCfg])).1
example : ShownAll exCfg "d1" "v1" exStart exHistory := by decide
example : ∀ op ∈ exHistory, op.okFor exCfg ∧ ¬ op.restakes "d1" "v1" := by
  intro op h
  simp only [exHistory, List.mem_cons, List.mem_nil_iff, or_false] at h
  rcases h with rfl | rfl | rfl | rfl | rfl | rfl | rfl | rfl | rfl <;> simp [Op.okFor, Op.restakes, exCfg]
/-- its ledger: 6 tokens paid by one withdrawal, 3.000017… pending, 4 crediting updates (the final query's included) -/
example : (let l := creditL (runAll exCfg exStart exHistory).1 "d1" "v1" (track exCfg "d1" "v1" exStart exHistory {})
    (l.acc, l.paid, l.w, l.n)) = (3000017694063926939, 6, 1, 4) := by decide
example : queryDelegation exCfg (runAll exCfg exStart exHistory).1 "d1" "v1" = .ok (some (9, 3)) := by decide

/-- 10 tokens at 100 % for one year show a reward of 10; the withdrawal pays 10 and resets it -/
example : queryDelegation exCfg (runAll exCfg exChain [.delegate "d1" "v1" ⟨"TOKEN", 10⟩, .advance 31536000000000000]).1 "d1" "v1"
    = .ok (some (10, 10)) := by decide
example : Bank.queryBalance (runAll exCfg exChain [.delegate "d1" "v1" ⟨"TOKEN", 10⟩, .advance 31536000000000000,
    .withdraw "d1" "v1"]).1.bank "d1" "TOKEN" = 100 := by decide
/-- the fixed-point shortfall of R7: one token for a year in three updates accumulates 0.999999999999999999 -/
example : (curShares (runAll exCfg exChain [.delegate "d1" "v1" ⟨"TOKEN", 1⟩, .advance 10512000000000000, .slash "v1" ⟨0⟩,
    .advance 10512000000000000, .slash "v1" ⟨0⟩, .advance 10512000000000000, .slash "v1" ⟨0⟩]).1.st "d1" "v1").rewards.atomics
    = 999999999999999999 := by decide
example : (step exCfg (runAll exCfg exChain [.delegate "d1" "v1" ⟨"TOKEN", 1⟩]).1 (.withdraw "d1" "v1")).2 = .err := by
  decide
/-- the old F1 shape (validator total 0 under a shown delegation) is gone: 3 tokens, two 10 % slashes, 2 undelegated —
0.43 tokens remain (nothing shown), and with only 1 undelegated the shown token earns its 2.86 tokens in two years -/
example : queryDelegation exCfg (runAll exCfg exChain [.delegate "d1" "v1" ⟨"TOKEN", 3⟩,
    .slash "v1" ⟨100000000000000000⟩, .slash "v1" ⟨100000000000000000⟩, .undelegate "d1" "v1" ⟨"TOKEN", 1⟩,
    .advance 63072000000000000]).1 "d1" "v1" = .ok (some (1, 2)) := by decide
example : (Ledger.run 1000000000000000000 0 {} [.credit ⟨1, 1000000000000000000, 10512000⟩,
    .credit ⟨1, 1000000000000000000, 10512000⟩, .credit ⟨1, 1000000000000000000, 10512000⟩, .withdraw]).paid = 0 := by
  decide

end CwMt.C15
