import CwMt.Proofs.EngineB
import CwMt.Proofs.Impure
/-
  C19 — The simulator is deterministic and instances do not interfere.
  A Lean function is deterministic by construction, so "two runs of the model agree" has no content;
  what is proved is the specification of non-interference (running two instances interleaved is
  running each alone) and that generated identifiers are functions of the instance's own state.
  The claim about the *code* (no hidden global state, clock or randomness) is carried by the
  correspondence: every history is run twice on fresh Apps and interleaved with a second App, and all
  transcripts must equal the single pure model run; plus the source scan below (tie T).
-/
namespace CwMt.C19
open CwMt

/-- two instances side by side; an operation addresses one of them -/
def stepTwo {σ ι ο : Type} (step : σ → ι → σ × ο) (s : σ × σ) (op : Bool × ι) : (σ × σ) × ο :=
  if op.1 then let (a, o) := step s.1 op.2; ((a, s.2), o) else let (b, o) := step s.2 op.2; ((s.1, b), o)

def runOne {σ ι ο : Type} (step : σ → ι → σ × ο) : σ → List ι → σ × List ο
  | s, [] => (s, [])
  | s, i :: is => let (s', o) := step s i; let (s'', os) := runOne step s' is; (s'', o :: os)

def runTwo {σ ι ο : Type} (step : σ → ι → σ × ο) : σ × σ → List (Bool × ι) → (σ × σ) × List (Bool × ο)
  | s, [] => (s, [])
  | s, op :: ops =>
    let (s', o) := stepTwo step s op
    let (s'', os) := runTwo step s' ops
    (s'', (op.1, o) :: os)

/-- For every interleaving of two histories on two instances, each instance ends in the state, and
produces the outputs, of running its own history alone. -/
theorem interleaving {σ ι ο : Type} (step : σ → ι → σ × ο) (s : σ × σ) (ops : List (Bool × ι)) :
    let own (b : Bool) := (ops.filter (·.1 == b)).map (·.2)
    (runTwo step s ops).1.1 = (runOne step s.1 (own true)).1 ∧
    (runTwo step s ops).1.2 = (runOne step s.2 (own false)).1 ∧
    ((runTwo step s ops).2.filter (·.1 == true)).map (·.2) = (runOne step s.1 (own true)).2 ∧
    ((runTwo step s ops).2.filter (·.1 == false)).map (·.2) = (runOne step s.2 (own false)).2 :=
  EngineB.interleaving step s ops

/-- generated code ids depend only on the instance's own registry -/
theorem code_id_from_registry (st₁ st₂ : Registry.State) (c : Addr) (k : Nat → Val) (h : st₁.codes = st₂.codes) :
    (Registry.storeCode st₁ c k).map (·.1) = (Registry.storeCode st₂ c k).map (·.1) :=
  EngineB.code_id_from_registry st₁ st₂ c k h

/-- Tie to the sources (regenerated on every run by checklib/scan_impure.py): the non-test code of the crate
spells no process- or thread-global mutable state (`static mut`, `thread_local!`, lazily initialised or
interior-mutable statics, atomics, locks), no clock, no randomness, no environment access, no hash-ordered
container, no `unsafe`; the only interior mutability is per-instance (`custom_handler.rs`). This is the
premise under which a safe-Rust `App` is a function of its inputs, as the model is. -/
theorem no_ambient_state_in_sources : Gen.Impure.findings = [] :=
  Impure.findings_nil

end CwMt.C19
