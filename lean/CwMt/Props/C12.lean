import CwMt.Proofs.EngineInv
import CwMt.Proofs.EngineB
import CwMt.Proofs.EngineBig
/-
  C12 — Only the current admin can migrate or re-assign admin; migration keeps state.
-/
namespace CwMt.C12
open CwMt
variable {E : Type}

/-- the admin of a contract in a state -/
def adminOf (ch : Chain E) (c : String) : Option Addr := (ch.contracts.get? c).bind (·.admin)

/-- Migrate / UpdateAdmin / ClearAdmin succeed only when sent by the contract's current admin
(so never for a contract without admin, never for an unknown contract). -/
theorem auth_update_admin (cfg : Config E) (blk : Block) (fuel : Nat) (ch ch' : Chain E) (sender : Addr)
    (c a : String) (tr tr' : Trace) (r : AppResponse)
    (h : execute cfg blk fuel ch sender (.wasmUpdateAdmin c a) tr = (.ok (r, ch'), tr')) :
    adminOf ch c = some sender := EngineB.auth_update_admin cfg blk fuel ch ch' sender c a tr tr' r h

theorem auth_clear_admin (cfg : Config E) (blk : Block) (fuel : Nat) (ch ch' : Chain E) (sender : Addr)
    (c : String) (tr tr' : Trace) (r : AppResponse)
    (h : execute cfg blk fuel ch sender (.wasmClearAdmin c) tr = (.ok (r, ch'), tr')) :
    adminOf ch c = some sender := EngineB.auth_clear_admin cfg blk fuel ch ch' sender c tr tr' r h

theorem auth_migrate (cfg : Config E) (blk : Block) (fuel : Nat) (ch ch' : Chain E) (sender : Addr)
    (c : String) (n : Nat) (m : Val) (tr tr' : Trace) (r : AppResponse)
    (h : execute cfg blk fuel ch sender (.wasmMigrate c n m) tr = (.ok (r, ch'), tr')) :
    adminOf ch c = some sender ∧ codeKnown cfg n = true :=
  EngineB.auth_migrate cfg blk fuel ch ch' sender c n m tr tr' r h

/-- a non-admin is always rejected, and the trace shows that no contract ran -/
theorem non_admin_rejected (cfg : Config E) (blk : Block) (fuel : Nat) (ch : Chain E) (sender : Addr)
    (c : String) (n : Nat) (m : Val) (a : String) (tr : Trace) (h : adminOf ch c ≠ some sender) :
    execute cfg blk (fuel + 1) ch sender (.wasmMigrate c n m) tr = (.err, tr) ∧
    execute cfg blk (fuel + 1) ch sender (.wasmUpdateAdmin c a) tr = (.err, tr) ∧
    execute cfg blk (fuel + 1) ch sender (.wasmClearAdmin c) tr = (.err, tr) :=
  EngineB.non_admin_rejected cfg blk fuel ch sender c n m a tr h

/-- a successful admin change sets exactly the admin field of exactly that contract -/
theorem admin_change_effect (cfg : Config E) (ch ch' : Chain E) (sender : Addr) (c : String)
    (new : Option String) (r : AppResponse)
    (h : updateAdmin cfg ch sender c new = .ok (r, ch')) :
    adminOf ch' c = new ∧
    (∃ cd, ch.contracts.get? c = some cd ∧ ch'.contracts.get? c = some { cd with admin := new }) ∧
    (∀ b, b ≠ c → ch'.contracts.get? b = ch.contracts.get? b) ∧
    ch'.bank = ch.bank ∧ ch'.cstore = ch.cstore ∧ r = {} :=
  EngineB.admin_change_effect cfg ch ch' sender c new r h

/-- …and governs the next attempt: the former admin is rejected at once (unless re-appointed),
and after ClearAdmin everyone is. -/
theorem former_admin_rejected (cfg : Config E) (blk : Block) (fuel : Nat) (ch ch' : Chain E) (sender : Addr)
    (c : String) (new : Option String) (r : AppResponse) (n : Nat) (m : Val) (a : String) (tr : Trace)
    (h : updateAdmin cfg ch sender c new = .ok (r, ch')) (hne : new ≠ some sender) :
    execute cfg blk (fuel + 1) ch' sender (.wasmMigrate c n m) tr = (.err, tr) ∧
    execute cfg blk (fuel + 1) ch' sender (.wasmUpdateAdmin c a) tr = (.err, tr) ∧
    execute cfg blk (fuel + 1) ch' sender (.wasmClearAdmin c) tr = (.err, tr) :=
  EngineB.former_admin_rejected cfg blk fuel ch ch' sender c new r n m a tr h hne

/-- A permitted migration records the new code id first and then runs the `migrate` entry point of
the code registered under that id, on the same address and the contract's existing storage. -/
theorem migrate_runs_new_code_on_same_storage (cfg : Config E) (blk : Block) (fuel : Nat) (ch : Chain E)
    (sender : Addr) (c : String) (n : Nat) (m : Val) (tr : Trace) (cd : ContractData)
    (hv : cfg.validAddr c = true) (hk : codeKnown cfg n = true)
    (hc : ch.contracts.get? c = some cd) (ha : cd.admin = some sender) :
    let ch₁ : Chain E := { ch with contracts := ch.contracts.set c { cd with codeId := n } }
    ch₁.cstore = ch.cstore ∧ ch₁.contracts.get? c = some { cd with codeId := n } ∧
    execute cfg blk (fuel + 1) ch sender (.wasmMigrate c n m) tr =
      (match callContract cfg blk ch₁ c (.migrate m) tr with
       | (.ok (resp, ch₂), tr₁) =>
         (match processResponse cfg blk fuel ch₂ c
             (buildAppResponse c { ty := "migrate", attrs := [contractAttr c, ⟨"code_id", toString n⟩] } resp).1
             (buildAppResponse c { ty := "migrate", attrs := [contractAttr c, ⟨"code_id", toString n⟩] } resp).2 tr₁ with
          | (.ok (r, ch₃), tr₂) => (.ok ({ r with data := r.data.map encodeExecuteResponse }, ch₃), tr₂)
          | other => other)
       | (.err, tr₁) => (.err, tr₁)
       | (.panic, tr₁) => (.panic, tr₁)
       | (.outOfFuel, tr₁) => (.outOfFuel, tr₁)) :=
  EngineB.migrate_runs_new_code cfg blk fuel ch sender c n m tr cd hv hk hc ha

/-- afterwards calls are served by the code registered under the recorded id -/
theorem served_by_recorded_code (cfg : Config E) (blk : Block) (ch : Chain E) (c : Addr) (en : Entry) (tr : Trace)
    (cd : ContractData) (code : Code E)
    (hc : ch.contracts.get? c = some cd) (hcode : contractCode? cfg cd.codeId = some code) :
    ∃ note, (callContract cfg blk ch c en tr).2 = tr ++ [⟨c, en, contractEnv blk c, note⟩] ∧
      note = (code.run en (contractEnv blk c) ch ((ch.cstore.get? c).getD [])).2 :=
  EngineB.served_by_recorded_code cfg blk ch c en tr cd code hc hcode

end CwMt.C12

/-! ### the history form: a contract without admin stays as it is, forever -/
namespace CwMt.C12
open CwMt

/-- For every message tree (any senders, any contracts acting through sub-messages): a contract that
has no admin keeps having no admin and keeps its code id. -/
theorem no_admin_is_forever {E : Type} (cfg : Config E) (hf : ExtFrame cfg) (blk : Block) (fuel : Nat)
    (ch ch' : Chain E) (sender : Addr) (m : Msg) (tr tr' : Trace) (r : AppResponse)
    (h : execute cfg blk fuel ch sender m tr = (.ok (r, ch'), tr'))
    (c : Addr) (cd : ContractData) (hc : ch.contracts.get? c = some cd) (hna : cd.admin = none) :
    ∃ cd', ch'.contracts.get? c = some cd' ∧ cd'.admin = none ∧ cd'.codeId = cd.codeId :=
  EngineInv.no_admin_is_forever cfg hf blk fuel ch ch' sender m tr tr' r h c cd hc hna

/-- A contract's admin or code id can change during the execution of a message only if its admin at
the start was the sender of that message or a contract invoked during the execution. -/
theorem change_needs_admin_involved {E : Type} (cfg : Config E) (hf : ExtFrame cfg) (blk : Block) (fuel : Nat)
    (ch ch' : Chain E) (sender : Addr) (m : Msg) (tr new : Trace) (r : AppResponse)
    (h : execute cfg blk fuel ch sender m tr = (.ok (r, ch'), tr ++ new))
    (c : Addr) (cd cd' : ContractData) (hc : ch.contracts.get? c = some cd) (hc' : ch'.contracts.get? c = some cd')
    (hchg : cd'.admin ≠ cd.admin ∨ cd'.codeId ≠ cd.codeId) :
    ∃ a, cd.admin = some a ∧ (a = sender ∨ ∃ e ∈ new, e.callee = a) :=
  EngineInv.change_needs_admin_involved cfg hf blk fuel ch ch' sender m tr new r h c cd cd' hc hc' hchg

/-! ### the complete rule of `WasmMsg::Migrate` as a fuel-free judgement (CwMt/Model/EngineBig.lean): authorisation first, then the new code id is recorded, then the NEW code's `migrate` runs on the same storage -/

/-- `WasmMsg::Migrate`: checks, then the new code id is recorded, then `migrate` of the NEW code runs on that state,
then its sub-messages; data wrapped as for execute -/
theorem migrate_rule (cfg : Config E) (blk : Block) (ch : Chain E) (s : Addr) (contract : String) (newCodeId : Nat)
    (m : Val) (o : Out E) :
    Exec cfg blk ch s (.wasmMigrate contract newCodeId m) o ↔
      (if cfg.validAddr contract = false then o = .err else
       if codeKnown cfg newCodeId = false then o = .err else
       match ch.contracts.get? contract with
       | none => o = .err
       | some cd =>
         if cd.admin ≠ some s then o = .err else
         match (callContract cfg blk { ch with contracts := ch.contracts.set contract { cd with codeId := newCodeId } }
                  contract (.migrate m) []).1 with
         | .ok (resp, ch₂) =>
           ∃ o', Proc cfg blk ch₂ contract
               (buildAppResponse contract { ty := "migrate", attrs := [contractAttr contract, ⟨"code_id", toString newCodeId⟩] } resp).1
               (buildAppResponse contract { ty := "migrate", attrs := [contractAttr contract, ⟨"code_id", toString newCodeId⟩] } resp).2 o' ∧
             o = (match o' with
                  | .ok (r, ch₃) => .ok ({ r with data := r.data.map encodeExecuteResponse }, ch₃)
                  | other => other)
         | .err => o = .err
         | .panic => o = .panic
         | .outOfFuel => False) :=
  EngineBig.exec_wasm_migrate cfg blk ch s contract newCodeId m o

end CwMt.C12
