import CwMt.Proofs.RouteTables
/-
  C20 — Builders keep every configured component regardless of call order.
  Property theorems only; proofs are in CwMt/Proofs/RouteTables.lean (generic lemmas: CwMt/Proofs/Route.lean).
  The tables `Gen.Builder.steps`, `Gen.Builder.build`, `Gen.Wrapper.steps` are regenerated from
  /repo/src/app_builder.rs, /repo/src/app.rs (`init_modules`) and /repo/src/contracts.rs by
  checklib/tr_builder.py on every run (tie T). Semantics (CwMt/Model/Route.lean): a builder method
  evaluates every field of its rebuilt struct literal in the old state (`kept` = same field of `self`,
  `param i` = the method's i-th argument, `reset e` = the constant `e`, `moved g` = another field);
  a builder run is a left fold of steps; `runBuild` executes the statements of `build`.
  `α` is the type of supplied components and is arbitrary throughout.
-/
namespace CwMt.C20
open CwMt.Route CwMt.Gen

/-! ### AppBuilder -/

/-- Every `with_*` step sets exactly its own field from its single parameter and keeps the ten others. -/
theorem builder_frame : frameOk BField.all BStep.target BStep.withSteps Builder.steps = true :=
  Tables.builder_frame

/-- The table has one row per method of the model's vocabulary and nothing else. -/
theorem builder_table_exact :
    (Builder.steps.map Prod.fst).Nodup ∧ BStep.other ∉ Builder.steps.map Prod.fst ∧
    ∀ st ∈ BStep.new :: BStep.new_custom :: BStep.withSteps, st ∈ Builder.steps.map Prod.fst :=
  Tables.builder_table_exact

/-- `new` / `new_custom` write a constant (the default component) into each of the eleven fields. -/
theorem builder_defaults {α : Type} (ctor : BStep) (hc : ctor ∈ [BStep.new, .new_custom]) (args : Nat → CVal α)
    (f : BField) (hf : f ∈ BField.all) : (construct Builder.steps ctor args f).isConst = true :=
  Tables.builder_defaults ctor hc args f hf

/-- **Any subset, any order, repetitions**: after any list of `with_*` steps every component of the
builder is the value supplied by the last step for it, or what the constructor put there. -/
theorem builder_any_order {α : Type} (init : BField → CVal α) (l : List (BStep × α))
    (hl : ∀ p ∈ l, p.1 ∈ BStep.withSteps) (f : BField) (hf : f ∈ BField.all) :
    runSteps Builder.steps init l f =
      match lastFor BStep.target f l with
      | some a => .supplied a
      | none => init f :=
  Tables.builder_any_order init l hl f hf

example : ∀ p ∈ [(BStep.with_gov, 1), (BStep.with_bank, 2), (BStep.with_gov, 3)], p.1 ∈ BStep.withSteps := by decide

/-- Hence all orders of the same steps give the same builder (no two steps for the same component). -/
theorem builder_permutations_agree {α : Type} (init : BField → CVal α) (l₁ l₂ : List (BStep × α)) (hp : l₁.Perm l₂)
    (hl : ∀ p ∈ l₁, p.1 ∈ BStep.withSteps) (hnd : (l₁.map (fun p => BStep.target p.1)).Nodup)
    (f : BField) (hf : f ∈ BField.all) :
    runSteps Builder.steps init l₁ f = runSteps Builder.steps init l₂ f :=
  Tables.builder_permutations_agree init l₁ l₂ hp hl hnd f hf

example : ([(BStep.with_gov, 1), (BStep.with_bank, 2)] : List (BStep × Nat)).Perm [(BStep.with_bank, 2), (BStep.with_gov, 1)] ∧
    (([(BStep.with_gov, 1), (BStep.with_bank, 2)] : List (BStep × Nat)).map (fun p => BStep.target p.1)).Nodup :=
  ⟨List.Perm.swap _ _ _, by decide⟩

/-- `build` moves every builder field into the same-named `App` / `Router` field, runs the init
function exactly once, after the `App` exists, on the `App`'s own router, api and storage, and returns
that `App`. -/
theorem build_moves_all_and_inits_once {α : Type} (b : BField → CVal α) :
    ∃ app, runBuild Builder.build b = some app ∧
      (∀ f ∈ BField.all, app.comp f = b f) ∧ app.inits = [b .storage] ∧
      Builder.build.routerFields = [.wasm, .bank, .custom, .staking, .distribution, .ibc, .gov, .stargate] :=
  Tables.build_moves_all_and_inits_once b

/-- The whole pipeline: constructor, any steps, `build`: the application has, per component, the last
supplied value or the constructor's default, and the init function ran once on the supplied (or
default) storage. -/
theorem built_app_any_order {α : Type} (ctor : BStep) (args : Nat → CVal α) (l : List (BStep × α))
    (hl : ∀ p ∈ l, p.1 ∈ BStep.withSteps) :
    ∃ app, runBuild Builder.build (runSteps Builder.steps (construct Builder.steps ctor args) l) = some app ∧
      (∀ f ∈ BField.all, app.comp f =
        match lastFor BStep.target f l with
        | some a => .supplied a
        | none => construct Builder.steps ctor args f) ∧
      app.inits = [app.comp .storage] :=
  Tables.built_app_any_order ctor args l hl

/-! ### ContractWrapper -/

/-- Every `with_*` of the wrapper sets exactly its own slot from its parameter and keeps the six other
fields — in particular the checksum (full strength since the D6 fix); both constructors take the
three mandatory entry points from their parameters and write constants into the four optional slots. -/
theorem wrapper_frame :
    frameOk WField.all WStep.target WStep.withSteps Wrapper.steps = true ∧
    (∀ c ∈ [WStep.new, .new_with_empty], ∃ r, Wrapper.steps.lookup c = some r ∧ ctorOk r = true) ∧
    (Wrapper.steps.map Prod.fst).Nodup ∧ WStep.other ∉ Wrapper.steps.map Prod.fst :=
  Tables.wrapper_frame

/-- **Any order, repetitions**: a wrapper made by `new` / `new_with_empty` from entry points `e i q`
followed by any list of `with_*` steps still has `e i q`, and each of sudo / reply / migrate /
checksum is the last value supplied for it, or `None`. -/
theorem wrapper_any_order {α : Type} (ctor : WStep) (hc : ctor ∈ [WStep.new, .new_with_empty]) (e i q : α)
    (l : List (WStep × α)) (hl : ∀ p ∈ l, p.1 ∈ WStep.withSteps) :
    let args : Nat → CVal α := fun n => match n with | 0 => .supplied e | 1 => .supplied i | 2 => .supplied q | _ => .undef
    let w := runSteps Wrapper.steps (construct Wrapper.steps ctor args) l
    w .execute_fn = .supplied e ∧ w .instantiate_fn = .supplied i ∧ w .query_fn = .supplied q ∧
    ∀ f ∈ [WField.sudo_fn, .reply_fn, .migrate_fn, .checksum],
      w f = match lastFor WStep.target f l with
        | some a => .supplied a
        | none => .const "None" :=
  Tables.wrapper_any_order ctor hc e i q l hl

example : (WStep.new ∈ [WStep.new, .new_with_empty]) ∧
    ∀ p ∈ [(WStep.with_checksum, 1), (WStep.with_reply, 2), (WStep.with_sudo_empty, 3)], p.1 ∈ WStep.withSteps := by decide

/-- All orders of the same wrapper steps agree (no two steps for the same slot). -/
theorem wrapper_permutations_agree {α : Type} (init : WField → CVal α) (l₁ l₂ : List (WStep × α)) (hp : l₁.Perm l₂)
    (hl : ∀ p ∈ l₁, p.1 ∈ WStep.withSteps) (hnd : (l₁.map (fun p => WStep.target p.1)).Nodup)
    (f : WField) (hf : f ∈ WField.all) :
    runSteps Wrapper.steps init l₁ f = runSteps Wrapper.steps init l₂ f :=
  Tables.wrapper_permutations_agree init l₁ l₂ hp hl hnd f hf

/-- The instance of the property text: a checksum set before `with_reply` survives it. -/
theorem checksum_survives_reply {α : Type} (e i q c r : α) :
    let args : Nat → CVal α := fun n => match n with | 0 => .supplied e | 1 => .supplied i | 2 => .supplied q | _ => .undef
    runSteps Wrapper.steps (construct Wrapper.steps .new args) [(.with_checksum, c), (.with_reply, r)] .checksum = .supplied c :=
  Tables.checksum_survives_reply e i q c r

end CwMt.C20
