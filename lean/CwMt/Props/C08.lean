import CwMt.Proofs.Engine
import CwMt.Proofs.Prefix
import CwMt.Proofs.Layout
import CwMt.Proofs.Flat
import CwMt.Proofs.FlatChain
/-
  C08 — Each contract's storage is private to it and is all it can touch.
  Two layers: (1) at the byte level, the raw key spaces of different contracts and of the other
  modules are disjoint for all key bytes (from the C07 prefix theorems, for the layout
  `["wasm", "contract_data/" ++ addr]`, `["wasm","contracts"]`, `["bank","balances"]`);
  (2) at the engine level, a contract call changes only the callee's window, and a whole message
  execution changes only the windows of contracts that were actually invoked.
-/
namespace CwMt.C08
open CwMt
variable {E : Type}

/-- A contract call touches nothing but the callee's own window. -/
theorem call_touches_own_window_only (cfg : Config E) (blk : Block) (ch ch' : Chain E) (addr : Addr)
    (en : Entry) (tr tr' : Trace) (resp : Response)
    (h : callContract cfg blk ch addr en tr = (.ok (resp, ch'), tr')) :
    ch'.bank = ch.bank ∧ ch'.contracts = ch.contracts ∧
      ∀ b, b ≠ addr → ch'.cstore.get? b = ch.cstore.get? b :=
  Engine.call_touches_own_window_only cfg blk ch ch' addr en tr tr' resp h

/-- Non-interference for whole executions: a contract that is not invoked during the execution of a
message (at any depth) keeps exactly its storage. -/
theorem cstore_frame (cfg : Config E) (hf : ExtFrame cfg) (blk : Block) (fuel : Nat) (ch ch' : Chain E)
    (sender : Addr) (m : Msg) (tr new : Trace) (r : AppResponse)
    (h : execute cfg blk fuel ch sender m tr = (.ok (r, ch'), tr ++ new))
    (a : Addr) (ha : ∀ e ∈ new, e.callee ≠ a) : ch'.cstore.get? a = ch.cstore.get? a :=
  Engine.cstore_frame cfg hf blk fuel ch ch' sender m tr new r h a ha

/-- What a raw query returns is the callee's window (absent = empty bytes). -/
theorem raw_query_reads_window (cfg : Config E) (eq : ExtKind → Chain E → Block → Val → Outcome Val)
    (blk : Block) (ch : Chain E) (c : String) (k : Val) (hv : cfg.validAddr c = true) :
    query cfg eq blk ch (.wasmRaw c k) = .ok (.bytes ((((ch.cstore.get? c).getD []).get k).getD [])) :=
  Engine.raw_query_reads_window cfg eq blk ch c k hv

/-- Byte level: the raw key spaces of two different contracts never meet, whatever keys they use. -/
theorem contract_windows_disjoint (a b : String) (pa pb k : Key)
    (ha : toLPNested [("wasm".toUTF8.toList), ("contract_data/" ++ a).toUTF8.toList] = .ok pa)
    (hb : toLPNested [("wasm".toUTF8.toList), ("contract_data/" ++ b).toUTF8.toList] = .ok pb)
    (hka : pa <+: k) (hkb : pb <+: k) : ("contract_data/" ++ a).toUTF8.toList = ("contract_data/" ++ b).toUTF8.toList :=
  Engine.contract_windows_disjoint a b pa pb k ha hb hka hkb

end CwMt.C08

/-
  Byte level, contract versus the rest of the chain store. The raw key layout
  (/repo/src/wasm.rs:30-33,142,156,169, staking.rs:111-113, bank.rs): contract `a` owns the raw keys
  under `toLPNested ["wasm", "contract_data/" ++ a]`; the contract registry lives under
  `toLPNested ["wasm", "contracts"]`; bank, staking and distribution under `toLPNested ["bank"]`,
  `["staking"]`, `["distribution"]`. For every address string and every raw key, whatever its
  bytes: a key of the contract's space is in none of the others. Lemmas (including what
  `String.toUTF8` of the literals is, byte by byte) live in CwMt/Proofs/Layout.lean.
-/
namespace CwMt.C08
open CwMt

theorem contract_window_disjoint_from_bank (a : String) (pc pm k : Key)
    (hc : toLPNested [("wasm".toUTF8.toList), ("contract_data/" ++ a).toUTF8.toList] = .ok pc)
    (hm : toLPNested [("bank".toUTF8.toList)] = .ok pm) (hkc : pc <+: k) (hkm : pm <+: k) : False :=
  Layout.contract_window_disjoint_from_bank a pc pm k hc hm hkc hkm

theorem contract_window_disjoint_from_staking (a : String) (pc pm k : Key)
    (hc : toLPNested [("wasm".toUTF8.toList), ("contract_data/" ++ a).toUTF8.toList] = .ok pc)
    (hm : toLPNested [("staking".toUTF8.toList)] = .ok pm) (hkc : pc <+: k) (hkm : pm <+: k) :
    False :=
  Layout.contract_window_disjoint_from_staking a pc pm k hc hm hkc hkm

theorem contract_window_disjoint_from_distribution (a : String) (pc pm k : Key)
    (hc : toLPNested [("wasm".toUTF8.toList), ("contract_data/" ++ a).toUTF8.toList] = .ok pc)
    (hm : toLPNested [("distribution".toUTF8.toList)] = .ok pm) (hkc : pc <+: k) (hkm : pm <+: k) :
    False :=
  Layout.contract_window_disjoint_from_distribution a pc pm k hc hm hkc hkm

/-- … nor in the contract registry, although both live under `wasm`: `contract_data/…` and
`contracts` differ in their ninth byte (`_` / `s`). -/
theorem contract_window_disjoint_from_registry (a : String) (pc pr k : Key)
    (hc : toLPNested [("wasm".toUTF8.toList), ("contract_data/" ++ a).toUTF8.toList] = .ok pc)
    (hr : toLPNested [("wasm".toUTF8.toList), ("contracts".toUTF8.toList)] = .ok pr)
    (hkc : pc <+: k) (hkr : pr <+: k) : False :=
  Layout.contract_window_disjoint_from_registry a pc pr k hc hr hkc hkr

/-! ### non-vacuity: the prefixes in the hypotheses exist and are the expected bytes -/

theorem bank_prefix : toLPNested [("bank".toUTF8.toList)] = .ok [0, 4, 98, 97, 110, 107] :=
  Layout.bank_prefix

theorem staking_prefix : toLPNested [("staking".toUTF8.toList)] =
    .ok [0, 7, 115, 116, 97, 107, 105, 110, 103] := Layout.staking_prefix

theorem distribution_prefix : toLPNested [("distribution".toUTF8.toList)] =
    .ok [0, 12, 100, 105, 115, 116, 114, 105, 98, 117, 116, 105, 111, 110] :=
  Layout.distribution_prefix

theorem registry_prefix : toLPNested [("wasm".toUTF8.toList), ("contracts".toUTF8.toList)] =
    .ok [0, 4, 119, 97, 115, 109, 0, 9, 99, 111, 110, 116, 114, 97, 99, 116, 115] :=
  Layout.registry_prefix

/-- Every address of at most 65521 bytes has a storage prefix (longer ones make `encode_length`
panic): `00 04 "wasm"`, the 2-byte big-endian length of the namespace, `"contract_data/"`, the
address. -/
theorem contract_prefix (a : String) (h : a.toUTF8.toList.length ≤ 65521) :
    toLPNested [("wasm".toUTF8.toList), ("contract_data/" ++ a).toUTF8.toList] =
      .ok ([0, 4, 119, 97, 115, 109] ++
        ([UInt8.ofNat ((14 + a.toUTF8.toList.length) / 256),
          UInt8.ofNat ((14 + a.toUTF8.toList.length) % 256)] ++
        ([99, 111, 110, 116, 114, 97, 99, 116, 95, 100, 97, 116, 97, 47] ++ a.toUTF8.toList))) :=
  Layout.contract_prefix a h

/-- the shortest possible address, the empty one: its space `00 04 wasm 00 0e contract_data/` and the
registry's `00 04 wasm 00 09 contracts` share the first six bytes and part ways at the length -/
example : toLPNested [("wasm".toUTF8.toList), ("contract_data/" ++ "").toUTF8.toList] =
    .ok [0, 4, 119, 97, 115, 109, 0, 14, 99, 111, 110, 116, 114, 97, 99, 116, 95, 100, 97, 116, 97, 47] := by
  rw [contract_prefix "" (by rw [show "" = String.ofList [] from rfl, Layout.utf8_ofList]; decide),
    show "" = String.ofList [] from rfl, Layout.utf8_ofList]
  decide


/-! ### from the one root store to the model's components

The engine model keeps `bank`, the contract registry, every `cstore[a]`, staking … as separate values; the code keeps
ONE `Storage`. `window pfx raw` is the component living under a namespace. A contract's write (or removal) through its
view of the root store is exactly that write on its own component, and the bank, staking, distribution and registry
components and every other contract's component are the same stores as before — as whole values, for every key. -/

theorem flat_contract_write (raw : Store Val) (hs : raw.Sorted) (a : String) (pc k : Key) (v : Val)
    (hc : toLPNested [("wasm".toUTF8.toList), ("contract_data/" ++ a).toUTF8.toList] = .ok pc) :
    window pc (View.set raw pc k v) = (window pc raw).set k v ∧
    (∀ pm, toLPNested [("bank".toUTF8.toList)] = .ok pm → window pm (View.set raw pc k v) = window pm raw) ∧
    (∀ pm, toLPNested [("staking".toUTF8.toList)] = .ok pm → window pm (View.set raw pc k v) = window pm raw) ∧
    (∀ pm, toLPNested [("distribution".toUTF8.toList)] = .ok pm → window pm (View.set raw pc k v) = window pm raw) ∧
    (∀ pr, toLPNested [("wasm".toUTF8.toList), ("contracts".toUTF8.toList)] = .ok pr →
      window pr (View.set raw pc k v) = window pr raw) ∧
    (∀ (b : String) (pb : Key),
      ("contract_data/" ++ a).toUTF8.toList ≠ ("contract_data/" ++ b).toUTF8.toList →
      toLPNested [("wasm".toUTF8.toList), ("contract_data/" ++ b).toUTF8.toList] = .ok pb →
      window pb (View.set raw pc k v) = window pb raw) := by
  have w := Flat.write_refines raw hs pc k v
  refine ⟨w.1, ?_, ?_, ?_, ?_, ?_⟩
  · intro pm hm
    exact w.2 pm (fun x hx hy => Layout.contract_window_disjoint_from_bank a pc pm x hc hm hx hy)
  · intro pm hm
    exact w.2 pm (fun x hx hy => Layout.contract_window_disjoint_from_staking a pc pm x hc hm hx hy)
  · intro pm hm
    exact w.2 pm (fun x hx hy => Layout.contract_window_disjoint_from_distribution a pc pm x hc hm hx hy)
  · intro pr hr
    exact w.2 pr (fun x hx hy => Layout.contract_window_disjoint_from_registry a pc pr x hc hr hx hy)
  · intro b pb hne hb
    exact w.2 pb (fun x hx hy => hne (Engine.contract_windows_disjoint a b pc pb x hc hb hx hy))

theorem flat_contract_remove (raw : Store Val) (a : String) (pc k : Key)
    (hc : toLPNested [("wasm".toUTF8.toList), ("contract_data/" ++ a).toUTF8.toList] = .ok pc) :
    window pc (View.remove raw pc k) = (window pc raw).remove k ∧
    (∀ pm, toLPNested [("bank".toUTF8.toList)] = .ok pm → window pm (View.remove raw pc k) = window pm raw) ∧
    (∀ pm, toLPNested [("staking".toUTF8.toList)] = .ok pm → window pm (View.remove raw pc k) = window pm raw) ∧
    (∀ pm, toLPNested [("distribution".toUTF8.toList)] = .ok pm → window pm (View.remove raw pc k) = window pm raw) ∧
    (∀ pr, toLPNested [("wasm".toUTF8.toList), ("contracts".toUTF8.toList)] = .ok pr →
      window pr (View.remove raw pc k) = window pr raw) ∧
    (∀ (b : String) (pb : Key),
      ("contract_data/" ++ a).toUTF8.toList ≠ ("contract_data/" ++ b).toUTF8.toList →
      toLPNested [("wasm".toUTF8.toList), ("contract_data/" ++ b).toUTF8.toList] = .ok pb →
      window pb (View.remove raw pc k) = window pb raw) := by
  have w := Flat.remove_refines raw pc k
  refine ⟨w.1, ?_, ?_, ?_, ?_, ?_⟩
  · intro pm hm
    exact w.2 pm (fun x hx hy => Layout.contract_window_disjoint_from_bank a pc pm x hc hm hx hy)
  · intro pm hm
    exact w.2 pm (fun x hx hy => Layout.contract_window_disjoint_from_staking a pc pm x hc hm hx hy)
  · intro pm hm
    exact w.2 pm (fun x hx hy => Layout.contract_window_disjoint_from_distribution a pc pm x hc hm hx hy)
  · intro pr hr
    exact w.2 pr (fun x hx hy => Layout.contract_window_disjoint_from_registry a pc pr x hc hr hx hy)
  · intro b pb hne hb
    exact w.2 pb (fun x hx hy => hne (Engine.contract_windows_disjoint a b pc pb x hc hb hx hy))

/-- the frame works in the other direction too: a write by ANY module under a namespace disjoint from the contract's
leaves the contract's component untouched (bank transfers, registry updates, staking bookkeeping) -/
theorem flat_foreign_write (raw : Store Val) (q r pc : Key) (v : Val) (hq : q <+: r)
    (hd : Flat.Disjoint q pc) : window pc (Store.set raw r v) = window pc raw := by
  apply Flat.window_set_other
  cases h : hasPrefix pc r with
  | false => rfl
  | true =>
    obtain ⟨t, ht⟩ := Prefix.hasPrefix_iff.1 h
    exact (hd r hq ⟨t, ht.symm⟩).elim

/-! ### the flat store computed by the model (`Flat.flatten`, compared byte for byte with the real root storage by `rawdump`) -/

/-- what the root storage holds under a contract's storage key `00 04 wasm len(contract_data/‖a) contract_data/ a ‖ k` is what that
contract's own store holds under `k` — for every key `k`, whatever its bytes — and nothing when the contract has no store -/
theorem flat_store_contract_entry (ch : Chain E) (wf : Flat.FlatWF ch) (a : Addr) (k : Key) (ha : (Flat.utf8 a).length ≤ 65521) :
    (Flat.flatten ch).get (Flat.storeKey a k) = (ch.cstore.get? a).bind (·.get k) :=
  Flat.flatten_store ch wf a k ha

/-- the key of one contract's entry is never the key of another contract's entry, of a balance or of a registry record -/
theorem flat_keys_disjoint (a b : Addr) (k k' : Key) (ha : (Flat.utf8 a).length ≤ 65521) (hb : (Flat.utf8 b).length ≤ 65521) :
    (Flat.storeKey a k = Flat.storeKey b k' → a = b ∧ k = k') ∧ Flat.bankKey b ≠ Flat.storeKey a k ∧ Flat.contractKey b ≠ Flat.storeKey a k :=
  ⟨Flat.storeKey_inj ha hb, Flat.bankKey_ne_storeKey b a k, Flat.contractKey_ne_storeKey b a k ha⟩

end CwMt.C08
