import CwMt.Proofs.Engine
import CwMt.Proofs.Prefix
/-
  C08 — Each contract's storage is private to it and is all it can touch.
  Two layers: (1) at the byte level, the raw key spaces of different contracts and of the other
  modules are disjoint for all key bytes (from the C07 prefix theorems, for the layout
  `["wasm", "contract_data/" ++ addr]`, `["wasm","contracts"]`, `["bank","balances"]`);
  (2) at the engine level, a contract call changes only the callee's window, and a whole message
  execution changes only the windows of contracts that were actually invoked.
-/
namespace CwMt.C08
open CwMt
variable {E : Type}

/-- A contract call touches nothing but the callee's own window. -/
theorem call_touches_own_window_only (cfg : Config E) (blk : Block) (ch ch' : Chain E) (addr : Addr)
    (en : Entry) (tr tr' : Trace) (resp : Response)
    (h : callContract cfg blk ch addr en tr = (.ok (resp, ch'), tr')) :
    ch'.bank = ch.bank ∧ ch'.contracts = ch.contracts ∧
      ∀ b, b ≠ addr → ch'.cstore.get? b = ch.cstore.get? b :=
  Engine.call_touches_own_window_only cfg blk ch ch' addr en tr tr' resp h

/-- Non-interference for whole executions: a contract that is not invoked during the execution of a
message (at any depth) keeps exactly its storage. -/
theorem cstore_frame (cfg : Config E) (hf : ExtFrame cfg) (blk : Block) (fuel : Nat) (ch ch' : Chain E)
    (sender : Addr) (m : Msg) (tr new : Trace) (r : AppResponse)
    (h : execute cfg blk fuel ch sender m tr = (.ok (r, ch'), tr ++ new))
    (a : Addr) (ha : ∀ e ∈ new, e.callee ≠ a) : ch'.cstore.get? a = ch.cstore.get? a :=
  Engine.cstore_frame cfg hf blk fuel ch ch' sender m tr new r h a ha

/-- What a raw query returns is the callee's window (absent = empty bytes). -/
theorem raw_query_reads_window (cfg : Config E) (eq : ExtKind → Chain E → Block → Val → Outcome Val)
    (blk : Block) (ch : Chain E) (c : String) (k : Val) (hv : cfg.validAddr c = true) :
    query cfg eq blk ch (.wasmRaw c k) = .ok (.bytes ((((ch.cstore.get? c).getD []).get k).getD [])) :=
  Engine.raw_query_reads_window cfg eq blk ch c k hv

/-- Byte level: the raw key spaces of two different contracts never meet, whatever keys they use. -/
theorem contract_windows_disjoint (a b : String) (pa pb k : Key)
    (ha : toLPNested [("wasm".toUTF8.toList), ("contract_data/" ++ a).toUTF8.toList] = .ok pa)
    (hb : toLPNested [("wasm".toUTF8.toList), ("contract_data/" ++ b).toUTF8.toList] = .ok pb)
    (hka : pa <+: k) (hkb : pb <+: k) : ("contract_data/" ++ a).toUTF8.toList = ("contract_data/" ++ b).toUTF8.toList :=
  Engine.contract_windows_disjoint a b pa pb k ha hb hka hkb

end CwMt.C08
