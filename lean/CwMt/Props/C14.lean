import CwMt.Proofs.StakingExample
/-
  C14 — Delegations, unbonding and payouts account for every staked token.
  Property theorems only; the proofs live in CwMt/Proofs/Staking{Basic,Bank,,Inv,Ops}.lean.

  Model: CwMt/Model/Staking.lean (`Staking.step`, `Op`, `Chain`), bank CwMt/Model/Bank.lean.
  `Inv cfg c` is the invariant of the machine: (I1) every staker of a validator has a record, (I2) every record's
  owner is in the staker set, (I3) the unbonding queue is sorted by payout time, (I4) the pool balance covers all
  validator totals plus all queued amounts, (I5) a validator's total is at least the whole tokens of the sum of the shares
  of its records (after a slash it is exactly that; delegate / undelegate / redelegate move both sides by the same whole
  amount; block updates only drop records that show 0); side conditions: commissions ≤ 1, no reward calculation in the future
  (monotone time), the pool account itself never undelegated, stored balances normalised.
  `Op.okFor cfg op` = "nobody signs as the pool account". `stakeOf s d v` is the delegation's fractional value
  (0 without record); the Delegation query shows `(stakeOf s d v).floor`.
-/
namespace CwMt.C14
open CwMt CwMt.Staking

/-! ### the invariant and absence of panics -/

/-- Every set-up chain (any parameters, validators with commissions ≤ 1, normalised bank) satisfies `Inv`. -/
theorem inv_setup (cfg : Cfg) (info : StakingInfo) (vals : List Validator) (bank : Bank.State) (t h : Nat)
    (hc : ∀ vo ∈ vals, vo.commission.atomics ≤ Dec.ONE) (hwf : BankFacts.WF bank) :
    Inv cfg (freshChain info vals bank t h) := inv_fresh cfg info vals bank t h hc hwf

/-- `Inv` is inductive: every operation and every block update preserves it. -/
theorem inv_preserved {cfg : Cfg} {c : Chain} {op : Op} (hi : Inv cfg c) (hop : op.okFor cfg) :
    Inv cfg (step cfg c op).1 := step_inv hi hop

/-- Full strength: from any state satisfying `Inv`, no history of delegate / undelegate / redelegate / withdraw /
set-withdraw-address / slash operations and block updates makes any call panic (this includes the `unwrap` of
`process_queue` in block updates), and `Inv` holds at the end. -/
theorem no_panic {cfg : Cfg} (ops : List Op) (c : Chain) (hi : Inv cfg c) (hok : ∀ op ∈ ops, op.okFor cfg) :
    Inv cfg (runAll cfg c ops).1 ∧ ∀ r ∈ (runAll cfg c ops).2, r ≠ .panic := runAll_inv ops c hi hok

/-- A block update never fails. -/
theorem block_update_never_fails {cfg : Cfg} {c : Chain} (secs : Nat) (hi : Inv cfg c) :
    (step cfg c (.advance secs)).2 = .ok := step_advance_ok secs hi

/-! ### delegate -/

/-- Delegating moves exactly the amount from the delegator to the pool (and no other balance of any denom), raises
the delegation by exactly the amount, and leaves every other delegation, the queue and the withdraw addresses alone. -/
theorem delegate_exact {cfg : Cfg} {c c' : Chain} {a : Addr} {v : String} {coin : Coin}
    (hwf : BankFacts.WF c.bank) (h : delegate cfg c a v coin = .ok c') :
    (∀ x d, Bank.queryBalance c'.bank x d + (if x = a ∧ d = coin.denom then coin.amount else 0) =
            Bank.queryBalance c.bank x d + (if x = cfg.pool ∧ d = coin.denom then coin.amount else 0)) ∧
    stakeOf c'.st a v = Dec.add (stakeOf c.st a v) (Dec.ofNat coin.amount) ∧
    (stakeOf c'.st a v).floor = (stakeOf c.st a v).floor + coin.amount ∧
    (∀ d2 w, (d2, w) ≠ (a, v) → stakeOf c'.st d2 w = stakeOf c.st d2 w) ∧
    c'.st.queue = c.st.queue ∧ c'.st.withdraw = c.st.withdraw := by
  have e := delegate_effect hwf h
  exact ⟨e.2.2.2.1, e.2.2.2.2.1, delegate_shown hwf h, e.2.2.2.2.2.1, e.2.2.2.2.2.2.2.2.1, e.2.2.2.2.2.2.2.2.2.1⟩

/-- I5 at work: a delegation's whole tokens never exceed the validator total, so undelegating any amount up to the
SHOWN delegation from a known validator succeeds (before the fix of `slash` it could fail with an overflow error). -/
theorem undelegate_shown_succeeds {cfg : Cfg} {c : Chain} {a : Addr} {v : String} {coin : Coin} {vo : Validator}
    (hi : Inv cfg c) (hvo : c.st.validator? v = some vo) (hden : coin.denom = c.st.info.bondedDenom)
    (hnz : coin.amount ≠ 0) (hle : coin.amount ≤ (stakeOf c.st a v).floor) :
    ∃ c', undelegate c a v coin = .ok c' := Staking.undelegate_shown_succeeds hi hvo hden hnz hle

/-- I5 itself: the whole tokens of any recorded delegation are covered by the validator total. -/
theorem total_covers_delegation {cfg : Cfg} {c : Chain} (hi : Inv cfg c) {d : Addr} {v : String} {sh : Shares}
    {vi : ValInfo} (hs : KMap.get? c.st.stakes (d, v) = some sh) (hv : KMap.get? c.st.vinfo v = some vi) :
    sh.stake.floor ≤ vi.stake := floor_le_total hi.tinv hs hv

/-! ### rejection without effect -/

/-- delegate: zero amount, foreign denomination or unknown validator -/
theorem rejects_delegate {cfg : Cfg} {c : Chain} {a : Addr} {v : String} {coin : Coin} (hi : Inv cfg c)
    (hbad : coin.amount = 0 ∨ coin.denom ≠ c.st.info.bondedDenom ∨ c.st.validator? v = none) :
    step cfg c (.delegate a v coin) = (c, .err) :=
  step_rejected hi (delegate_rejects hi.bank_wf hbad)

/-- undelegate: zero amount, foreign denomination, unknown validator, or more than is delegated -/
theorem rejects_undelegate {cfg : Cfg} {c : Chain} {a : Addr} {v : String} {coin : Coin} (hi : Inv cfg c)
    (hbad : coin.amount = 0 ∨ coin.denom ≠ c.st.info.bondedDenom ∨ c.st.validator? v = none ∨
      stakeOf c.st a v < Dec.ofNat coin.amount) :
    step cfg c (.undelegate a v coin) = (c, .err) :=
  step_rejected hi (undelegate_rejects hbad)

/-- redelegate: foreign denomination, unknown source or destination validator, or more than is delegated -/
theorem rejects_redelegate {cfg : Cfg} {c : Chain} {a : Addr} {v1 v2 : String} {coin : Coin} (hi : Inv cfg c)
    (hbad : coin.denom ≠ c.st.info.bondedDenom ∨ c.st.validator? v1 = none ∨ c.st.validator? v2 = none ∨
      stakeOf c.st a v1 < Dec.ofNat coin.amount) :
    step cfg c (.redelegate a v1 v2 coin) = (c, .err) :=
  step_rejected hi (redelegate_rejects hbad)

/-- whatever does not succeed leaves the whole chain unchanged -/
theorem failed_without_effect {cfg : Cfg} {c : Chain} {op : Op} (h : (step cfg c op).2 ≠ .ok) :
    (step cfg c op).1 = c := step_not_ok_unchanged h

/-! ### unbonding and payout -/

/-- An undelegated amount leaves the delegation at once, is queued with payout time `now + unbonding_time`, and no
coin moves yet. -/
theorem undelegate_at_once {c c' : Chain} {a : Addr} {v : String} {coin : Coin} (h : undelegate c a v coin = .ok c') :
    stakeOf c'.st a v = Dec.sub (stakeOf c.st a v) (Dec.ofNat coin.amount) ∧
    (stakeOf c'.st a v).floor = (stakeOf c.st a v).floor - coin.amount ∧
    c'.st.queue = c.st.queue ++ [⟨a, v, coin.amount, c.time + NS * c.st.info.unbondingTime⟩] ∧
    c'.bank = c.bank := by
  have e := undelegate_effect h
  exact ⟨e.2.2.2.2.1, undelegate_shown h, e.2.2.2.2.2.2.2.1, e.2.2.2.2.2.2.2.2.1⟩

/-- While pending, an entry changes only by slashes of its validator: `amount ↦ ⌊amount·(1−p)⌋`. -/
theorem pending_slashed {c c' : Chain} {v : String} {p : Dec} (hi : SInv c.st) (h : sudoSlash c v p = .ok c') :
    c'.st.queue = c.st.queue.map (fun u =>
      if u.validator = v then { u with amount := Dec.mulFloor u.amount (remOf p) } else u) :=
  (slash_frame hi h).2.2.2.2

/-- … and by nothing else: delegate, redelegate, withdraw and set-withdraw-address leave the queue alone. -/
theorem pending_frame {cfg : Cfg} {c c' : Chain} (hi : Inv cfg c) :
    (∀ a v coin, delegate cfg c a v coin = .ok c' → c'.st.queue = c.st.queue) ∧
    (∀ a v1 v2 coin, redelegate c a v1 v2 coin = .ok c' → c'.st.queue = c.st.queue) ∧
    (∀ a v, withdrawRewards cfg c a v = .ok c' → c'.st.queue = c.st.queue) := by
  refine ⟨fun a v coin h => (delegate_effect hi.bank_wf h).2.2.2.2.2.2.2.2.1,
    fun a v1 v2 coin h => (redelegate_effect h).2.2.2.2.2.2.1,
    fun a v h => (withdraw_effect hi.sinv hi.last_le h).frame.1⟩

/-- Payout: a block update to time `now` pays exactly the queued entries with `payout_at ≤ now`, each in full (its
current amount) to its delegator; entries not yet due stay queued untouched — so an entry is paid by the first block
update at or after its payout time and not before; no other balance (except the pool's) and no shown delegation changes. -/
theorem unbonding_payout {cfg : Cfg} {c : Chain} (secs : Nat) (hi : Inv cfg c) :
    ∃ c' pre, advance cfg c secs = .ok c' ∧ c'.time = c.time + secs ∧
      c.st.queue = pre ++ c'.st.queue ∧ (∀ u ∈ pre, u.payoutAt ≤ c.time + secs) ∧
      (∀ u ∈ c'.st.queue, c.time + secs < u.payoutAt) ∧
      (∀ d v, (stakeOf c'.st d v).floor = (stakeOf c.st d v).floor) ∧
      (∀ x d, x ≠ cfg.pool → Bank.queryBalance c'.bank x d =
          Bank.queryBalance c.bank x d + (if d = c.st.info.bondedDenom then paidTo pre x else 0)) :=
  advance_payout secs hi

/-! ### non-vacuity -/

/-- a concrete set-up chain satisfies the invariant … -/
example : Inv exCfg exChain := exChain_inv
/-- … and the five-step D3 history (which panicked before the fix of `process_queue`) runs without panic -/
example : (runAll exCfg exChain d3History).2 = [.ok, .ok, .ok, .ok, .ok, .ok, .ok] := by decide
example : (step exCfg exChain (.delegate "d1" "v9" ⟨"TOKEN", 2⟩)).2 = .err := by decide
example : (step exCfg exChain (.delegate "d1" "v1" ⟨"OTHER", 2⟩)).2 = .err := by decide
example : (step exCfg (runAll exCfg exChain d3History).1 (.undelegate "d2" "v1" ⟨"TOKEN", 7⟩)).2 = .err := by decide
/-- the payout of the D3 history: d1's single token, halved by the slash, floors to 0; d2 delegated 11 in total -/
example : Bank.queryBalance (runAll exCfg exChain d3History).1.bank "d1" "TOKEN" = 98 ∧
    Bank.queryBalance (runAll exCfg exChain d3History).1.bank "pool" "TOKEN" = 13 := by decide

/-- the old F1 shape: 3 tokens, two 10 % slashes (share 2.43): the shown 2 tokens can be undelegated -/
example : (runAll exCfg exChain [.delegate "d1" "v1" ⟨"TOKEN", 3⟩, .slash "v1" ⟨100000000000000000⟩,
    .slash "v1" ⟨100000000000000000⟩, .undelegate "d1" "v1" ⟨"TOKEN", 2⟩]).2 = [.ok, .ok, .ok, .ok] := by decide

end CwMt.C14
