import CwMt.Proofs.EngineInv
import CwMt.Proofs.EngineB
import CwMt.Proofs.EngineBig
/-
  C11 — Code ids and contract addresses are unique, stable and usable.
  Model: CwMt/Model/Registry.lean (code registry) and `registerContract` of CwMt/Model/Engine.lean.
  The address generators are parameters (`cfg.addrClassic`, `cfg.addrSalted`; SHA-256 is not
  modelled): statements about addresses are of the form "the address is the generator applied to
  exactly these arguments".
-/
namespace CwMt.C11
open CwMt
variable {E : Type}

/-- registry invariant: ids strictly increasing (hence pairwise distinct) and within 1 ..= u64::MAX -/
def RegInv (codes : Registry.Codes) : Prop :=
  codes.Pairwise (fun a b => a.1 < b.1) ∧ ∀ p ∈ codes, 1 ≤ p.1 ∧ p.1 ≤ Registry.u64Max

theorem reg_inv_empty : RegInv [] := EngineB.reg_inv_empty

theorem reg_inv_store (st st' : Registry.State) (creator : Addr) (chk : Nat → Val) (id : Nat)
    (hi : RegInv st.codes) (h : Registry.storeCode st creator chk = .ok (id, st')) : RegInv st'.codes :=
  EngineB.reg_inv_store st st' creator chk id hi h

theorem reg_inv_store_with_id (st st' : Registry.State) (creator : Addr) (chk : Nat → Val) (id id' : Nat)
    (hi : RegInv st.codes) (hle : id ≤ Registry.u64Max)
    (h : Registry.storeCodeWithId st creator id chk = .ok (id', st')) : RegInv st'.codes :=
  EngineB.reg_inv_store_with_id st st' creator chk id id' hi hle h

theorem reg_inv_duplicate (st st' : Registry.State) (id nid : Nat)
    (hi : RegInv st.codes) (h : Registry.duplicateCode st id = .ok (nid, st')) : RegInv st'.codes :=
  EngineB.reg_inv_duplicate st st' id nid hi h

/-- auto-assigned ids are one more than the largest id in use, hence new -/
theorem auto_id (st st' : Registry.State) (creator : Addr) (chk : Nat → Val) (id : Nat)
    (h : Registry.storeCode st creator chk = .ok (id, st')) :
    id = Registry.maxId st.codes + 1 ∧ (∀ p ∈ st.codes, p.1 < id) ∧ st.codes.lookup id = none :=
  EngineB.auto_id st st' creator chk id h

/-- explicitly chosen ids are honoured iff non-zero and unused; otherwise rejected -/
theorem explicit_id_iff (st : Registry.State) (creator : Addr) (chk : Nat → Val) (id : Nat) :
    (∃ st', Registry.storeCodeWithId st creator id chk = .ok (id, st')) ↔
      (id ≠ 0 ∧ st.codes.lookup id = none) :=
  EngineB.explicit_id_iff st creator chk id

theorem explicit_id_rejected (st : Registry.State) (creator : Addr) (chk : Nat → Val) (id : Nat)
    (h : id = 0 ∨ (st.codes.lookup id).isSome = true) : Registry.storeCodeWithId st creator id chk = .err :=
  EngineB.explicit_id_rejected st creator chk id h

/-- every stored code is found under its id afterwards, and storing never disturbs other ids -/
theorem stored_code_found (st : Registry.State) (hi : RegInv st.codes) (id : Nat) (cd : CodeData) :
    (Registry.insert st.codes id cd).lookup id = some cd ∧
    ∀ j, j ≠ id → (Registry.insert st.codes id cd).lookup j = st.codes.lookup j :=
  EngineB.stored_code_found st hi id cd

/-- a stored code passes the registry check of instantiate / migrate and answers CodeInfo
(full strength: any registered id, contiguous or not) -/
theorem stored_code_usable (cfg : Config E) (id : Nat) (cd : CodeData) (hid : 1 ≤ id)
    (h : cfg.codes.lookup id = some cd) : codeKnown cfg id = true ∧ codeData? cfg id = some cd :=
  EngineB.stored_code_usable cfg id cd hid h

/-- a duplicated code shares creator, checksum and source with the original -/
theorem duplicate_shares (st st' : Registry.State) (id nid : Nat) (hi : RegInv st.codes)
    (h : Registry.duplicateCode st id = .ok (nid, st')) :
    nid = Registry.maxId st.codes + 1 ∧ st'.codes.lookup nid = st.codes.lookup id ∧ (st.codes.lookup id).isSome = true :=
  EngineB.duplicate_shares st st' id nid hi h

/-- A successful registration creates a contract at an address no existing contract has, records
exactly what was supplied, and leaves every other contract record, all balances and all contract
storage alone. -/
theorem fresh_address (cfg : Config E) (ch ch' : Chain E) (codeId : Nat) (creator : Addr) (admin : Option Addr)
    (label : String) (created : Nat) (salt : Option Val) (addr : Addr)
    (h : registerContract cfg ch codeId creator admin label created salt = .ok (addr, ch')) :
    ch.contracts.get? addr = none ∧
    ch'.contracts.get? addr = some { codeId := codeId, creator := creator, admin := admin, label := label, created := created } ∧
    (∀ b, b ≠ addr → ch'.contracts.get? b = ch.contracts.get? b) ∧
    ch'.bank = ch.bank ∧ ch'.cstore = ch.cstore :=
  EngineB.fresh_address cfg ch ch' codeId creator admin label created salt addr h

/-- classic address = generator(code id, number of contracts at that moment) -/
theorem classic_address_inputs (cfg : Config E) (ch ch' : Chain E) (codeId : Nat) (creator : Addr)
    (admin : Option Addr) (label : String) (created : Nat) (addr : Addr)
    (h : registerContract cfg ch codeId creator admin label created none = .ok (addr, ch')) :
    cfg.addrClassic codeId ch.contracts.length = .ok addr :=
  EngineB.classic_address_inputs cfg ch ch' codeId creator admin label created addr h

/-- with a salt the address is generator(checksum of the code, creator, salt) and nothing else -/
theorem salted_address_inputs (cfg : Config E) (ch ch' : Chain E) (codeId : Nat) (creator : Addr)
    (admin : Option Addr) (label : String) (created : Nat) (salt : Val) (addr : Addr)
    (h : registerContract cfg ch codeId creator admin label created (some salt) = .ok (addr, ch')) :
    ∃ cd, codeData? cfg codeId = some cd ∧ cfg.addrSalted cd.checksum creator salt = .ok addr :=
  EngineB.salted_address_inputs cfg ch ch' codeId creator admin label created salt addr h

/-- repeating a salted instantiation (same code, creator, salt — any admin/label/height, any later
state that still holds the contract) is rejected as a duplicate -/
theorem salted_repeat_rejected (cfg : Config E) (ch ch' ch₂ : Chain E) (codeId : Nat) (creator : Addr)
    (admin admin₂ : Option Addr) (label label₂ : String) (created created₂ : Nat) (salt : Val) (addr : Addr)
    (h : registerContract cfg ch codeId creator admin label created (some salt) = .ok (addr, ch'))
    (hstill : (ch₂.contracts.get? addr).isSome = true) :
    registerContract cfg ch₂ codeId creator admin₂ label₂ created₂ (some salt) = .err :=
  EngineB.salted_repeat_rejected cfg ch ch' ch₂ codeId creator admin admin₂ label label₂ created created₂ salt addr h hstill

/-- an empty label is rejected before anything happens -/
theorem empty_label_rejected (cfg : Config E) (blk : Block) (fuel : Nat) (ch : Chain E) (sender : Addr)
    (admin : Option String) (codeId : Nat) (m : Val) (funds : Coins) (salt : Option Val) (tr : Trace) :
    execute cfg blk (fuel + 1) ch sender (.wasmInstantiate admin codeId m funds "" salt) tr = (.err, tr) :=
  EngineB.empty_label_rejected cfg blk fuel ch sender admin codeId m funds salt tr

/-- non-vacuity: non-contiguous ids -/
example : ∃ st', Registry.storeCodeWithId {} "creator" 10 (fun _ => []) = .ok (10, st') ∧
    st'.codes.lookup 10 = some { creator := "creator", checksum := [], sourceId := 0 } := ⟨_, rfl, by decide⟩

end CwMt.C11

/-! ### stability over whole executions -/
namespace CwMt.C11
open CwMt

/-- Whatever a message tree does, every contract that existed before still exists afterwards at the
same address with the creator, label and creation height it was registered with. -/
theorem registry_stable {E : Type} (cfg : Config E) (hf : ExtFrame cfg) (blk : Block) (fuel : Nat)
    (ch ch' : Chain E) (sender : Addr) (m : Msg) (tr tr' : Trace) (r : AppResponse)
    (h : execute cfg blk fuel ch sender m tr = (.ok (r, ch'), tr'))
    (c : Addr) (cd : ContractData) (hc : ch.contracts.get? c = some cd) :
    ∃ cd', ch'.contracts.get? c = some cd' ∧ cd'.creator = cd.creator ∧ cd'.label = cd.label ∧
      cd'.created = cd.created :=
  EngineInv.registry_stable cfg hf blk fuel ch ch' sender m tr tr' r h c cd hc

/-! ### the complete rule of `WasmMsg::Instantiate(2)` as a fuel-free judgement (CwMt/Model/EngineBig.lean) -/

/-- `WasmMsg::Instantiate(2)`: register, move the funds to the new address, run `instantiate` there, then its
sub-messages; the data is always the instantiate-response encoding of the new address and the final data -/
theorem instantiate_rule (cfg : Config E) (blk : Block) (ch : Chain E) (s : Addr) (admin : Option String)
    (codeId : Nat) (m : Val) (funds : Coins) (label : String) (salt : Option Val) (o : Out E) :
    Exec cfg blk ch s (.wasmInstantiate admin codeId m funds label salt) o ↔
      (if label.isEmpty = true then o = .err else
       match registerContract cfg ch codeId s admin label blk.height salt with
       | .ok (addr, ch₀) =>
         (match sendFunds ch₀ s addr funds with
          | .ok ch₁ =>
            (match (callContract cfg blk ch₁ addr (.instantiate ⟨s, funds⟩ m) []).1 with
             | .ok (resp, ch₂) =>
               ∃ o', Proc cfg blk ch₂ addr
                   (buildAppResponse addr { ty := "instantiate", attrs := [contractAttr addr, ⟨"code_id", toString codeId⟩] } resp).1
                   (buildAppResponse addr { ty := "instantiate", attrs := [contractAttr addr, ⟨"code_id", toString codeId⟩] } resp).2 o' ∧
                 o = (match o' with
                      | .ok (r, ch₃) => .ok ({ r with data := some (encodeInstantiateResponse addr (r.data.getD [])) }, ch₃)
                      | other => other)
             | .err => o = .err
             | .panic => o = .panic
             | .outOfFuel => False)
          | .err => o = .err
          | .panic => o = .panic
          | .outOfFuel => False)
       | .err => o = .err
       | .panic => o = .panic
       | .outOfFuel => False) :=
  EngineBig.exec_wasm_instantiate cfg blk ch s admin codeId m funds label salt o

end CwMt.C11
