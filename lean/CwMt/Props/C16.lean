import CwMt.Proofs.StakingExample
/-
  C16 — Slashing scales the slashed validator's stake and nothing else.
  Property theorems only; the proofs live in CwMt/Proofs/Staking{Slash,Rewards}.lean.

  Readings (DESIGN.md section 7): R2 — the value that is scaled is the delegation's fractional value
  `stakeOf s d v` (18 digits), the Delegation query shows its floor. `remOf p = 1 − p`.
  `SInv` is the storage part of the C14 invariant (staker sets in step with the records), `LastLe` says that no reward
  calculation lies in the future; both hold in every reachable state (C14.no_panic).
-/
namespace CwMt.C16
open CwMt CwMt.Staking KMap

/-- Every delegation to `v` becomes exactly `mul(share, 1−p)` (floor at 10^-18) — unless the new validator total
`⌊Σ scaled shares⌋` is zero: then all delegations of `v` are dropped, and all of them together were worth less than
one token after scaling (so each of them, too): only sub-token remainders are lost. -/
theorem scales_down {c c' : Chain} {v : String} {p : Dec} (hi : SInv c.st) (h : sudoSlash c v p = .ok c') :
    (scaledTotal c.st.stakes v (remOf p) / Dec.ONE ≠ 0 →
        ∀ d, stakeOf c'.st d v = Dec.mul (stakeOf c.st d v) (remOf p)) ∧
    (scaledTotal c.st.stakes v (remOf p) / Dec.ONE = 0 →
        scaledTotal c.st.stakes v (remOf p) < Dec.ONE ∧
        ∀ d, stakeOf c'.st d v = Dec.zero ∧ (Dec.mul (stakeOf c.st d v) (remOf p)).atomics < Dec.ONE) :=
  slash_scales_exact hi h

/-- Nothing increases: neither the record nor the shown value. -/
theorem never_increases {c c' : Chain} {v : String} {p : Dec} (hi : SInv c.st) (h : sudoSlash c v p = .ok c') (d : Addr) :
    stakeOf c'.st d v ≤ Dec.mul (stakeOf c.st d v) (remOf p) ∧ stakeOf c'.st d v ≤ stakeOf c.st d v ∧
    (stakeOf c'.st d v).floor ≤ (stakeOf c.st d v).floor := slash_scales_down hi h d

/-- The validator total becomes the whole tokens of the sum of the scaled shares, i.e. of the shares it now has. -/
theorem total_is_sum_of_shares {c c' : Chain} {v : String} {p : Dec} (hi : SInv c.st) (h : sudoSlash c v p = .ok c') :
    ∃ vi vi', get? c.st.vinfo v = some vi ∧ get? c'.st.vinfo v = some vi' ∧
      vi'.stake = scaledTotal c.st.stakes v (remOf p) / Dec.ONE ∧
      (vi'.stake ≠ 0 → (∀ d, stakeOf c'.st d v = Dec.mul (stakeOf c.st d v) (remOf p)) ∧
                        vi'.stake = shareSum c'.st.stakes v / Dec.ONE ∧ vi'.stakers = vi.stakers) ∧
      (vi'.stake = 0 → (∀ d, get? c'.st.stakes (d, v) = none) ∧ scaledTotal c.st.stakes v (remOf p) < Dec.ONE) :=
  (slash_effect hi h).total

/-- Pending unbondings from `v` become `⌊amount·(1−p)⌋`, those from other validators are untouched. -/
theorem unbondings_scaled {c c' : Chain} {v : String} {p : Dec} (hi : SInv c.st) (h : sudoSlash c v p = .ok c') :
    c'.st.queue = c.st.queue.map (fun u =>
      if u.validator = v then { u with amount := Dec.mulFloor u.amount (remOf p) } else u) :=
  (slash_frame hi h).2.2.2.2

/-- Exact when whole: a whole delegation `n` whose scaled value `n·(1−p) = m` is whole becomes exactly `m` and is
whole again. -/
theorem exact_when_whole {c c' : Chain} {v : String} {p : Dec} (hi : SInv c.st)
    (h : sudoSlash c v p = .ok c') (d : Addr) (n m : Nat)
    (hn : stakeOf c.st d v = Dec.ofNat n) (hm : n * (remOf p).atomics = Dec.ONE * m) :
    stakeOf c'.st d v = Dec.ofNat m ∧ (stakeOf c'.st d v).floor = m :=
  slash_exact_when_whole hi h d n m hn hm

/-- Frame: bank balances, withdraw addresses, every record and total of other validators are unchanged. -/
theorem frame {c c' : Chain} {v : String} {p : Dec} (hi : SInv c.st) (h : sudoSlash c v p = .ok c') :
    c'.bank = c.bank ∧ c'.st.withdraw = c.st.withdraw ∧
    (∀ k : Addr × String, k.2 ≠ v → get? c'.st.stakes k = get? c.st.stakes k) ∧
    (∀ w, w ≠ v → get? c'.st.vinfo w = get? c.st.vinfo w) := by
  have f := slash_frame hi h
  exact ⟨f.1, f.2.1, f.2.2.1, f.2.2.2.1⟩

/-- Frame, rewards: every delegation to `v` that remains shows the same pending reward as before the slash. -/
theorem frame_rewards {c c' : Chain} {v : String} {p : Dec} (hi : SInv c.st) (hl : LastLe c.st c.time)
    (h : sudoSlash c v p = .ok c') (d : Addr) (hrec : (get? c'.st.stakes (d, v)).isSome) :
    ∃ vo vi vi', c.st.validator? v = some vo ∧ get? c.st.vinfo v = some vi ∧ get? c'.st.vinfo v = some vi' ∧
      shownReward c'.st c'.time (curShares c'.st d v) vo vi' = shownReward c.st c.time (curShares c.st d v) vo vi :=
  slash_rewards_shown hi hl h d hrec

/-- `p = 1` removes every delegation to `v` and empties its pending unbondings. -/
theorem full_slash {c c' : Chain} {v : String} (hi : SInv c.st) (h : sudoSlash c v Dec.one = .ok c') :
    (∀ d, get? c'.st.stakes (d, v) = none) ∧ (∀ u ∈ c'.st.queue, u.validator = v → u.amount = 0) :=
  slash_full hi h

/-- A fraction above one or an unknown validator is rejected, and the chain is unchanged. -/
theorem rejects {cfg : Cfg} {c : Chain} {v : String} {p : Dec} (hi : Inv cfg c)
    (hbad : Dec.one < p ∨ c.st.validator? v = none) : step cfg c (.slash v p) = (c, .err) :=
  step_rejected hi (slash_rejects hi.sinv hbad)

/-- The above compose over any number of slashes. -/
theorem repeated {cfg : Cfg} {v : String} (ps : List Dec) (c c' : Chain) (hi : Inv cfg c)
    (h : slashAll c v ps = .ok c') :
    Inv cfg c' ∧ c'.bank = c.bank ∧ c'.st.withdraw = c.st.withdraw ∧
    (∀ k : Addr × String, k.2 ≠ v → get? c'.st.stakes k = get? c.st.stakes k) ∧
    (∀ w, w ≠ v → get? c'.st.vinfo w = get? c.st.vinfo w) ∧
    (∀ d, stakeOf c'.st d v ≤ stakeOf c.st d v) ∧
    c'.st.queue.length = c.st.queue.length := slash_repeated ps c c' hi h

/-! ### non-vacuity -/

/-- 3 →(½) 1.5 →(⅓-ish) 1.000000000000000000: the value scaled is the fractional one (R2) -/
example : (stakeOf (runAll exCfg exChain [.delegate "d1" "v1" ⟨"TOKEN", 3⟩, .delegate "d2" "v1" ⟨"TOKEN", 3⟩,
    .slash "v1" ⟨500000000000000000⟩, .slash "v1" ⟨333333333333333333⟩]).1.st "d1" "v1").atomics
    = 1000000000000000000 := by decide
/-- the same two slashes on a single delegator (wiped before the fix of `slash`): exactly 1.0 token remains -/
example : (stakeOf (runAll exCfg exChain [.delegate "d1" "v1" ⟨"TOKEN", 3⟩, .slash "v1" ⟨500000000000000000⟩,
    .slash "v1" ⟨333333333333333333⟩]).1.st "d1" "v1").atomics = 1000000000000000000 := by decide
/-- three slashes of 10^-18 on 3 tokens (wiped a 2.99…-token delegation before the fix): 2.999999999999999991 remain -/
example : (stakeOf (runAll exCfg exChain [.delegate "d1" "v1" ⟨"TOKEN", 3⟩, .slash "v1" ⟨1⟩, .slash "v1" ⟨1⟩,
    .slash "v1" ⟨1⟩]).1.st "d1" "v1").atomics = 2999999999999999991 := by decide
/-- the zero-total case: one token slashed by 10 % is worth 0.9 < 1 token and is dropped -/
example : (runAll exCfg exChain [.delegate "d1" "v1" ⟨"TOKEN", 1⟩, .slash "v1" ⟨100000000000000000⟩]).1.st.stakes = [] := by
  decide
example : (step exCfg exChain (.slash "v1" ⟨1000000000000000001⟩)).2 = .err := by decide
example : (step exCfg exChain (.slash "v9" ⟨1⟩)).2 = .err := by decide
example : (runAll exCfg exChain [.delegate "d1" "v1" ⟨"TOKEN", 4⟩, .slash "v1" Dec.one]).1.st.stakes = [] := by decide
/-- whole case: 4 →(25 %) exactly 3 -/
example : (stakeOf (runAll exCfg exChain [.delegate "d1" "v1" ⟨"TOKEN", 4⟩, .slash "v1" ⟨250000000000000000⟩]).1.st
    "d1" "v1") = Dec.ofNat 3 := by decide

end CwMt.C16
