import CwMt.Proofs.Engine
import CwMt.Proofs.EngineOrder
import CwMt.Proofs.Rules
/-
  C03 — reply is invoked exactly when, and with exactly what, the sub-message dictates.
  Stated against the ghost invocation trace (one entry per contract entry-point invocation, in
  execution order, kept also for rolled-back branches).
-/
namespace CwMt.C03
open CwMt
variable {E : Type}

/-- A contract call appends exactly one trace entry, for the called address and the given entry
point, when contract and code exist — and none otherwise. -/
theorem call_trace (cfg : Config E) (blk : Block) (ch : Chain E) (addr : Addr) (en : Entry) (tr : Trace) :
    (∃ note, (callContract cfg blk ch addr en tr).2 = tr ++ [⟨addr, en, contractEnv blk addr, note⟩]) ∨
    ((callContract cfg blk ch addr en tr).2 = tr ∧ (callContract cfg blk ch addr en tr).1 = .err) :=
  Engine.call_trace cfg blk ch addr en tr

/-- The trace only grows (all four engine functions). -/
theorem trace_grows (cfg : Config E) (blk : Block) (fuel : Nat) (ch : Chain E) (sender : Addr) (m : Msg)
    (tr : Trace) : ∃ new, (execute cfg blk fuel ch sender m tr).2 = tr ++ new :=
  Engine.trace_grows_execute cfg blk fuel ch sender m tr

/-- No reply unless the outcome/mode pair demands one: the trace of the sub-message execution is all
there is. -/
theorem no_reply_unless_wanted (cfg : Config E) (blk : Block) (fuel : Nat) (ch : Chain E) (contract : Addr)
    (sm : SubMsg) (tr : Trace)
    (h : replyWanted (execute cfg blk fuel ch contract sm.msg tr).1 sm.replyOn = false) :
    (executeSubmsg cfg blk (fuel + 1) ch contract sm tr).2 = (execute cfg blk fuel ch contract sm.msg tr).2 :=
  Engine.no_reply_unless_wanted cfg blk fuel ch contract sm tr h

/-- When the pair demands one (and the dispatching contract and its code exist in the state the
reply runs on, and fuel remains): right after the complete sub-message execution the trace continues
with exactly one `reply` invocation on the dispatching contract, carrying the sub-message's id and
payload unchanged and a result that is `ok` with exactly the sub-message's own events and data, or
`err`. -/
theorem reply_when_wanted (cfg : Config E) (blk : Block) (fuel : Nat) (ch : Chain E) (contract : Addr)
    (sm : SubMsg) (tr tr₁ : Trace) (r₁ : Outcome (AppResponse × Chain E)) (cd : ContractData) (code : Code E)
    (h : execute cfg blk (fuel + 1) ch contract sm.msg tr = (r₁, tr₁))
    (hw : replyWanted r₁ sm.replyOn = true)
    (hc : (replyState ch r₁).contracts.get? contract = some cd)
    (hcode : contractCode? cfg cd.codeId = some code) :
    ∃ note rest,
      (executeSubmsg cfg blk (fuel + 2) ch contract sm tr).2 =
        tr₁ ++ [⟨contract, .reply ⟨sm.id, sm.payload, subResultOf r₁⟩, contractEnv blk contract, note⟩] ++ rest :=
  Engine.reply_when_wanted cfg blk fuel ch contract sm tr tr₁ r₁ cd code h hw hc hcode

/-! ### order of whole executions: depth-first, siblings in list order, reply between a sub-message and its successor -/

/-- Processing `sm :: rest` for the dispatching contract: the trace is, in this order and with nothing in
between, (1) everything the sub-message `sm` ran, to any depth (`tSub`: exactly the trace of executing
`sm.msg` as a message of the dispatcher), (2) everything its reply ran (`tReply`: empty, or starting with a
`reply` invocation **on the dispatcher** that carries `sm.id` and `sm.payload`, followed by the reply's own
sub-tree), (3) everything the remaining siblings ran (`tRest`) — and the remaining siblings run at all only
if the sub-message together with its reply succeeded. -/
theorem depth_first_order (cfg : Config E) (blk : Block) (fuel : Nat) (ch : Chain E) (contract : Addr)
    (resp : AppResponse) (sm : SubMsg) (rest : List SubMsg) (tr : Trace) :
    ∃ tSub tReply tRest : Trace,
      (execute cfg blk fuel ch contract sm.msg tr).2 = tr ++ tSub ∧
      (executeSubmsg cfg blk (fuel + 1) ch contract sm tr).2 = tr ++ tSub ++ tReply ∧
      (processResponse cfg blk (fuel + 2) ch contract resp (sm :: rest) tr).2 = tr ++ tSub ++ tReply ++ tRest ∧
      (∀ e, tReply.head? = some e → e.callee = contract ∧ ∃ res, e.entry = .reply ⟨sm.id, sm.payload, res⟩) ∧
      (tRest ≠ [] → (executeSubmsg cfg blk (fuel + 1) ch contract sm tr).1.isOk = true) :=
  EngineOrder.depth_first_order cfg blk fuel ch contract resp sm rest tr

/-- A `reply` invocation at the head of `tReply` exists exactly when the outcome/mode pair demands one and the
dispatcher (with its code) exists in the state the reply runs on; so per sub-message the dispatcher's reply
entry point is entered at most once at this position, and never when not wanted. -/
theorem reply_segment_empty_iff (cfg : Config E) (blk : Block) (fuel : Nat) (ch : Chain E) (contract : Addr)
    (sm : SubMsg) (tr : Trace) :
    ((executeSubmsg cfg blk (fuel + 2) ch contract sm tr).2 = (execute cfg blk (fuel + 1) ch contract sm.msg tr).2) ↔
      ¬ (replyWanted (execute cfg blk (fuel + 1) ch contract sm.msg tr).1 sm.replyOn = true ∧
         ∃ cd code, (replyState ch (execute cfg blk (fuel + 1) ch contract sm.msg tr).1).contracts.get? contract = some cd ∧
           contractCode? cfg cd.codeId = some code) :=
  EngineOrder.reply_segment_empty_iff cfg blk fuel ch contract sm tr

/-- The contract's own entry point runs before anything it dispatched: executing `WasmMsg::Execute` appends
the `execute` invocation first (if the contract exists), then the trace of processing its sub-messages. -/
theorem body_before_submessages (cfg : Config E) (blk : Block) (fuel : Nat) (ch : Chain E) (sender : Addr)
    (c : String) (m : Val) (funds : Coins) (tr : Trace) :
    (execute cfg blk (fuel + 1) ch sender (.wasmExecute c m funds) tr).2 = tr ∨
    ∃ note rest, (execute cfg blk (fuel + 1) ch sender (.wasmExecute c m funds) tr).2 =
      tr ++ [⟨c, .execute ⟨sender, funds⟩ m, contractEnv blk c, note⟩] ++ rest :=
  EngineOrder.body_before_submessages cfg blk fuel ch sender c m funds tr

/-! ### exactly once, over a whole list of sub-messages -/

/-- Processing the sub-message list `sms` of a response of `c` appends to the trace exactly `flatSegs segs`, where `segs` holds one
segment pair per STARTED sub-message — a prefix of `sms` in list order, all of `sms` when processing succeeded (`Walk`: each next
sub-message starts only after its predecessor together with its reply succeeded, on the state that left). For every segment
(`SegFacts`): `tSub` is exactly the trace of executing that sub-message's message as a message of `c`, to any depth; `tReply` is
empty or starts with ONE `reply` invocation on `c` carrying the sub-message's id, payload and own outcome (`subResultOf`), followed
only by what that reply's response processing ran; and (`once`, given fuel) `tReply` is empty exactly when the outcome/mode pair
does not demand a reply or the dispatcher no longer exists. So at this level `reply` is entered exactly once per sub-message
that demands it and never otherwise, between that sub-message and its successor; the levels below are the same statement for the
`processResponse` calls inside `tSub` and `tReply`. -/
theorem siblings_exactly_once (cfg : Config E) (blk : Block) (c : Addr) (sms : List SubMsg) (n : Nat) (ch : Chain E)
    (resp : AppResponse) (tr : Trace) :
    ∃ segs : List EngineOrder.SubSeg,
      EngineOrder.Walk cfg blk c n ch sms tr segs ∧
      (processResponse cfg blk n ch c resp sms tr).2 = tr ++ EngineOrder.flatSegs segs ∧
      ((processResponse cfg blk n ch c resp sms tr).1.isOk = true → segs.map (·.sm) = sms) :=
  EngineOrder.siblings_walk cfg blk c sms n ch resp tr

/-! ### tie T: the reply rule of the current sources (`execute_submsg`, re-read on every run by checklib/tr_rules.py) -/

/-- The table regenerated from /repo/src/wasm.rs — per arm of the sub-message result: the `reply_on` variants for which
`reply` is called, the `Reply { id, payload, gas_used: 0, result }` literal (for `Ok`: the sub-message's own events and
data), the reply's data replacing and its events extending the sub-message's response, data dropped when no reply is
called, the error propagating when none is wanted — is the rule `Engine.executeSubmsg` transcribes. -/
theorem reply_rule_as_modelled : Gen.Rules.replyArms = expectedReplyArms :=
  Rules.reply_arms_as_modelled

/-- For every mode: the model's "reply after success" is membership in the variant set the sources list in the `Ok` arm. -/
theorem reply_on_success_is_source_rule (m : ReplyOn) :
    wantsReplyOnOk m = (replyModes Gen.Rules.replyArms "Ok").contains (Rules.modeName m) :=
  Rules.wantsReplyOnOk_is_source_rule m

/-- For every mode: the model's "reply after failure" is membership in the variant set the sources list in the `Err` arm. -/
theorem reply_on_failure_is_source_rule (m : ReplyOn) :
    wantsReplyOnErr m = (replyModes Gen.Rules.replyArms "Err").contains (Rules.modeName m) :=
  Rules.wantsReplyOnErr_is_source_rule m

end CwMt.C03
