import CwMt.Proofs.Engine
/-
  C03 — reply is invoked exactly when, and with exactly what, the sub-message dictates.
  Stated against the ghost invocation trace (one entry per contract entry-point invocation, in
  execution order, kept also for rolled-back branches).
-/
namespace CwMt.C03
open CwMt
variable {E : Type}

/-- A contract call appends exactly one trace entry, for the called address and the given entry
point, when contract and code exist — and none otherwise. -/
theorem call_trace (cfg : Config E) (blk : Block) (ch : Chain E) (addr : Addr) (en : Entry) (tr : Trace) :
    (∃ note, (callContract cfg blk ch addr en tr).2 = tr ++ [⟨addr, en, contractEnv blk addr, note⟩]) ∨
    ((callContract cfg blk ch addr en tr).2 = tr ∧ (callContract cfg blk ch addr en tr).1 = .err) :=
  Engine.call_trace cfg blk ch addr en tr

/-- The trace only grows (all four engine functions). -/
theorem trace_grows (cfg : Config E) (blk : Block) (fuel : Nat) (ch : Chain E) (sender : Addr) (m : Msg)
    (tr : Trace) : ∃ new, (execute cfg blk fuel ch sender m tr).2 = tr ++ new :=
  Engine.trace_grows_execute cfg blk fuel ch sender m tr

/-- No reply unless the outcome/mode pair demands one: the trace of the sub-message execution is all
there is. -/
theorem no_reply_unless_wanted (cfg : Config E) (blk : Block) (fuel : Nat) (ch : Chain E) (contract : Addr)
    (sm : SubMsg) (tr : Trace)
    (h : replyWanted (execute cfg blk fuel ch contract sm.msg tr).1 sm.replyOn = false) :
    (executeSubmsg cfg blk (fuel + 1) ch contract sm tr).2 = (execute cfg blk fuel ch contract sm.msg tr).2 :=
  Engine.no_reply_unless_wanted cfg blk fuel ch contract sm tr h

/-- When the pair demands one (and the dispatching contract and its code exist in the state the
reply runs on, and fuel remains): right after the complete sub-message execution the trace continues
with exactly one `reply` invocation on the dispatching contract, carrying the sub-message's id and
payload unchanged and a result that is `ok` with exactly the sub-message's own events and data, or
`err`. -/
theorem reply_when_wanted (cfg : Config E) (blk : Block) (fuel : Nat) (ch : Chain E) (contract : Addr)
    (sm : SubMsg) (tr tr₁ : Trace) (r₁ : Outcome (AppResponse × Chain E)) (cd : ContractData) (code : Code E)
    (h : execute cfg blk (fuel + 1) ch contract sm.msg tr = (r₁, tr₁))
    (hw : replyWanted r₁ sm.replyOn = true)
    (hc : (replyState ch r₁).contracts.get? contract = some cd)
    (hcode : contractCode? cfg cd.codeId = some code) :
    ∃ note rest,
      (executeSubmsg cfg blk (fuel + 2) ch contract sm tr).2 =
        tr₁ ++ [⟨contract, .reply ⟨sm.id, sm.payload, subResultOf r₁⟩, contractEnv blk contract, note⟩] ++ rest :=
  Engine.reply_when_wanted cfg blk fuel ch contract sm tr tr₁ r₁ cd code h hw hc hcode

end CwMt.C03
