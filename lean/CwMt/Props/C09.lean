import CwMt.Proofs.EngineInv
import CwMt.Proofs.Bank
/-
  C09 — The bank ledger conserves coins and never overdraws.
  Property theorems only; helper lemmas live in CwMt/Proofs/Bank.lean.

  Model: CwMt/Model/Bank.lean (`BankKeeper` of /repo/src/bank.rs + cw-utils `NativeBalance`), amounts in `Nat`
  (the property's quantifier keeps every balance and supply inside the 128-bit range, so `Uint128` arithmetic
  does not overflow).

    `bal st a d`    what `BankQuery::Balance {a, d}` answers          (`Bank.queryBalance`)
    `balance st a`  what `BankQuery::AllBalances {a}` answers         (`Bank.balance`)
    `supply st d`   what `BankQuery::Supply {d}` answers              (`Bank.supply`)
    `total amt d`   the stated amount of denom `d` in a coin list: ALL `d`-entries added up, so repeated denoms
                    accumulate and zero coins contribute nothing     (`Bank.totalOf`; `total_nil`, `total_cons`)
    `NormInv st`    one ledger entry per address (keys strictly sorted, as in the BTreeMap-backed storage) and
                    every stored balance normalised: strictly sorted by denom, no zero amounts, hence no
                    duplicate denoms. It holds for the empty ledger and is preserved by every operation
                    (`norm_inv`), so the hypothesis `NormInv st` below means "st is a reachable ledger".

  `total`, `bal`, `Reachable` (ledgers obtained from the empty one by init_balance / mint / burn / send) and the
  history vocabulary (`Op`, `run`, `step`, `final`, `credits`, `debits`, `minted`, `burned`) are defined in
  CwMt/Proofs/Bank.lean.

  A failed operation is `none` in the model: there is no new state, the caller keeps the old one (`step`).
-/
namespace CwMt.C09
open CwMt CwMt.Bank

/-! ### `total`: repeated denoms add up, zero coins contribute nothing -/

theorem total_nil (d : String) : total [] d = 0 := rfl

theorem total_cons (c : Coin) (cs : Coins) (d : String) :
    total (c :: cs) d = (if c.denom = d then c.amount else 0) + total cs d := totalOf_cons c cs d

theorem total_zero_iff (amt : Coins) : (∀ d, total amt d = 0) ↔ ∀ c ∈ amt, c.amount = 0 :=
  totalOf_all_zero_iff amt

/-! ### the invariant `norm_inv` -/

theorem norm_inv_empty : NormInv [] := normInv_nil

theorem norm_inv_setBalance (st : State) (a : Addr) (cs : Coins) (h : NormInv st) :
    NormInv (setBalance st a cs) := normInv_setBalance h a cs

theorem norm_inv_mint (st st' : State) (a : Addr) (amt : Coins) (h : NormInv st)
    (hm : mint st a amt = some st') : NormInv st' := (mint_some h hm).1

theorem norm_inv_burn (st st' : State) (a : Addr) (amt : Coins) (h : NormInv st)
    (hb : burn st a amt = some st') : NormInv st' := (burn_some h hb).1

theorem norm_inv_send (st st' : State) (frm to : Addr) (amt : Coins) (h : NormInv st)
    (hs : send st frm to amt = some st') : NormInv st' := (send_some h hs).1

/-- every reachable ledger satisfies the invariant -/
theorem norm_inv (st : State) (h : Reachable st) : NormInv st := by
  induction h with
  | empty => exact normInv_nil
  | init a cs _ ih => exact normInv_setBalance ih a cs
  | mint a amt _ hm ih => exact (mint_some ih hm).1
  | burn a amt _ hb ih => exact (burn_some ih hb).1
  | send a b amt _ hs ih => exact (send_some ih hs).1

/-- what the invariant says about one stored balance (= the `AllBalances` answer): strictly sorted by
denom, no zero coin, no denom twice; and such a list is determined by its per-denom amounts -/
theorem norm_inv_balance (st : State) (a : Addr) (h : NormInv st) :
    (balance st a).Pairwise (fun x y => x.denom < y.denom) ∧ (∀ c ∈ balance st a, c.amount ≠ 0) ∧
      ((balance st a).map (·.denom)).Nodup :=
  ⟨(norm_balance h a).1, (norm_balance h a).2, norm_nodup (norm_balance h a)⟩

theorem norm_canonical (x y : Coins) (hx : Norm x) (hy : Norm y)
    (h : ∀ d, amountOf x d = amountOf y d) : x = y := norm_ext hx hy h

/-! ### send -/

/-- A transfer moves exactly the stated amount of each denomination from sender to recipient (different
addresses), changes nothing at all for a self-transfer, and changes no other balance. -/
theorem send_exact (st st' : State) (frm to : Addr) (amt : Coins) (hinv : NormInv st)
    (h : send st frm to amt = some st') :
    (frm ≠ to → ∀ d, bal st' frm d + total amt d = bal st frm d ∧ bal st' to d = bal st to d + total amt d) ∧
    (frm = to → balance st' frm = balance st frm) ∧
    (∀ a, a ≠ frm → a ≠ to → balance st' a = balance st a) :=
  ⟨(send_some hinv h).2.1, (send_some hinv h).2.2.1, (send_some hinv h).2.2.2.1⟩

/-- … so the total supply of every denomination is unchanged. -/
theorem send_conserves (st st' : State) (frm to : Addr) (amt : Coins) (hinv : NormInv st)
    (h : send st frm to amt = some st') : ∀ d, supply st' d = supply st d :=
  (send_some hinv h).2.2.2.2

/-! ### burn, mint -/

theorem burn_exact (st st' : State) (a : Addr) (amt : Coins) (hinv : NormInv st)
    (h : burn st a amt = some st') :
    (∀ d, bal st' a d + total amt d = bal st a d) ∧
    (∀ b, b ≠ a → balance st' b = balance st b) ∧
    (∀ d, supply st' d + total amt d = supply st d) :=
  (burn_some hinv h).2

theorem mint_exact (st st' : State) (a : Addr) (amt : Coins) (hinv : NormInv st)
    (h : mint st a amt = some st') :
    (∀ d, bal st' a d = bal st a d + total amt d) ∧
    (∀ b, b ≠ a → balance st' b = balance st b) ∧
    (∀ d, supply st' d = supply st d + total amt d) :=
  (mint_some hinv h).2

/-! ### failure: exactly when there is no positive amount or a balance would go below zero -/

theorem fail_iff_send (st : State) (frm to : Addr) (amt : Coins) (hinv : NormInv st) :
    send st frm to amt = none ↔ (∀ c ∈ amt, c.amount = 0) ∨ ∃ d, bal st frm d < total amt d :=
  send_eq_none_iff hinv frm to amt

theorem fail_iff_burn (st : State) (a : Addr) (amt : Coins) (hinv : NormInv st) :
    burn st a amt = none ↔ (∀ c ∈ amt, c.amount = 0) ∨ ∃ d, bal st a d < total amt d :=
  burn_eq_none_iff hinv a amt

theorem fail_iff_mint (st : State) (a : Addr) (amt : Coins) :
    mint st a amt = none ↔ ∀ c ∈ amt, c.amount = 0 := mint_eq_none_iff st a amt

/-- "the normalised amount is empty" is "no coin of the list is positive" -/
theorem normalised_empty_iff (amt : Coins) : normalizeAmount amt = none ↔ ∀ c ∈ amt, c.amount = 0 :=
  normalizeAmount_none_iff amt

/-- in particular a self-transfer of more than the balance fails (the "credit before debit" mutant) -/
theorem self_send_beyond_balance_fails (st : State) (a : Addr) (amt : Coins) (d : String) (hinv : NormInv st)
    (h : bal st a d < total amt d) : send st a a amt = none :=
  (send_eq_none_iff hinv a a amt).mpr (Or.inr ⟨d, h⟩)

/-- a failed operation changes nothing: it yields no state, and `step` keeps the old one -/
theorem fail_changes_nothing (st : State) (op : Op) (h : run st op = none) : step st op = st := by
  unfold step; rw [h]; rfl

/-- the checked subtraction never truncates: a successful debit was covered in every denomination -/
theorem no_truncation (st st' : State) (frm to : Addr) (amt : Coins) (hinv : NormInv st) :
    (burn st frm amt = some st' → ∀ d, total amt d ≤ bal st frm d) ∧
    (send st frm to amt = some st' → ∀ d, total amt d ≤ bal st frm d) := by
  constructor
  · intro h d
    have := (burn_some hinv h).2.1 d
    show totalOf amt d ≤ queryBalance st frm d
    omega
  · intro h d
    apply Classical.byContradiction
    intro hlt
    have : send st frm to amt = none :=
      (send_eq_none_iff hinv frm to amt).mpr (Or.inr ⟨d, Nat.lt_of_not_le hlt⟩)
    rw [h] at this; simp at this

/-! ### the three queries agree -/

/-- `Balance {a, d}` is the `d` entry of `AllBalances {a}` (0 if there is none), and — because the stored
list has no duplicate denoms — the sum of all its `d` entries -/
theorem queries_agree_balance (st : State) (a : Addr) (d : String) (hinv : NormInv st) :
    ((∃ c ∈ balance st a, c.denom = d ∧ c.amount = bal st a d) ∨
      ((∀ c ∈ balance st a, c.denom ≠ d) ∧ bal st a d = 0)) ∧
    bal st a d = total (balance st a) d :=
  ⟨amountOf_mem (balance st a) d, (totalOf_eq_amountOf (norm_balance hinv a) d).symm⟩

/-- `Supply {d}` is the sum of `Balance {a, d}` over the accounts of the ledger … -/
theorem queries_agree_supply (st : State) (d : String) (hinv : NormInv st) :
    supply st d = ((st.map (·.1)).map (fun a => bal st a d)).sum := supply_eq_sum_accounts hinv d

/-- … and over any duplicate-free list of addresses that contains all accounts. -/
theorem queries_agree_supply_over (st : State) (as : List Addr) (d : String) (hinv : NormInv st)
    (hnd : as.Nodup) (hall : ∀ p ∈ st, p.1 ∈ as) :
    supply st d = (as.map (fun a => bal st a d)).sum := supply_eq_sum_over hinv as hnd hall d

/-! ### histories -/

/-- After any history of mints, burns and sends (failed operations leave the ledger unchanged), the
balance of `(a, d)` is Σ credits − Σ debits of the successful operations on top of the initial balance;
written without subtraction. -/
theorem history (st : State) (ops : List Op) (a : Addr) (d : String) (hinv : NormInv st) :
    bal (final st ops) a d + debits st ops a d = credits st ops a d + bal st a d :=
  history_balance hinv ops a d

/-- the same for the supply: only successful mints and burns move it -/
theorem history_supply (st : State) (ops : List Op) (d : String) (hinv : NormInv st) :
    supply (final st ops) d + burned st ops d = minted st ops d + supply st d :=
  Bank.history_supply hinv ops d

theorem history_norm_inv (st : State) (ops : List Op) (hinv : NormInv st) : NormInv (final st ops) :=
  normInv_final hinv ops

/-! ### non-vacuity -/

/-- repeated denoms and a zero coin in one message; a never-seen recipient -/
example : send [("a", [⟨"u", 5⟩, ⟨"x", 1⟩])] "a" "b" [⟨"u", 2⟩, ⟨"x", 0⟩, ⟨"u", 1⟩]
    = some [("a", [⟨"u", 2⟩, ⟨"x", 1⟩]), ("b", [⟨"u", 3⟩])] := by decide
example : NormInv [("a", [⟨"u", 5⟩, ⟨"x", 1⟩])] := by decide
example : ¬ NormInv [("a", [⟨"x", 5⟩, ⟨"u", 1⟩])] := by decide
example : total [⟨"u", 2⟩, ⟨"x", 0⟩, ⟨"u", 1⟩] "u" = 3 := by decide
/-- a self-transfer within the balance succeeds and changes nothing; beyond the balance it fails -/
example : send [("a", [⟨"u", 5⟩])] "a" "a" [⟨"u", 5⟩] = some [("a", [⟨"u", 5⟩])] := by decide
example : send [("a", [⟨"u", 5⟩])] "a" "a" [⟨"u", 3⟩, ⟨"u", 3⟩] = none := by decide
/-- no positive amount: fails -/
example : send [("a", [⟨"u", 5⟩])] "a" "b" [⟨"u", 0⟩] = none := by decide
example : mint [] "a" [] = none := by decide
example : burn [("a", [⟨"u", 5⟩])] "a" [⟨"x", 1⟩] = none := by decide
/-- burning everything leaves an (empty) entry; the supply follows -/
example : burn [("a", [⟨"u", 5⟩]), ("b", [⟨"u", 1⟩])] "a" [⟨"u", 5⟩] = some [("a", []), ("b", [⟨"u", 1⟩])] := by decide
example : supply [("a", [⟨"u", 5⟩]), ("b", [⟨"u", 1⟩, ⟨"x", 2⟩])] "u" = 6 := by decide
example : mint [("b", [⟨"u", 1⟩])] "a" [⟨"x", 2⟩, ⟨"u", 1⟩, ⟨"x", 2⟩] = some [("a", [⟨"u", 1⟩, ⟨"x", 4⟩]), ("b", [⟨"u", 1⟩])] := by decide
/-- a history with a failing operation in the middle -/
example : final [] [.mint "a" [⟨"u", 5⟩], .send "a" "b" [⟨"u", 7⟩], .send "a" "b" [⟨"u", 2⟩], .burn "b" [⟨"u", 1⟩]]
    = [("a", [⟨"u", 3⟩]), ("b", [⟨"u", 1⟩])] := by decide
example : credits [] [.mint "a" [⟨"u", 5⟩], .send "a" "b" [⟨"u", 7⟩], .send "a" "b" [⟨"u", 2⟩], .burn "b" [⟨"u", 1⟩]] "b" "u" = 2 ∧
    debits [] [.mint "a" [⟨"u", 5⟩], .send "a" "b" [⟨"u", 7⟩], .send "a" "b" [⟨"u", 2⟩], .burn "b" [⟨"u", 1⟩]] "b" "u" = 1 := by decide

end CwMt.C09

/-! ### contract-initiated transfers: no execution of any message tree creates coins -/
namespace CwMt.C09
open CwMt

/-- modules other than bank and wasm leave the ledger alone (in the simulator they move coins only
through bank messages routed back through the router) -/
def ExtBankFrame {E : Type} (cfg : Config E) : Prop :=
  (∀ k ch blk s p r ch', cfg.extExec k ch blk s p = .ok (r, ch') → ch'.bank = ch.bank) ∧
  (∀ ch blk p r ch', cfg.extSudo ch blk p = .ok (r, ch') → ch'.bank = ch.bank)

/-- For every message (any nesting of contract calls, funds attached to execute / instantiate, bank
sub-messages, whatever the contracts do): the ledger stays in normal form and the total supply of
every denomination never grows — only `BankSudo::Mint` creates coins. -/
theorem engine_creates_no_coins {E : Type} (cfg : Config E) (hb : ExtBankFrame cfg) (blk : Block) (fuel : Nat)
    (ch ch' : Chain E) (sender : Addr) (m : Msg) (tr tr' : Trace) (r : AppResponse)
    (hinv : Bank.NormInv ch.bank)
    (h : execute cfg blk fuel ch sender m tr = (.ok (r, ch'), tr')) :
    Bank.NormInv ch'.bank ∧ ∀ d, Bank.supply ch'.bank d ≤ Bank.supply ch.bank d :=
  EngineInv.engine_creates_no_coins cfg hb blk fuel ch ch' sender m tr tr' r hinv h

/-- …and a tree without burn messages at the top level that merely transfers conserves it exactly:
a plain send between two accounts through the engine leaves every supply unchanged. -/
theorem engine_send_conserves {E : Type} (cfg : Config E) (blk : Block) (fuel : Nat) (ch ch' : Chain E)
    (sender : Addr) (to : String) (amt : Coins) (tr tr' : Trace) (r : AppResponse)
    (hinv : Bank.NormInv ch.bank)
    (h : execute cfg blk fuel ch sender (.bankSend to amt) tr = (.ok (r, ch'), tr')) :
    ∀ d, Bank.supply ch'.bank d = Bank.supply ch.bank d :=
  EngineInv.engine_send_conserves cfg blk fuel ch ch' sender to amt tr tr' r hinv h

end CwMt.C09
