import CwMt.Proofs.Bech32
import CwMt.Model.Address
/-
  C18 — Address helpers are total, consistent and reject foreign or malformed input.
  Property theorems only; helper lemmas live in CwMt/Proofs/Bech32.lean.

  Model: CwMt/Model/Bech32.lean. `Variant` selects the codec: `.bech32` = `MockApiBech32`,
  `.bech32m` = `MockApiBech32m` (src/api.rs), `.default` = cosmwasm-std's `MockApi` with a prefix
  (what `IntoAddr` in src/addresses.rs uses). Strings are `List Char`, SHA-256 is an arbitrary
  function `H`. `ValidPrefix p` is reading R4: `p` passes `Hrp::parse` and contains no uppercase
  letter. `strictDecode v p s = some bs` is strict decoding written without the encoder: prefix `p`,
  last `'1'` as separator, lowercase charset data, code length, correct checksum for the variant,
  fewer than five padding bits and all of them zero (for `.default` also 1..=255 bytes).
  `lengthOk v n` is the canonical-length check of the codec (`true` for MockApiBech, 1..=255 for the
  default MockApi); `codeLength` = 1023.

  All theorems hold for all three codecs, every valid prefix, every length and every position; no
  `bv_decide`: the axioms are propext / Classical.choice / Quot.sound.
-/
namespace CwMt.C18
open CwMt CwMt.Bech32

/-! ### round trip -/

/-- bytes → address → bytes, for every byte string the code length allows -/
theorem roundtrip (v : Variant) (p : List Char) (bs : List UInt8) (hp : ValidPrefix p)
    (hl : lengthOk v bs.length = true)
    (hc : p.length + 1 + (8 * bs.length + 4) / 5 + 6 ≤ codeLength) :
    ∃ s, addrHumanize v p bs = .ok s ∧ addrCanonicalize v p s = .ok bs :=
  Bech32.roundtrip v p bs hp hl hc

/-- in particular for every canonical address of 1..=64 (indeed 1..=255) bytes -/
theorem roundtrip_canonical_lengths (v : Variant) (p : List Char) (bs : List UInt8)
    (hp : ValidPrefix p) (h1 : 1 ≤ bs.length) (h2 : bs.length ≤ 255) :
    ∃ s, addrHumanize v p bs = .ok s ∧ addrCanonicalize v p s = .ok bs :=
  Bech32.roundtrip_1_64 v p bs hp h1 h2

/-- address → bytes → address, for everything validation accepts -/
theorem roundtrip_string (v : Variant) (p s : List Char) (hp : ValidPrefix p)
    (h : addrValidate v p s = .ok s) :
    ∃ bs, addrCanonicalize v p s = .ok bs ∧ addrHumanize v p bs = .ok s :=
  Bech32.validate_roundtrip v p s hp h

/-- the regrouping lemma behind it (`regroup_8_5_8`) -/
theorem regroup_8_5_8 (bs : List UInt8) : fesToBytes (bytesToFes bs) = bs :=
  Bech32.fesToBytes_bytesToFes bs

/-- data followed by its checksum has the target residue (`checksum_verifies`) -/
theorem checksum_verifies (k : BitVec 30) (h : List Char) (data : List Sym) :
    polymod (hrpExpand h ++ (data ++ createChecksum k h data)) = k :=
  Bech32.checksum_verifies k h data

/-! ### validation = strict decoding, result unchanged -/

theorem validate_exact (v : Variant) (p s s' : List Char) (hp : ValidPrefix p) :
    addrValidate v p s = .ok s' ↔ (∃ bs, strictDecode v p s = some bs) ∧ s' = s :=
  Bech32.validate_exact v p s s' hp

/-- strict decoding is the inverse of encoding (so the specification is not weaker than needed) -/
theorem strictDecode_iff_humanize (v : Variant) (p s : List Char) (bs : List UInt8)
    (hp : ValidPrefix p) :
    strictDecode v p s = some bs ↔ lengthOk v bs.length = true ∧ encode (constOf v) p bs = some s :=
  Bech32.strictDecode_iff_encode v p s bs hp

theorem humanize_validates (v : Variant) (p : List Char) (bs : List UInt8) (s : List Char)
    (hp : ValidPrefix p) (h : addrHumanize v p bs = .ok s) : addrValidate v p s = .ok s :=
  Bech32.humanize_validates v p bs s hp h

/-- a prefix that `Hrp::parse` rejects validates nothing -/
theorem validate_invalid_hrp (v : Variant) (p s s' : List Char) (hp : hrpValid p = false) :
    addrValidate v p s ≠ .ok s' := Bech32.validate_invalid_hrp v p s s' hp

/-! ### totality: no entry point panics, whatever the input and the prefix -/

theorem validate_total (v : Variant) (p s : List Char) :
    addrValidate v p s = .ok s ∨ addrValidate v p s = .err := Bech32.validate_total v p s

theorem canonicalize_total (v : Variant) (p s : List Char) :
    (∃ bs, addrCanonicalize v p s = .ok bs) ∨ addrCanonicalize v p s = .err :=
  Bech32.canonicalize_total v p s

theorem humanize_total (v : Variant) (p : List Char) (bs : List UInt8) :
    (∃ s, addrHumanize v p bs = .ok s) ∨ addrHumanize v p bs = .err :=
  Bech32.humanize_total v p bs

/-! ### rejection -/

/-- another prefix -/
theorem rejects_other_prefix (v : Variant) (p q s : List Char) (bs : List UInt8)
    (hp : ValidPrefix p) (hq : ValidPrefix q) (hne : p ≠ q)
    (h : addrCanonicalize v p s = .ok bs) :
    addrCanonicalize v q s = .err ∧ addrValidate v q s = .err :=
  Bech32.rejects_other_prefix v p q s bs hp hq hne h

/-- the other checksum variant (any prefixes) -/
theorem rejects_other_variant (v w : Variant) (p q s : List Char) (bs : List UInt8)
    (hne : constOf v ≠ constOf w) (h : addrCanonicalize v p s = .ok bs) :
    addrCanonicalize w q s = .err ∧ addrValidate w q s = .err :=
  Bech32.rejects_other_variant v w p q s bs hne h

theorem variants_differ : constOf .bech32 ≠ constOf .bech32m ∧ constOf .default ≠ constOf .bech32m :=
  ⟨Bech32.const_bech32_ne_bech32m, Bech32.const_default_ne_bech32m⟩

/-- mixed case (any prefix) -/
theorem rejects_mixed_case (v : Variant) (p s : List Char) (hu : hasUpper s = true)
    (hl : hasLower s = true) :
    addrCanonicalize v p s = .err ∧ addrValidate v p s = .err :=
  Bech32.rejects_mixed_case v p s hu hl

/-- every single-character substitution of a valid address is rejected: every position (prefix,
separator, data, checksum), every substitute character, every length -/
theorem single_error_detected (v : Variant) (p s : List Char) (i : Nat) (c : Char)
    (hi : i < s.length) (hp : ValidPrefix p) (hvalid : addrValidate v p s = .ok s)
    (hc : c ≠ s[i]) : addrValidate v p (s.set i c) = .err :=
  Bech32.single_error_validate_set v p s i c hi hp hvalid hc

/-- the decoder itself (`addr_canonicalize`, which is case-insensitive) rejects every substitution
that is not a mere change of ASCII case of that character -/
theorem single_error_detected_canonicalize (v : Variant) (p pre post : List Char) (a c : Char)
    (hp : ValidPrefix p) (hvalid : addrValidate v p (pre ++ a :: post) = .ok (pre ++ a :: post))
    (hc : c.toLower ≠ a) : addrCanonicalize v p (pre ++ c :: post) = .err :=
  Bech32.single_error_canonicalize v p pre post a c hp hvalid hc

/-- the checksum fact underneath: changing exactly one symbol changes the residue -/
theorem single_symbol_error (S : BitVec 30) (pre post : List Sym) (a b : Sym) (hab : a ≠ b) :
    steps S (pre ++ a :: post) ≠ steps S (pre ++ b :: post) :=
  Bech32.single_error S pre post a b hab

/-! ### addresses made from names -/

/-- `addr_make p n` is `addr_humanize p (H n)`; it depends on the name only through its digest
(deterministic), and a panic is the only other outcome -/
theorem addr_make_eq_humanize (H : List UInt8 → List UInt8) (v : Variant) (p : List Char)
    (n : List UInt8) (a : List Char) (hl : lengthOk v (H n).length = true) :
    addrMake H v p n = .ok a ↔ addrHumanize v p (H n) = .ok a :=
  Bech32.make_eq_humanize H v p n a hl

theorem addr_make_deterministic (H : List UInt8 → List UInt8) (v : Variant) (p : List Char)
    (n n' : List UInt8) (h : H n = H n') : addrMake H v p n = addrMake H v p n' :=
  Bech32.make_congr H v p n n' h

/-- total for 32-byte digests and every HRP; a panic exactly for prefixes `Hrp::parse` rejects -/
theorem addr_make_total (H : List UInt8 → List UInt8) (v : Variant) (p : List Char) (n : List UInt8)
    (hp : hrpValid p = true) (h32 : (H n).length = 32) : ∃ a, addrMake H v p n = .ok a :=
  Bech32.make_total H v p n hp h32

theorem addr_make_panics (H : List UInt8 → List UInt8) (v : Variant) (p : List Char) (n : List UInt8)
    (hp : hrpValid p = false) : addrMake H v p n = .panic := Bech32.make_panics H v p n hp

/-- valid under its own codec -/
theorem addr_make_valid (H : List UInt8 → List UInt8) (v : Variant) (p : List Char) (n : List UInt8)
    (a : List Char) (hp : ValidPrefix p) (hl : lengthOk v (H n).length = true)
    (h : addrMake H v p n = .ok a) : addrValidate v p a = .ok a :=
  Bech32.make_valid H v p n a hp hl h

/-- equal addresses ⇒ equal prefixes, equal digests, equal checksum constant; i.e. different
prefixes, or names with different digests, or different checksum variants give different addresses
(that different names have different digests is the SHA-256 assumption) -/
theorem addr_make_injective (H : List UInt8 → List UInt8) (v w : Variant) (p p' : List Char)
    (n n' : List UInt8) (a : List Char) (hp : ValidPrefix p) (hp' : ValidPrefix p')
    (h : addrMake H v p n = .ok a) (h' : addrMake H w p' n' = .ok a) :
    p = p' ∧ H n = H n' ∧ constOf v = constOf w :=
  Bech32.make_inj H v w p p' n n' a hp hp' h h'

/-- `addr_humanize` is injective too -/
theorem humanize_injective (v : Variant) (p : List Char) (bs bs' : List UInt8) (a : List Char)
    (h : addrHumanize v p bs = .ok a) (h' : addrHumanize v p bs' = .ok a) : bs = bs' :=
  Bech32.humanize_inj v p bs bs' a h h'

/-! ### non-vacuity: the hypotheses are satisfiable (kernel evaluation of the model) -/

def juno : List Char := ['j', 'u', 'n', 'o']
def osmo : List Char := ['o', 's', 'm', 'o']
/-- `juno1w50qgvnry9` = Bech32 of bytes 75 1e -/
def addrB : List Char := ['j','u','n','o','1','w','5','0','q','g','v','n','r','y','9']
/-- `juno1w50qasr0p8` = Bech32m of the same bytes -/
def addrM : List Char := ['j','u','n','o','1','w','5','0','q','a','s','r','0','p','8']
/-- `juno1w50p468keh`: valid Bech32 checksum, last data symbol with a non-zero padding bit (D5) -/
def addrPad : List Char := ['j','u','n','o','1','w','5','0','p','4','6','8','k','e','h']

/-- `DEFAULT_PREFIX` of src/addresses.rs and of cosmwasm-std's `MockApi` -/
def cosmwasm : List Char := ['c', 'o', 's', 'm', 'w', 'a', 's', 'm']

set_option maxRecDepth 100000 in
example : ValidPrefix juno ∧ ValidPrefix osmo ∧ ValidPrefix cosmwasm ∧ juno ≠ osmo := by decide
set_option maxRecDepth 100000 in
example : addrHumanize .bech32 juno [0x75, 0x1e] = .ok addrB
    ∧ addrCanonicalize .bech32 juno addrB = .ok [0x75, 0x1e]
    ∧ addrValidate .bech32 juno addrB = .ok addrB
    ∧ strictDecode .bech32 juno addrB = some [0x75, 0x1e] := by decide
set_option maxRecDepth 100000 in
example : addrHumanize .bech32m juno [0x75, 0x1e] = .ok addrM
    ∧ addrValidate .bech32m juno addrM = .ok addrM
    ∧ addrValidate .default juno addrB = .ok addrB := by decide
set_option maxRecDepth 100000 in
/-- the decoder is lenient about padding, validation is not -/
example : addrCanonicalize .bech32 juno addrPad = .ok [0x75, 0x1e]
    ∧ addrValidate .bech32 juno addrPad = .err
    ∧ strictDecode .bech32 juno addrPad = none := by decide
set_option maxRecDepth 100000 in
example : hasUpper (addrB.set 5 'W') = true ∧ hasLower (addrB.set 5 'W') = true
    ∧ addrValidate .bech32 juno (addrB.set 5 'W') = .err
    ∧ addrValidate .bech32 juno (addrB.set 5 'q') = .err
    ∧ addrValidate .bech32 osmo addrB = .err
    ∧ addrValidate .bech32m juno addrB = .err := by decide
set_option maxRecDepth 100000 in
example : addrMake (fun _ => [0x75, 0x1e]) .bech32 juno [] = .ok addrB
    ∧ addrMake (fun _ => [0x75, 0x1e]) .bech32 ['J', 'u'] [] = .panic := by decide

/-! ### with the real hash

`CwMt/Model/Sha256.lean` is SHA-256 itself (the wasm driver recomputes every address the implementation declares
with it), so the statements about `addr_make` hold for the function the code runs, not only for a parameter `H`. -/

/-- `addr_make` is total for every valid prefix: a digest is 32 bytes -/
theorem addr_make_sha256_total (v : Variant) (p : List Char) (name : String) (hp : hrpValid p = true) :
    ∃ a, Address.make v p name = .ok a :=
  addr_make_total Sha256.digest v p _ hp (Sha256.digest_length _)

/-- … and the address validates under its own codec, unchanged -/
theorem addr_make_sha256_valid (v : Variant) (p : List Char) (name : String) (a : List Char)
    (hp : ValidPrefix p) (h : Address.make v p name = .ok a) : addrValidate v p a = .ok a :=
  addr_make_valid Sha256.digest v p _ a hp
    (by rw [Sha256.digest_length]; cases v <;> decide) h

/-- the classic contract address and the default checksum are derived from 32-byte digests: humanizing them is
total for every valid prefix -/
theorem classic_address_total (v : Variant) (p : List Char) (codeId instanceId : Nat) (hp : ValidPrefix p) :
    ∃ a, Address.classicAddr v p codeId instanceId = .ok a ∧ addrValidate v p a = .ok a := by
  have hl : lengthOk v (Address.classicCanonical codeId instanceId).length = true := by
    rw [Address.classicCanonical_length]; cases v <;> decide
  have hm := addr_make_total (fun _ => Address.classicCanonical codeId instanceId) v p [] hp.1
    (Address.classicCanonical_length _ _)
  obtain ⟨a, ha⟩ := hm
  have hh := (addr_make_eq_humanize (fun _ => Address.classicCanonical codeId instanceId) v p [] a hl).mp ha
  exact ⟨a, hh, addr_make_valid (fun _ => Address.classicCanonical codeId instanceId) v p [] a hp hl ha⟩

end CwMt.C18
