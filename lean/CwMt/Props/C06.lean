import CwMt.Proofs.Overlay
/-
  C06 — The transactional KV overlay behaves exactly like an ordered map over its base.
  Property theorems only; helper lemmas live in CwMt/Proofs/{Store,Overlay}.lean.

  Model: CwMt/Model/Overlay.lean (`Stack`, `merge`, `localRange`, `abs`), CwMt/Model/Store.lean.
  `abs st` is the plain ordered map (strictly sorted association list) that the stack denotes.
  `WF st` is the representation invariant: the root and every layer's `loc` are strictly sorted
  (they are BTreeMaps) and every layer's `loc` is the last-write-wins summary of its `log`.
  Every state reachable from a sorted root by push/set/remove/commit/discard satisfies `WF`
  (`wf_set`, `wf_remove`, `wf_push`, `wf_commit`, `wf_discard`).
-/
namespace CwMt.C06
open CwMt

/-! ### the specification really is an ordered map -/

theorem spec_get_set (m : Store Val) (h : m.Sorted) (k k' : Key) (v : Val) :
    (m.set k v).get k' = if k' = k then some v else m.get k' := Store.get_set m h k k' v

theorem spec_get_remove (m : Store Val) (h : m.Sorted) (k k' : Key) :
    (m.remove k).get k' = if k' = k then none else m.get k' := Store.get_remove m h k k'

theorem spec_mem_range (m : Store Val) (h : m.Sorted) (s e : Option Key) (o : Order) (k : Key) (v : Val) :
    (k, v) ∈ m.range s e o ↔ (inBounds s e k = true ∧ m.get k = some v) := Store.mem_range m h s e o k v

/-! ### reachable states are well-formed -/

theorem wf_push (st : Stack) (h : WF st) : WF st.push := WF.push st h
theorem wf_set (st : Stack) (h : WF st) (k : Key) (v : Val) : WF (st.set k v) := WF.set st h k v
theorem wf_remove (st : Stack) (h : WF st) (k : Key) : WF (st.remove k) := WF.remove st h k
theorem wf_commit (st : Stack) (h : WF st) : WF st.commit := WF.commit st h
theorem wf_discard (st : Stack) (h : WF st) : WF st.discard := WF.discard st h
theorem abs_sorted (st : Stack) (h : WF st) : (abs st).Sorted := WF.abs_sorted st h

/-! ### reads: get and range answer as the ordered map `abs st`, at any depth -/

theorem get_refines (st : Stack) (h : WF st) (k : Key) : st.get k = (abs st).get k :=
  Stack.get_eq_abs st h k

/-- All bounds (absent, inverted, equal), both orders, any stacking depth. -/
theorem range_refines (st : Stack) (h : WF st) (s e : Option Key) (o : Order) :
    st.range s e o = (abs st).range s e o := Stack.range_eq_abs st h s e o

/-- Each key at most once, in strict key order of the requested direction. -/
theorem range_strict_sorted (st : Stack) (h : WF st) (s e : Option Key) (o : Order) :
    (st.range s e o).Pairwise (fun a b => before o a.1 b.1 = true) :=
  Stack.range_pairwise st h s e o

/-! ### writes -/

theorem set_refines (st : Stack) (h : WF st) (k : Key) (v : Val) :
    abs (st.set k v) = (abs st).set k v := Stack.abs_set st h k v

theorem remove_refines (st : Stack) (h : WF st) (k : Key) :
    abs (st.remove k) = (abs st).remove k := Stack.abs_remove st h k

theorem push_refines (st : Stack) : abs st.push = abs st := Stack.abs_push st

/-- While a cache is alive nothing beneath it changes: any sequence of writes to the cache leaves the
base (every lower layer and the root) syntactically unchanged, and dropping the cache returns it. -/
theorem base_untouched (st : Stack) (ops : List Op) : (st.push.applyLog ops).discard = st :=
  Stack.discard_applyLog_push st ops

/-- Committing makes the base equal to the ordered map the cache showed, and pops one level. -/
theorem commit_refines (b : Stack) (l : Layer) (h : WF (.layer b l)) :
    abs (Stack.commit (.layer b l)) = abs (.layer b l) ∧ (Stack.commit (.layer b l)).depth = b.depth :=
  Stack.abs_commit b l h

/-- Commit of the outermost cache: the root storage itself becomes the ordered map. -/
theorem commit_to_root (m : Store Val) (l : Layer) (h : WF (.layer (.root m) l)) :
    Stack.commit (.layer (.root m) l) = .root (abs (.layer (.root m) l)) :=
  Stack.commit_root m l h

/-! ### non-vacuity: a depth-3 stack with overwrite, delete of a base key, delete-then-set,
the empty key, 00 / ff bytes and keys that are prefixes of each other -/

def nvStack : Stack :=
  ((((((Stack.root [([], [1]), ([0], [2]), ([0, 0], [3]), ([255], [4])]).push.set [0] [9]).remove [255]).push.remove
    [0, 0]).set [0, 0] [7]).push.remove []).set [97] [5]

example : WF nvStack := by decide
example : nvStack.depth = 3 := by decide
example : nvStack.range none none .asc = [([0], [9]), ([0, 0], [7]), ([97], [5])] := by decide
example : nvStack.range (some [255]) (some [0]) .desc = [] := by decide

end CwMt.C06
