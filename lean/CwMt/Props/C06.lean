import CwMt.Proofs.Overlay
import CwMt.Proofs.Client
/-
  C06 — The transactional KV overlay behaves exactly like an ordered map over its base.
  Property theorems only; helper lemmas live in CwMt/Proofs/{Store,Overlay}.lean.

  Model: CwMt/Model/Overlay.lean (`Stack`, `merge`, `localRange`, `abs`), CwMt/Model/Store.lean.
  `abs st` is the plain ordered map (strictly sorted association list) that the stack denotes.
  `WF st` is the representation invariant: the root and every layer's `loc` are strictly sorted
  (they are BTreeMaps) and every layer's `loc` is the last-write-wins summary of its `log`.
  Every state reachable from a sorted root by push/set/remove/commit/discard satisfies `WF`
  (`wf_set`, `wf_remove`, `wf_push`, `wf_commit`, `wf_discard`).
-/
namespace CwMt.C06
open CwMt

/-! ### the specification really is an ordered map -/

theorem spec_get_set (m : Store Val) (h : m.Sorted) (k k' : Key) (v : Val) :
    (m.set k v).get k' = if k' = k then some v else m.get k' := Store.get_set m h k k' v

theorem spec_get_remove (m : Store Val) (h : m.Sorted) (k k' : Key) :
    (m.remove k).get k' = if k' = k then none else m.get k' := Store.get_remove m h k k'

theorem spec_mem_range (m : Store Val) (h : m.Sorted) (s e : Option Key) (o : Order) (k : Key) (v : Val) :
    (k, v) ∈ m.range s e o ↔ (inBounds s e k = true ∧ m.get k = some v) := Store.mem_range m h s e o k v

/-! ### reachable states are well-formed -/

theorem wf_push (st : Stack) (h : WF st) : WF st.push := WF.push st h
theorem wf_set (st : Stack) (h : WF st) (k : Key) (v : Val) : WF (st.set k v) := WF.set st h k v
theorem wf_remove (st : Stack) (h : WF st) (k : Key) : WF (st.remove k) := WF.remove st h k
theorem wf_commit (st : Stack) (h : WF st) : WF st.commit := WF.commit st h
theorem wf_discard (st : Stack) (h : WF st) : WF st.discard := WF.discard st h
theorem abs_sorted (st : Stack) (h : WF st) : (abs st).Sorted := WF.abs_sorted st h

/-! ### reads: get and range answer as the ordered map `abs st`, at any depth -/

theorem get_refines (st : Stack) (h : WF st) (k : Key) : st.get k = (abs st).get k :=
  Stack.get_eq_abs st h k

/-- All bounds (absent, inverted, equal), both orders, any stacking depth. -/
theorem range_refines (st : Stack) (h : WF st) (s e : Option Key) (o : Order) :
    st.range s e o = (abs st).range s e o := Stack.range_eq_abs st h s e o

/-- Each key at most once, in strict key order of the requested direction. -/
theorem range_strict_sorted (st : Stack) (h : WF st) (s e : Option Key) (o : Order) :
    (st.range s e o).Pairwise (fun a b => before o a.1 b.1 = true) :=
  Stack.range_pairwise st h s e o

/-! ### writes -/

theorem set_refines (st : Stack) (h : WF st) (k : Key) (v : Val) :
    abs (st.set k v) = (abs st).set k v := Stack.abs_set st h k v

theorem remove_refines (st : Stack) (h : WF st) (k : Key) :
    abs (st.remove k) = (abs st).remove k := Stack.abs_remove st h k

theorem push_refines (st : Stack) : abs st.push = abs st := Stack.abs_push st

/-- While a cache is alive nothing beneath it changes: any sequence of writes to the cache leaves the
base (every lower layer and the root) syntactically unchanged, and dropping the cache returns it. -/
theorem base_untouched (st : Stack) (ops : List Op) : (st.push.applyLog ops).discard = st :=
  Stack.discard_applyLog_push st ops

/-- Committing makes the base equal to the ordered map the cache showed, and pops one level. -/
theorem commit_refines (b : Stack) (l : Layer) (h : WF (.layer b l)) :
    abs (Stack.commit (.layer b l)) = abs (.layer b l) ∧ (Stack.commit (.layer b l)).depth = b.depth :=
  Stack.abs_commit b l h

/-- Commit of the outermost cache: the root storage itself becomes the ordered map. -/
theorem commit_to_root (m : Store Val) (l : Layer) (h : WF (.layer (.root m) l)) :
    Stack.commit (.layer (.root m) l) = .root (abs (.layer (.root m) l)) :=
  Stack.commit_root m l h

/-! ### non-vacuity: a depth-3 stack with overwrite, delete of a base key, delete-then-set,
the empty key, 00 / ff bytes and keys that are prefixes of each other -/

def nvStack : Stack :=
  ((((((Stack.root [([], [1]), ([0], [2]), ([0, 0], [3]), ([255], [4])]).push.set [0] [9]).remove [255]).push.remove
    [0, 0]).set [0, 0] [7]).push.remove []).set [97] [5]

example : WF nvStack := by decide
example : nvStack.depth = 3 := by decide
example : nvStack.range none none .asc = [([0], [9]), ([0, 0], [7]), ([97], [5])] := by decide
example : nvStack.range (some [255]) (some [0]) .desc = [] := by decide

end CwMt.C06

/-
  Whole clients. Model: CwMt/Model/Client.lean — `Client R` is an interaction tree over the `Storage`
  interface (get / range / set / remove on the storage handed to the code, getBase / rangeBase on the
  read-only base `transactional` hands to its action, `sub` = `transactional`), `Client.runStack`
  runs it on the overlay machinery, `Client.runPure base cur` on plain ordered maps where entering
  `sub` copies the map, `some` keeps the copy and `none` keeps the original. Helper lemmas live in
  CwMt/Proofs/Client.lean. `st.beneath` is the stack under the top layer (`Stack.discard`); a root
  store has no separate base, so for code running directly on it base reads see the current map:
  that is `Client.runPureRoot`. `Client.runSpec c st` picks the ordered-map run that belongs to `st`.
-/
namespace CwMt.C06
open CwMt

theorem runSpec_layer {R : Type} (c : Client R) (b : Stack) (l : Layer) :
    c.runSpec (.layer b l) = c.runPure (abs (Stack.layer b l).beneath) (abs (.layer b l)) := rfl

theorem runSpec_root {R : Type} (c : Client R) (m : Store Val) :
    c.runSpec (.root m) = c.runPureRoot m := rfl

/-- No client can tell the overlay machinery from copying a map: whatever a client does (reads,
range scans, writes, base reads, nested `transactional`s that commit or fail, to any depth), on any
well-formed stack, it gets the answers the ordered-map run gives and leaves a well-formed stack of
the same depth that denotes the map the ordered-map run computes; and if it runs on a cache, all
that lies beneath that cache is left exactly as it was. -/
theorem client_refines {R : Type} (c : Client R) (st st' : Stack) (r : R) (h : WF st)
    (hr : c.runStack st = (r, st')) :
    WF st' ∧ st'.depth = st.depth ∧ c.runSpec st = (r, abs st') ∧
      (0 < st.depth → st'.beneath = st.beneath) :=
  Client.refines c st st' r h hr

/-- `client_refines` spelled out for a client running on a cache `l` over `b`. -/
theorem client_refines_layer {R : Type} (c : Client R) (b : Stack) (l : Layer) (st' : Stack) (r : R)
    (h : WF (.layer b l)) (hr : c.runStack (.layer b l) = (r, st')) :
    WF st' ∧ st'.depth = b.depth + 1 ∧ c.runPure (abs b) (abs (.layer b l)) = (r, abs st') ∧
      st'.beneath = b :=
  Client.refines_layer c b l st' r h hr

/-- `client_refines` spelled out for a client running directly on a root store. -/
theorem client_refines_root {R : Type} (c : Client R) (m : Store Val) (st' : Stack) (r : R)
    (h : m.Sorted) (hr : c.runStack (.root m) = (r, st')) :
    ∃ m', st' = .root m' ∧ m'.Sorted ∧ c.runPureRoot m = (r, m') :=
  Client.refines_root c m st' r h hr

/-- `transactional(root, body)` then `cont`, on a root store `m`: the continuation sees the root
store `Stack.root m'` with `m'` the map the ordered-map run of the body computes from a copy of `m`
if the body answered `some`, and `Stack.root m` itself if the body answered `none`. -/
theorem transactional_at_root {R X : Type} (body : Client (Option X)) (cont : Option X → Client R)
    (m : Store Val) (hm : m.Sorted) :
    (Client.sub body cont).runStack (.root m) =
      match body.runPure m m with
      | (some x, m') => (cont (some x)).runStack (.root m')
      | (none, _) => (cont none).runStack (.root m) :=
  Client.sub_at_root body cont m hm

/-- Atomicity of `transactional` on the root store, for every body, whatever it nests: all of the
body's effects (as computed on plain maps) or none. -/
theorem transactional_atomic_at_root {X : Type} (body : Client (Option X)) (m : Store Val)
    (hm : m.Sorted) :
    (Client.sub body Client.done).runStack (.root m) =
      match body.runPure m m with
      | (some x, m') => (some x, .root m')
      | (none, _) => (none, .root m) :=
  Client.transactional_atomic_at_root body m hm

/-! ### non-vacuity: an outer `transactional` that overwrites a root key and deletes another, an
inner `transactional` that writes twice, reads its base and then fails, and afterwards a base read
(the root, unchanged while the cache lives), reads of the cache and a range scan of the base -/

def nvClient : Client (Option (Option Val × Option Val × Option Val × Option Val × List (Key × Val))) :=
  .sub
    (.set [1] [10] <| .remove [3] <|
      .sub (X := Unit)
        (.set [2] [20] <| .set [1] [11] <| .getBase [1] fun b =>
          if b = some [10] then .done none else .done (some ()))
        fun inner =>
          .getBase [1] fun b => .get [1] fun c => .get [2] fun d => .get [3] fun e =>
          .rangeBase none none .desc fun rb =>
          .done (if inner.isNone then some (b, c, d, e, rb) else none))
    .done

def nvRoot : Store Val := [([1], [1]), ([3], [3])]

example : WF (.root nvRoot) := by decide
example : nvClient.runStack (.root nvRoot) =
    (some (some [1], some [10], none, none, [([3], [3]), ([1], [1])]), .root [([1], [10])]) := rfl
example : nvClient.runPureRoot nvRoot =
    (some (some [1], some [10], none, none, [([3], [3]), ([1], [1])]), [([1], [10])]) := rfl
/-- on a cache: the failing inner `transactional` and the writes leave the root beneath untouched -/
example : ((Client.set [1] [10] <| .sub (X := Unit) (.set [2] [20] <| .done none) fun _ =>
      .getBase [1] fun b => .get [2] fun d => .done (b, d)).runStack (Stack.root nvRoot).push).2.beneath
    = .root nvRoot := rfl
example : (Client.set [1] [10] <| .sub (X := Unit) (.set [2] [20] <| .done none) fun _ =>
      .getBase [1] fun b => .get [2] fun d => .done (b, d)).runPure nvRoot nvRoot
    = ((some [1], none), [([1], [10]), ([3], [3])]) := rfl
/-- the same outer body failing at the end leaves the root store as it was -/
example : (Client.sub (X := Unit) (.set [1] [10] <| .remove [3] <| .done none) Client.done).runStack
    (.root nvRoot) = (none, .root nvRoot) := rfl

end CwMt.C06
