import CwMt.Model.Basic
import CwMt.Model.Store
import CwMt.Model.Overlay
import CwMt.Model.Prefix
