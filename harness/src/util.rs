//! Shared helpers: PRNG, hex tokens, panic capture.
use std::panic::{catch_unwind, AssertUnwindSafe};

/// SplitMix64 — the single source of randomness; a case is a pure function of its seed.
#[derive(Clone)]
pub struct Rng(pub u64);

impl Rng {
    pub fn new(seed: u64) -> Self {
        Rng(seed)
    }
    pub fn next(&mut self) -> u64 {
        self.0 = self.0.wrapping_add(0x9E3779B97F4A7C15);
        let mut z = self.0;
        z = (z ^ (z >> 30)).wrapping_mul(0xBF58476D1CE4E5B9);
        z = (z ^ (z >> 27)).wrapping_mul(0x94D049BB133111EB);
        z ^ (z >> 31)
    }
    pub fn below(&mut self, n: u64) -> u64 {
        if n == 0 {
            0
        } else {
            self.next() % n
        }
    }
    pub fn range(&mut self, lo: u64, hi: u64) -> u64 {
        lo + self.below(hi - lo + 1)
    }
    pub fn chance(&mut self, num: u64, den: u64) -> bool {
        self.below(den) < num
    }
    pub fn pick<T: Clone>(&mut self, xs: &[T]) -> T {
        xs[self.below(xs.len() as u64) as usize].clone()
    }
    pub fn fork(&mut self) -> Rng {
        Rng(self.next())
    }
}

pub fn hex(bytes: &[u8]) -> String {
    if bytes.is_empty() {
        return "-".to_string();
    }
    let mut s = String::with_capacity(bytes.len() * 2);
    for b in bytes {
        s.push_str(&format!("{:02x}", b));
    }
    s
}

/// Parses a hex token: `-` = empty, `XX*N` = byte XX repeated N times, otherwise plain hex.
/// Several parts may be joined with `+`.
pub fn unhex(tok: &str) -> Vec<u8> {
    if tok == "-" {
        return vec![];
    }
    let mut out = vec![];
    for part in tok.split('+') {
        if let Some((b, n)) = part.split_once('*') {
            let byte = u8::from_str_radix(b, 16).expect("hex byte");
            let n: usize = n.parse().expect("repeat count");
            out.extend(std::iter::repeat(byte).take(n));
        } else if part != "-" {
            let bs = part.as_bytes();
            assert!(bs.len() % 2 == 0, "odd hex {}", part);
            for i in (0..bs.len()).step_by(2) {
                out.push(u8::from_str_radix(&part[i..i + 2], 16).expect("hex"));
            }
        }
    }
    out
}

/// optional hex token: `~` = None
pub fn unhex_opt(tok: &str) -> Option<Vec<u8>> {
    if tok == "~" {
        None
    } else {
        Some(unhex(tok))
    }
}

pub fn hex_opt(b: &Option<Vec<u8>>) -> String {
    match b {
        None => "~".to_string(),
        Some(b) => hex(b),
    }
}

pub fn fmt_records(recs: &[(Vec<u8>, Vec<u8>)]) -> String {
    let mut s = String::from("[");
    for (i, (k, v)) in recs.iter().enumerate() {
        if i > 0 {
            s.push(',');
        }
        s.push_str(&hex(k));
        s.push('=');
        s.push_str(&hex(v));
    }
    s.push(']');
    s
}

/// Runs `f`, mapping a panic to `None`.
pub fn guarded<T>(f: impl FnOnce() -> T) -> Option<T> {
    catch_unwind(AssertUnwindSafe(f)).ok()
}

/// percent-encode a string so that it is one whitespace-free ASCII token
pub fn penc(s: &str) -> String {
    if s.is_empty() {
        return "%".to_string();
    }
    let mut out = String::new();
    for b in s.bytes() {
        if b.is_ascii_alphanumeric() || b == b'_' || b == b'-' || b == b'.' || b == b'/' || b == b':' {
            out.push(b as char);
        } else {
            out.push_str(&format!("%{:02x}", b));
        }
    }
    out
}

pub fn pdec(s: &str) -> String {
    if s == "%" {
        return String::new();
    }
    let bs = s.as_bytes();
    let mut out = vec![];
    let mut i = 0;
    while i < bs.len() {
        if bs[i] == b'%' {
            out.push(u8::from_str_radix(&s[i + 1..i + 3], 16).expect("pdec"));
            i += 3;
        } else {
            out.push(bs[i]);
            i += 1;
        }
    }
    String::from_utf8(out).expect("utf8")
}
