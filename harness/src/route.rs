//! Engine `route` (C17, C20): the real `AppBuilder` / `Router` / `ContractWrapper`, driven with
//! recording / accepting / failing modules. One slice, `route`.
//!
//! Ops (one output line each; see CwMt/Driver/Route.lean for the model side):
//!   build STEP*                        STEP := SLOT:rec|acc|fail[:TAG] | api:N | storage:N | block:N | wasm:N
//!                                      SLOT := bank|custom|staking|distribution|ibc|gov|stargate
//!                                      applies exactly these `with_*` calls, in this order, to
//!                                      `AppBuilder::new_custom()` and calls `build(init_fn)`            -> ok
//!   send-top (KIND H)+                 user u1 sends the messages in one `execute_multi`                -> ok|err|panic
//!   send-sub-from ENTRY native|lifted (KIND H)+
//!                                      the emitter contract returns the messages as sub-messages from its entry
//!                                      point ENTRY := instantiate|execute|migrate|sudo|reply (native:
//!                                      `ContractWrapper::new(..).with_sudo.with_reply.with_migrate`, chain message
//!                                      type; lifted: `Empty`-typed, `new_with_empty(..).with_sudo_empty
//!                                      .with_reply_empty.with_migrate_empty`). instantiate: u1 instantiates a fresh
//!                                      instance (symbol `cx`) of the emitter code; execute: u1 executes the emitter
//!                                      (`cn` / `cl`); migrate: the emitter's admin u2 migrates it to its own code;
//!                                      sudo: `App::sudo(SudoMsg::Wasm)`; reply: u1 executes the emitter, which
//!                                      dispatches a no-op call to itself with reply_on = always and the list as
//!                                      sub-message payload, and emits the list from `reply`                  -> ok|err|panic
//!   send-sub native|lifted (KIND H)+   alias of `send-sub-from execute …`
//!   query KIND H                       `App::raw_query`                                                 -> ok H|err|panic
//!   sudo KIND H                        `App::sudo`                                                      -> ok|err|panic
//!   records                            drains the calls recorded by the modules / the contract          -> [slot#tag:entry:sender:payload,…]
//!   block | storage-dump | init-count | api-prefix | wasm-gen
//!   wrapper new[:T]|new-empty[:T] WSTEP*    WSTEP := checksum:N | sudo[-empty]:T | reply[-empty]:T | migrate[-empty]:T
//!                                      -> checksum=… execute=… instantiate=… query=… sudo=… reply=… migrate=…
use crate::util::*;
use anyhow::{bail, Result as AnyResult};
use cosmwasm_std::testing::{mock_env, MockApi, MockQuerier, MockStorage};
use cosmwasm_std::{
    coin, to_json_binary, to_json_vec, Addr, AnyMsg, Api, BankMsg, BankQuery, Binary, BlockInfo, CanonicalAddr, Checksum,
    ContractResult, CosmosMsg, CustomMsg, CustomQuery, Decimal, Deps, DepsMut, DistributionMsg, DistributionQuery, Empty, Env,
    from_json, GovMsg, GrpcQuery, IbcMsg, IbcQuery, MessageInfo, OwnedDeps, Querier, QueryRequest, Reply, Response, StakingMsg, SubMsg,
    StakingQuery, Storage, SubMsgResponse, SubMsgResult, SystemResult, Timestamp, VoteOption, WasmMsg, WasmQuery,
};
use cw_multi_test::error::AnyError;
use cw_multi_test::{
    AddressGenerator, App, AppBuilder, AppResponse, Bank, BankSudo, Contract, ContractWrapper, CosmosRouter, Distribution,
    Executor, Gov, Ibc, Module, Stargate, Staking, StakingSudo, SudoMsg, WasmKeeper, WasmSudo,
};
use schemars::JsonSchema;
use serde::de::DeserializeOwned;
use serde::{Deserialize, Serialize};
use std::cell::{Cell, RefCell};
use std::fmt::Debug;
use std::marker::PhantomData;

// ------------------------------------------------------------------------------------------------
// the chain's custom message / query types

#[derive(Serialize, Deserialize, Clone, Debug, PartialEq, JsonSchema)]
pub struct CMsg {
    pub data: Binary,
}
impl CustomMsg for CMsg {}

#[derive(Serialize, Deserialize, Clone, Debug, PartialEq, JsonSchema)]
pub struct CQuery {
    pub data: Binary,
}
impl CustomQuery for CQuery {}

// ------------------------------------------------------------------------------------------------
// the shared record of calls (ghost state: it is not rolled back with a failing transaction)

#[derive(Clone, Debug)]
struct Rec {
    slot: &'static str,
    tag: u32,
    entry: &'static str,
    sender: String,
    payload: String,
}

thread_local! {
    static LOG: RefCell<Vec<Rec>> = RefCell::new(vec![]);
    static INIT_COUNT: Cell<u32> = Cell::new(0);
    /// own address seen by the emitter's `instantiate` the last time it ran (the fresh instance `cx`)
    static FRESH: RefCell<String> = RefCell::new(String::new());
}

fn record(slot: &'static str, tag: u32, entry: &'static str, sender: &str, payload: String) {
    LOG.with(|l| l.borrow_mut().push(Rec { slot, tag, entry, sender: sender.to_string(), payload }));
}

/// what a recording module answers to a message: two events (one of them typed `message`, as SDK modules emit)
/// and data naming the module — a reply must be handed exactly these
fn rec_response(slot: &str, tag: u32) -> AppResponse {
    #[allow(deprecated)]
    AppResponse {
        events: vec![
            cosmwasm_std::Event::new("message").add_attribute("module", slot),
            cosmwasm_std::Event::new("rec").add_attribute("tag", tag.to_string()),
        ],
        data: Some(Binary::from(format!("{}{}", slot, tag).into_bytes())),
    }
}

/// every recording module also leaves a trace in the chain storage, so that roll-back is observable
fn bump(storage: &mut dyn Storage, slot: &str) {
    let key = format!("cnt/{}", slot).into_bytes();
    let n = storage.get(&key).map(|v| v[0]).unwrap_or(0);
    storage.set(&key, &[n.wrapping_add(1)]);
}

// ------------------------------------------------------------------------------------------------
// payload <-> typed message

fn pstr(h: &[u8]) -> String {
    let mut s = String::from("p");
    for b in h {
        s.push_str(&format!("{:02x}", b));
    }
    s
}

fn unp(s: &str) -> String {
    match s.strip_prefix('p') {
        Some(r) if r.len() % 2 == 0 && r.bytes().all(|b| b.is_ascii_hexdigit()) => {
            if r.is_empty() {
                "-".into()
            } else {
                r.to_string()
            }
        }
        _ => "?".into(),
    }
}

fn enc_num(h: &[u8]) -> u64 {
    let mut v = h.len() as u64;
    for b in h {
        v = (v << 8) | *b as u64;
    }
    v
}

fn dec_num(v: u64) -> String {
    for len in 0..=6u64 {
        if v >> (8 * len) == len {
            let bytes: Vec<u8> = (0..len).rev().map(|i| ((v >> (8 * i)) & 0xff) as u8).collect();
            return hex(&bytes);
        }
    }
    "?".into()
}

fn url_payload(url: &str, value: &Binary) -> String {
    if url == format!("/{}", pstr(value.as_slice())) {
        hex(value.as_slice())
    } else {
        "?".into()
    }
}

trait Payload {
    fn payload(&self) -> String;
}
impl Payload for Empty {
    fn payload(&self) -> String {
        "-".into()
    }
}
impl Payload for CMsg {
    fn payload(&self) -> String {
        hex(self.data.as_slice())
    }
}
impl Payload for CQuery {
    fn payload(&self) -> String {
        hex(self.data.as_slice())
    }
}
impl Payload for BankMsg {
    fn payload(&self) -> String {
        match self {
            BankMsg::Send { to_address, amount } if amount.is_empty() => unp(to_address),
            _ => "?".into(),
        }
    }
}
impl Payload for BankQuery {
    fn payload(&self) -> String {
        match self {
            BankQuery::Balance { address, denom } if denom == "d" => unp(address),
            _ => "?".into(),
        }
    }
}
impl Payload for BankSudo {
    fn payload(&self) -> String {
        match self {
            BankSudo::Mint { to_address, amount } if amount.is_empty() => unp(to_address),
            #[allow(unreachable_patterns)]
            _ => "?".into(),
        }
    }
}
impl Payload for StakingMsg {
    fn payload(&self) -> String {
        match self {
            StakingMsg::Delegate { validator, amount } if *amount == coin(1, "d") => unp(validator),
            _ => "?".into(),
        }
    }
}
impl Payload for StakingQuery {
    fn payload(&self) -> String {
        match self {
            StakingQuery::Validator { address } => unp(address),
            _ => "?".into(),
        }
    }
}
impl Payload for StakingSudo {
    fn payload(&self) -> String {
        match self {
            StakingSudo::Slash { validator, percentage } if *percentage == Decimal::percent(50) => unp(validator),
            #[allow(unreachable_patterns)]
            _ => "?".into(),
        }
    }
}
impl Payload for DistributionMsg {
    fn payload(&self) -> String {
        match self {
            DistributionMsg::WithdrawDelegatorReward { validator } => unp(validator),
            _ => "?".into(),
        }
    }
}
impl Payload for IbcMsg {
    fn payload(&self) -> String {
        match self {
            IbcMsg::CloseChannel { channel_id } => unp(channel_id),
            _ => "?".into(),
        }
    }
}
impl Payload for IbcQuery {
    fn payload(&self) -> String {
        match self {
            IbcQuery::Channel { channel_id, port_id: None } => unp(channel_id),
            _ => "?".into(),
        }
    }
}
impl Payload for GovMsg {
    fn payload(&self) -> String {
        match self {
            GovMsg::Vote { proposal_id, option: VoteOption::Yes } => dec_num(*proposal_id),
            _ => "?".into(),
        }
    }
}

// ------------------------------------------------------------------------------------------------
// the universal module: records / accepts / fails

#[derive(Clone, Copy, PartialEq, Debug)]
enum Mode {
    Rec,
    Acc,
    Fail,
}

struct Uni<E, Q, S> {
    slot: &'static str,
    mode: Mode,
    tag: u32,
    _p: PhantomData<(E, Q, S)>,
}

impl<E, Q, S> Uni<E, Q, S> {
    fn new(slot: &'static str, mode: Mode, tag: u32) -> Self {
        Uni { slot, mode, tag, _p: PhantomData }
    }
}

impl<E: Payload + Debug, Q: Payload + Debug, S: Payload + Debug> Module for Uni<E, Q, S> {
    type ExecT = E;
    type QueryT = Q;
    type SudoT = S;

    fn execute<ExecC, QueryC>(
        &self,
        _api: &dyn Api,
        storage: &mut dyn Storage,
        _router: &dyn CosmosRouter<ExecC = ExecC, QueryC = QueryC>,
        _block: &BlockInfo,
        sender: Addr,
        msg: E,
    ) -> AnyResult<AppResponse>
    where
        ExecC: CustomMsg + DeserializeOwned + 'static,
        QueryC: CustomQuery + DeserializeOwned + 'static,
    {
        match self.mode {
            Mode::Rec => {
                record(self.slot, self.tag, "exec", sender.as_str(), msg.payload());
                bump(storage, self.slot);
                Ok(rec_response(self.slot, self.tag))
            }
            Mode::Acc => Ok(AppResponse::default()),
            Mode::Fail => bail!("failing module {}", self.slot),
        }
    }

    fn query(&self, _api: &dyn Api, _storage: &dyn Storage, _querier: &dyn Querier, _block: &BlockInfo, request: Q) -> AnyResult<Binary> {
        match self.mode {
            Mode::Rec => {
                let p = request.payload();
                record(self.slot, self.tag, "query", "-", p.clone());
                let mut out = vec![self.tag as u8];
                if p != "?" {
                    out.extend(unhex(&p));
                }
                Ok(Binary::from(out))
            }
            Mode::Acc => Ok(Binary::default()),
            Mode::Fail => bail!("failing module {}", self.slot),
        }
    }

    fn sudo<ExecC, QueryC>(
        &self,
        _api: &dyn Api,
        storage: &mut dyn Storage,
        _router: &dyn CosmosRouter<ExecC = ExecC, QueryC = QueryC>,
        _block: &BlockInfo,
        msg: S,
    ) -> AnyResult<AppResponse>
    where
        ExecC: CustomMsg + DeserializeOwned + 'static,
        QueryC: CustomQuery + DeserializeOwned + 'static,
    {
        match self.mode {
            Mode::Rec => {
                record(self.slot, self.tag, "sudo", "-", msg.payload());
                bump(storage, self.slot);
                Ok(AppResponse::default())
            }
            Mode::Acc => Ok(AppResponse::default()),
            Mode::Fail => bail!("failing module {}", self.slot),
        }
    }
}

type UBank = Uni<BankMsg, BankQuery, BankSudo>;
type UCustom = Uni<CMsg, CQuery, Empty>;
type UStaking = Uni<StakingMsg, StakingQuery, StakingSudo>;
type UDistr = Uni<DistributionMsg, Empty, Empty>;
type UIbc = Uni<IbcMsg, IbcQuery, Empty>;
type UGov = Uni<GovMsg, Empty, Empty>;
impl Bank for UBank {}
impl Staking for UStaking {}
impl Distribution for UDistr {}
impl Ibc for UIbc {}
impl Gov for UGov {}

struct UStargate {
    mode: Mode,
    tag: u32,
}

impl UStargate {
    fn exec(&self, storage: &mut dyn Storage, entry: &'static str, sender: &Addr, p: String) -> AnyResult<AppResponse> {
        match self.mode {
            Mode::Rec => {
                record("stargate", self.tag, entry, sender.as_str(), p);
                bump(storage, "stargate");
                Ok(rec_response("stargate", self.tag))
            }
            Mode::Acc => Ok(AppResponse::default()),
            Mode::Fail => bail!("failing stargate"),
        }
    }
    fn qry(&self, entry: &'static str, p: String) -> AnyResult<Binary> {
        match self.mode {
            Mode::Rec => {
                record("stargate", self.tag, entry, "-", p.clone());
                let mut out = vec![self.tag as u8];
                if p != "?" {
                    out.extend(unhex(&p));
                }
                Ok(Binary::from(out))
            }
            Mode::Acc => Ok(Binary::default()),
            Mode::Fail => bail!("failing stargate"),
        }
    }
}

impl Stargate for UStargate {
    fn execute_stargate<ExecC, QueryC>(
        &self,
        _api: &dyn Api,
        storage: &mut dyn Storage,
        _router: &dyn CosmosRouter<ExecC = ExecC, QueryC = QueryC>,
        _block: &BlockInfo,
        sender: Addr,
        type_url: String,
        value: Binary,
    ) -> AnyResult<AppResponse>
    where
        ExecC: CustomMsg + DeserializeOwned + 'static,
        QueryC: CustomQuery + DeserializeOwned + 'static,
    {
        self.exec(storage, "exec-stargate", &sender, url_payload(&type_url, &value))
    }

    fn query_stargate(&self, _api: &dyn Api, _storage: &dyn Storage, _querier: &dyn Querier, _block: &BlockInfo, path: String, data: Binary) -> AnyResult<Binary> {
        self.qry("query-stargate", url_payload(&path, &data))
    }

    fn execute_any<ExecC, QueryC>(
        &self,
        _api: &dyn Api,
        storage: &mut dyn Storage,
        _router: &dyn CosmosRouter<ExecC = ExecC, QueryC = QueryC>,
        _block: &BlockInfo,
        sender: Addr,
        msg: AnyMsg,
    ) -> AnyResult<AppResponse>
    where
        ExecC: CustomMsg + DeserializeOwned + 'static,
        QueryC: CustomQuery + DeserializeOwned + 'static,
    {
        self.exec(storage, "exec-any", &sender, url_payload(&msg.type_url, &msg.value))
    }

    fn query_grpc(&self, _api: &dyn Api, _storage: &dyn Storage, _querier: &dyn Querier, _block: &BlockInfo, request: GrpcQuery) -> AnyResult<Binary> {
        self.qry("query-grpc", url_payload(&request.path, &request.data))
    }
}

// ------------------------------------------------------------------------------------------------
// other supplied components

const PREFIXES: [&str; 3] = ["cosmwasm", "juno", "osmo"];

/// address generator of the supplied wasm keeper `wasm:N`: 32 bytes `N`, last byte the instance id
struct TagGen(u8);
impl AddressGenerator for TagGen {
    fn contract_address(&self, api: &dyn Api, _storage: &mut dyn Storage, _code_id: u64, instance_id: u64) -> AnyResult<Addr> {
        let mut bytes = vec![self.0; 32];
        bytes[31] = instance_id as u8;
        Ok(api.addr_humanize(&CanonicalAddr::from(bytes))?)
    }
}

/// checksum generator of the supplied wasm keeper `wasm:N`: 32 bytes `N`
struct TagChk(u8);
impl cw_multi_test::ChecksumGenerator for TagChk {
    fn checksum(&self, _creator: &Addr, _code_id: u64) -> cosmwasm_std::Checksum {
        cosmwasm_std::Checksum::from([self.0; 32])
    }
}

fn marker_block(n: u64) -> BlockInfo {
    BlockInfo { height: n, time: Timestamp::from_seconds(n), chain_id: format!("mark-{}", n) }
}

fn prefilled(n: u8) -> MockStorage {
    let mut s = MockStorage::new();
    s.set(format!("pre{}", n).as_bytes(), format!("v{}", n).as_bytes());
    s.set(b"shared", &[n]);
    s
}

// ------------------------------------------------------------------------------------------------
// messages

fn mk_msg<C>(kind: &str, h: &[u8], sink: &str, custom: &dyn Fn(&[u8]) -> C) -> Option<CosmosMsg<C>> {
    Some(match kind {
        "bank" => CosmosMsg::Bank(BankMsg::Send { to_address: pstr(h), amount: vec![] }),
        "wasm" => CosmosMsg::Wasm(WasmMsg::Execute {
            contract_addr: sink.to_string(),
            msg: to_json_binary(&ExecMsg::Sink { data: Binary::from(h) }).unwrap(),
            funds: vec![],
        }),
        "custom" => CosmosMsg::Custom(custom(h)),
        "staking" => CosmosMsg::Staking(StakingMsg::Delegate { validator: pstr(h), amount: coin(1, "d") }),
        "distribution" => CosmosMsg::Distribution(DistributionMsg::WithdrawDelegatorReward { validator: pstr(h) }),
        "ibc" => CosmosMsg::Ibc(IbcMsg::CloseChannel { channel_id: pstr(h) }),
        "gov" if h.len() <= 6 => CosmosMsg::Gov(GovMsg::Vote { proposal_id: enc_num(h), option: VoteOption::Yes }),
        #[allow(deprecated)]
        "stargate" => CosmosMsg::Stargate { type_url: format!("/{}", pstr(h)), value: Binary::from(h) },
        "any" => CosmosMsg::Any(AnyMsg { type_url: format!("/{}", pstr(h)), value: Binary::from(h) }),
        _ => return None,
    })
}

fn mk_query(kind: &str, h: &[u8], contract: &str) -> Option<QueryRequest<CQuery>> {
    Some(match kind {
        "bank" => QueryRequest::Bank(BankQuery::Balance { address: pstr(h), denom: "d".into() }),
        "wasm" => QueryRequest::Wasm(WasmQuery::Smart {
            contract_addr: contract.to_string(),
            msg: to_json_binary(&DataMsg { data: Binary::from(h) }).unwrap(),
        }),
        "custom" => QueryRequest::Custom(CQuery { data: Binary::from(h) }),
        "staking" => QueryRequest::Staking(StakingQuery::Validator { address: pstr(h) }),
        "distribution" => QueryRequest::Distribution(DistributionQuery::DelegatorWithdrawAddress { delegator_address: pstr(h) }),
        "ibc" => QueryRequest::Ibc(IbcQuery::Channel { channel_id: pstr(h), port_id: None }),
        #[allow(deprecated)]
        "stargate" => QueryRequest::Stargate { path: format!("/{}", pstr(h)), data: Binary::from(h) },
        "grpc" => QueryRequest::Grpc(GrpcQuery { path: format!("/{}", pstr(h)), data: Binary::from(h) }),
        _ => return None,
    })
}

fn mk_sudo(kind: &str, h: &[u8], contract: &str) -> Option<SudoMsg> {
    Some(match kind {
        "bank" => SudoMsg::Bank(BankSudo::Mint { to_address: pstr(h), amount: vec![] }),
        "staking" => SudoMsg::Staking(StakingSudo::Slash { validator: pstr(h), percentage: Decimal::percent(50) }),
        "wasm" => SudoMsg::Wasm(WasmSudo {
            contract_addr: Addr::unchecked(contract),
            message: to_json_binary(&SudoIn::Data { data: Binary::from(h) }).unwrap(),
        }),
        "custom" => SudoMsg::Custom(Empty {}),
        _ => return None,
    })
}

// ------------------------------------------------------------------------------------------------
// the emitter / sink contract, once for the chain's message type and once `Empty`-typed

type Items = Vec<(String, Binary)>;

#[derive(Serialize, Deserialize, Clone, Debug)]
enum ExecMsg {
    Sink { data: Binary },
    Emit { items: Items },
    /// does nothing; the harmless sub-message whose reply emits
    Nop {},
    /// dispatches `Nop` to itself with reply_on = always; `reply` emits the items
    ReplyEmit { items: Items },
    /// issues the queries (kind, payload) one after the other from inside `execute`, ignoring the answers
    Ask { items: Items },
    /// dispatches the one message as a sub-message with reply_on = always; `reply` records what it was handed
    Observe { items: Items },
}

/// message of `instantiate` and `migrate`: the sub-messages to emit (`{}` = none)
#[derive(Serialize, Deserialize, Clone, Debug, Default)]
struct EmitMsg {
    #[serde(default)]
    items: Items,
}

#[derive(Serialize, Deserialize, Clone, Debug)]
enum SudoIn {
    Data { data: Binary },
    Emit { items: Items },
}

#[derive(Serialize, Deserialize, Clone, Debug)]
struct DataMsg {
    data: Binary,
}

fn emit<C: CustomMsg>(env: &Env, items: Items, custom: &dyn Fn(&[u8]) -> C) -> Result<Response<C>, AnyError> {
    let mut r = Response::new();
    for (k, h) in items {
        match mk_msg::<C>(&k, h.as_slice(), env.contract.address.as_str(), custom) {
            Some(m) => r = r.add_message(m),
            None => bail!("unknown kind"),
        }
    }
    Ok(r)
}

fn run_exec<C: CustomMsg>(
    env: Env,
    info: MessageInfo,
    msg: ExecMsg,
    custom: &dyn Fn(&[u8]) -> C,
    ask: &dyn Fn(&[u8]),
) -> Result<Response<C>, AnyError> {
    match msg {
        ExecMsg::Ask { items } => {
            for (k, h) in items {
                match mk_query(&k, h.as_slice(), env.contract.address.as_str()) {
                    Some(q) => ask(&to_json_vec(&q).unwrap()),
                    None => bail!("unknown kind"),
                }
            }
            Ok(Response::new())
        }
        ExecMsg::Sink { data } => {
            record("wasm", 0, "exec", info.sender.as_str(), hex(data.as_slice()));
            Ok(Response::new())
        }
        ExecMsg::Emit { items } => emit(&env, items, custom),
        ExecMsg::Nop {} => Ok(Response::new()),
        ExecMsg::Observe { items } => {
            let mut r = Response::new();
            for (k, h) in items {
                match mk_msg::<C>(&k, h.as_slice(), env.contract.address.as_str(), custom) {
                    Some(m) => r = r.add_submessage(SubMsg::reply_always(m, 8).with_payload(to_json_binary(&vec![("observe".to_string(), Binary::default())]).unwrap())),
                    None => bail!("unknown kind"),
                }
            }
            Ok(r)
        }
        ExecMsg::ReplyEmit { items } => {
            let nop = WasmMsg::Execute {
                contract_addr: env.contract.address.to_string(),
                msg: to_json_binary(&ExecMsg::Nop {}).unwrap(),
                funds: vec![],
            };
            Ok(Response::new().add_submessage(SubMsg::reply_always(nop, 7).with_payload(to_json_binary(&items).unwrap())))
        }
    }
}

fn run_sudo<C: CustomMsg>(env: Env, msg: SudoIn, custom: &dyn Fn(&[u8]) -> C) -> Result<Response<C>, AnyError> {
    match msg {
        SudoIn::Data { data } => {
            record("wasm", 0, "sudo", "-", hex(data.as_slice()));
            Ok(Response::new())
        }
        SudoIn::Emit { items } => emit(&env, items, custom),
    }
}

fn run_inst<C: CustomMsg>(env: Env, msg: EmitMsg, custom: &dyn Fn(&[u8]) -> C) -> Result<Response<C>, AnyError> {
    FRESH.with(|f| *f.borrow_mut() = env.contract.address.to_string());
    emit(&env, msg.items, custom)
}

fn run_reply<C: CustomMsg>(env: Env, msg: Reply, custom: &dyn Fn(&[u8]) -> C) -> Result<Response<C>, AnyError> {
    let items: Items = from_json(&msg.payload)?;
    if items.len() == 1 && items[0].0 == "observe" {
        // what the dispatcher is told about its sub-message: outcome, event types in order, data
        let seen = match &msg.result {
            cosmwasm_std::SubMsgResult::Ok(r) => {
                #[allow(deprecated)]
                let d = r.data.as_ref().map(|b| hex(b.as_slice())).unwrap_or_else(|| "~".into());
                format!("ok/{}/{}", r.events.iter().map(|e| e.ty.clone()).collect::<Vec<_>>().join("+"), d)
            }
            cosmwasm_std::SubMsgResult::Err(_) => "err".to_string(),
        };
        record("wasm", msg.id as u32, "reply", "-", seen);
        return Ok(Response::new());
    }
    emit(&env, items, custom)
}

fn native_custom(h: &[u8]) -> CMsg {
    CMsg { data: Binary::from(h) }
}
fn lifted_custom(_h: &[u8]) -> Empty {
    Empty {}
}

fn n_exec(d: DepsMut<CQuery>, env: Env, info: MessageInfo, msg: ExecMsg) -> Result<Response<CMsg>, AnyError> {
    run_exec(env, info, msg, &native_custom, &|b| {
        let _ = d.querier.raw_query(b);
    })
}
fn n_inst(_d: DepsMut<CQuery>, env: Env, _i: MessageInfo, msg: EmitMsg) -> Result<Response<CMsg>, AnyError> {
    run_inst(env, msg, &native_custom)
}
fn n_query(_d: Deps<CQuery>, _e: Env, msg: DataMsg) -> Result<Binary, AnyError> {
    record("wasm", 0, "query", "-", hex(msg.data.as_slice()));
    Ok(msg.data)
}
fn n_sudo(_d: DepsMut<CQuery>, env: Env, msg: SudoIn) -> Result<Response<CMsg>, AnyError> {
    run_sudo(env, msg, &native_custom)
}
fn n_reply(_d: DepsMut<CQuery>, env: Env, msg: Reply) -> Result<Response<CMsg>, AnyError> {
    run_reply(env, msg, &native_custom)
}
fn n_migrate(_d: DepsMut<CQuery>, env: Env, msg: EmitMsg) -> Result<Response<CMsg>, AnyError> {
    emit(&env, msg.items, &native_custom)
}
fn l_exec(d: DepsMut<Empty>, env: Env, info: MessageInfo, msg: ExecMsg) -> Result<Response<Empty>, AnyError> {
    run_exec(env, info, msg, &lifted_custom, &|b| {
        let _ = d.querier.raw_query(b);
    })
}
fn l_inst(_d: DepsMut<Empty>, env: Env, _i: MessageInfo, msg: EmitMsg) -> Result<Response<Empty>, AnyError> {
    run_inst(env, msg, &lifted_custom)
}
fn l_query(_d: Deps<Empty>, _e: Env, msg: DataMsg) -> Result<Binary, AnyError> {
    record("wasm", 0, "query", "-", hex(msg.data.as_slice()));
    Ok(msg.data)
}
fn l_sudo(_d: DepsMut<Empty>, env: Env, msg: SudoIn) -> Result<Response<Empty>, AnyError> {
    run_sudo(env, msg, &lifted_custom)
}
fn l_reply(_d: DepsMut<Empty>, env: Env, msg: Reply) -> Result<Response<Empty>, AnyError> {
    run_reply(env, msg, &lifted_custom)
}
fn l_migrate(_d: DepsMut<Empty>, env: Env, msg: EmitMsg) -> Result<Response<Empty>, AnyError> {
    emit(&env, msg.items, &lifted_custom)
}

// ------------------------------------------------------------------------------------------------
// a uniform, object-safe face of `App<…>` for every combination of module types

trait DynApp {
    fn exec_multi(&mut self, sender: Addr, msgs: Vec<CosmosMsg<CMsg>>) -> AnyResult<Vec<AppResponse>>;
    fn raw(&self, req: &[u8]) -> cosmwasm_std::QuerierResult;
    fn do_sudo(&mut self, msg: SudoMsg) -> AnyResult<AppResponse>;
    fn block(&self) -> BlockInfo;
    fn dump(&self) -> Vec<(Vec<u8>, Vec<u8>)>;
    fn store(&mut self, code: Box<dyn Contract<CMsg, CQuery>>) -> u64;
    fn instantiate(&mut self, code_id: u64, label: &str) -> AnyResult<Addr>;
    fn canon(&self, addr: &str) -> Option<Vec<u8>>;
    fn prefix(&self) -> String;
    fn code_checksum(&self, code_id: u64) -> Option<Vec<u8>>;
}

impl<B, C, W, S, D, I, G, T> DynApp for App<B, MockApi, MockStorage, C, W, S, D, I, G, T>
where
    B: Bank,
    C: Module<ExecT = CMsg, QueryT = CQuery>,
    W: cw_multi_test::Wasm<CMsg, CQuery>,
    S: Staking,
    D: Distribution,
    I: Ibc,
    G: Gov,
    T: Stargate,
{
    fn exec_multi(&mut self, sender: Addr, msgs: Vec<CosmosMsg<CMsg>>) -> AnyResult<Vec<AppResponse>> {
        self.execute_multi(sender, msgs)
    }
    fn raw(&self, req: &[u8]) -> cosmwasm_std::QuerierResult {
        self.raw_query(req)
    }
    fn do_sudo(&mut self, msg: SudoMsg) -> AnyResult<AppResponse> {
        self.sudo(msg)
    }
    fn block(&self) -> BlockInfo {
        self.block_info()
    }
    fn dump(&self) -> Vec<(Vec<u8>, Vec<u8>)> {
        self.storage().range(None, None, cosmwasm_std::Order::Ascending).collect()
    }
    fn store(&mut self, code: Box<dyn Contract<CMsg, CQuery>>) -> u64 {
        self.store_code(code)
    }
    fn instantiate(&mut self, code_id: u64, label: &str) -> AnyResult<Addr> {
        // the admin (u2) is neither the contract, nor the creator (u0), nor the usual sender (u1)
        self.instantiate_contract(code_id, Addr::unchecked("u0"), &Empty {}, &[], label, Some("u2".to_string()))
    }
    fn canon(&self, addr: &str) -> Option<Vec<u8>> {
        self.api().addr_canonicalize(addr).ok().map(|c| c.to_vec())
    }
    fn code_checksum(&self, code_id: u64) -> Option<Vec<u8>> {
        self.wrap().query_wasm_code_info(code_id).ok().map(|i| i.checksum.as_slice().to_vec())
    }
    fn prefix(&self) -> String {
        let a = self.api().addr_make("x").to_string();
        match a.rfind('1') {
            Some(i) => a[..i].to_string(),
            None => "?".into(),
        }
    }
}

thread_local! {
    /// senders of the wasm messages handed to the configured wasm module (`wasmrec:N`), in order
    static WLOG: RefCell<Vec<String>> = RefCell::new(vec![]);
}

/// A wasm module of the test author's own: notes who sent each message it is handed, then lets the wrapped keeper do the work.
/// Every wasm message — from a user or emitted by a contract — has to come through here, since this is the module the
/// application was built with.
struct RecWasm {
    inner: WasmKeeper<CMsg, CQuery>,
}

impl cw_multi_test::Wasm<CMsg, CQuery> for RecWasm {
    fn execute(
        &self,
        api: &dyn cosmwasm_std::Api,
        storage: &mut dyn cosmwasm_std::Storage,
        router: &dyn cw_multi_test::CosmosRouter<ExecC = CMsg, QueryC = CQuery>,
        block: &BlockInfo,
        sender: Addr,
        msg: WasmMsg,
    ) -> AnyResult<AppResponse> {
        let kind = match &msg {
            WasmMsg::Execute { .. } => "x",
            WasmMsg::Instantiate { .. } => "i",
            WasmMsg::Migrate { .. } => "m",
            _ => "o",
        };
        WLOG.with(|w| w.borrow_mut().push(format!("{}/{}", kind, sender)));
        self.inner.execute(api, storage, router, block, sender, msg)
    }
    fn query(
        &self,
        api: &dyn cosmwasm_std::Api,
        storage: &dyn cosmwasm_std::Storage,
        querier: &dyn cosmwasm_std::Querier,
        block: &BlockInfo,
        request: WasmQuery,
    ) -> AnyResult<Binary> {
        self.inner.query(api, storage, querier, block, request)
    }
    fn sudo(
        &self,
        api: &dyn cosmwasm_std::Api,
        storage: &mut dyn cosmwasm_std::Storage,
        router: &dyn cw_multi_test::CosmosRouter<ExecC = CMsg, QueryC = CQuery>,
        block: &BlockInfo,
        msg: WasmSudo,
    ) -> AnyResult<AppResponse> {
        self.inner.sudo(api, storage, router, block, msg)
    }
    fn store_code(&mut self, creator: Addr, code: Box<dyn Contract<CMsg, CQuery>>) -> u64 {
        self.inner.store_code(creator, code)
    }
    fn store_code_with_id(&mut self, creator: Addr, code_id: u64, code: Box<dyn Contract<CMsg, CQuery>>) -> AnyResult<u64> {
        self.inner.store_code_with_id(creator, code_id, code)
    }
    fn duplicate_code(&mut self, code_id: u64) -> AnyResult<u64> {
        self.inner.duplicate_code(code_id)
    }
    fn contract_data(&self, storage: &dyn cosmwasm_std::Storage, address: &Addr) -> AnyResult<cw_multi_test::ContractData> {
        self.inner.contract_data(storage, address)
    }
    fn dump_wasm_raw(&self, storage: &dyn cosmwasm_std::Storage, address: &Addr) -> Vec<cosmwasm_std::Record> {
        self.inner.dump_wasm_raw(storage, address)
    }
}

#[derive(Clone, Debug)]
enum Step {
    Module(&'static str, Mode, u32),
    Api(usize),
    Storage(u8),
    Block(u64),
    Wasm(u8),
    /// the same keeper as `wasm:N`, wrapped in a module of the test author's own that notes every message it is handed
    WasmRec(u8),
    /// `with_ibc(IbcAcceptingModule) . with_gov(GovAcceptingModule) . with_stargate(StargateAccepting)`: the crate's own modules
    CrateAcc,
}

fn parse_step(tok: &str) -> Option<Step> {
    let p: Vec<&str> = tok.split(':').collect();
    let num = |s: &str| s.parse::<u32>().ok().filter(|n| *n <= 9);
    match p.as_slice() {
        ["api", n] => num(n).filter(|n| (*n as usize) < PREFIXES.len()).map(|n| Step::Api(n as usize)),
        ["storage", n] => num(n).map(|n| Step::Storage(n as u8)),
        ["block", n] => num(n).map(|n| Step::Block(n as u64)),
        ["wasm", n] => num(n).map(|n| Step::Wasm(n as u8)),
        ["wasmrec", n] => num(n).map(|n| Step::WasmRec(n as u8)),
        ["crate-acc"] => Some(Step::CrateAcc),
        [slot, mode] | [slot, mode, _] => {
            let slot = ["bank", "custom", "staking", "distribution", "ibc", "gov", "stargate"].iter().find(|s| *s == slot)?;
            let mode = match *mode {
                "rec" => Mode::Rec,
                "acc" => Mode::Acc,
                "fail" => Mode::Fail,
                _ => return None,
            };
            let tag = if p.len() == 3 { num(p[2])? } else { 0 };
            Some(Step::Module(slot, mode, tag))
        }
        _ => None,
    }
}

/// Applies the steps, in order, each as exactly one `with_*` call on the real builder, then `build`.
/// The builder's type changes with the first step for a module slot; the recursion instantiates the
/// 2^7 reachable type combinations.
fn apply<B, C, W, S, D, I, G, T>(b: AppBuilder<B, MockApi, MockStorage, C, W, S, D, I, G, T>, steps: &[Step]) -> Box<dyn DynApp>
where
    B: Bank + 'static,
    C: Module<ExecT = CMsg, QueryT = CQuery> + 'static,
    W: cw_multi_test::Wasm<CMsg, CQuery> + 'static,
    S: Staking + 'static,
    D: Distribution + 'static,
    I: Ibc + 'static,
    G: Gov + 'static,
    T: Stargate + 'static,
{
    let Some((first, rest)) = steps.split_first() else {
        return Box::new(b.build(|_router, _api, storage| {
            let n = INIT_COUNT.with(|c| {
                c.set(c.get() + 1);
                c.get()
            });
            storage.set(b"init", &[n as u8]);
        }));
    };
    match first.clone() {
        // the crate's OWN always-accepting modules in the ibc, gov and stargate slots (always the last step)
        Step::CrateAcc => Box::new(
            b.with_ibc(cw_multi_test::IbcAcceptingModule::new())
                .with_gov(cw_multi_test::GovAcceptingModule::new())
                .with_stargate(cw_multi_test::StargateAccepting)
                .build(|_router, _api, storage| {
                    let n = INIT_COUNT.with(|c| {
                        c.set(c.get() + 1);
                        c.get()
                    });
                    storage.set(b"init", &[n as u8]);
                }),
        ),
        Step::Module("bank", m, t) => apply(b.with_bank(UBank::new("bank", m, t)), rest),
        Step::Module("custom", m, t) => apply(b.with_custom(UCustom::new("custom", m, t)), rest),
        Step::Module("staking", m, t) => apply(b.with_staking(UStaking::new("staking", m, t)), rest),
        Step::Module("distribution", m, t) => apply(b.with_distribution(UDistr::new("distribution", m, t)), rest),
        Step::Module("ibc", m, t) => apply(b.with_ibc(UIbc::new("ibc", m, t)), rest),
        Step::Module("gov", m, t) => apply(b.with_gov(UGov::new("gov", m, t)), rest),
        Step::Module(_, m, t) => apply(b.with_stargate(UStargate { mode: m, tag: t }), rest),
        Step::Api(n) => apply(b.with_api(MockApi::default().with_prefix(PREFIXES[n])), rest),
        Step::Storage(n) => apply(b.with_storage(prefilled(n)), rest),
        Step::Block(n) => apply(b.with_block(marker_block(n)), rest),
        // the keeper is itself assembled by two builder steps, in either order
        Step::Wasm(n) if n % 2 == 1 => apply(
            b.with_wasm(WasmKeeper::<CMsg, CQuery>::new().with_address_generator(TagGen(n)).with_checksum_generator(TagChk(n))),
            rest,
        ),
        Step::Wasm(n) => apply(
            b.with_wasm(WasmKeeper::<CMsg, CQuery>::new().with_checksum_generator(TagChk(n)).with_address_generator(TagGen(n))),
            rest,
        ),
        Step::WasmRec(n) => apply(
            b.with_wasm(RecWasm { inner: WasmKeeper::<CMsg, CQuery>::new().with_address_generator(TagGen(n)).with_checksum_generator(TagChk(n)) }),
            rest,
        ),
    }
}

struct Built {
    app: Box<dyn DynApp>,
    native: String,
    lifted: String,
    code_native: u64,
    code_lifted: u64,
}

fn build(steps: &[Step]) -> Built {
    INIT_COUNT.with(|c| c.set(0));
    let mut app = apply(AppBuilder::new_custom(), steps);
    let native = ContractWrapper::new(n_exec, n_inst, n_query).with_sudo(n_sudo).with_reply(n_reply).with_migrate(n_migrate);
    let lifted: ContractWrapper<ExecMsg, EmitMsg, DataMsg, AnyError, AnyError, AnyError, CMsg, CQuery> =
        ContractWrapper::new_with_empty(l_exec, l_inst, l_query);
    let lifted = lifted.with_sudo_empty(l_sudo).with_reply_empty(l_reply).with_migrate_empty(l_migrate);
    let c1 = app.store(Box::new(native));
    let c2 = app.store(Box::new(lifted));
    let native = app.instantiate(c1, "native").map(|a| a.to_string()).unwrap_or_else(|_| "?".into());
    let lifted = app.instantiate(c2, "lifted").map(|a| a.to_string()).unwrap_or_else(|_| "?".into());
    LOG.with(|l| l.borrow_mut().clear());
    WLOG.with(|w| w.borrow_mut().clear());
    FRESH.with(|f| f.borrow_mut().clear());
    Built { app, native, lifted, code_native: c1, code_lifted: c2 }
}

fn outcome<T>(r: Option<AnyResult<T>>) -> String {
    match r {
        Some(Ok(_)) => "ok".into(),
        Some(Err(_)) => "err".into(),
        None => "panic".into(),
    }
}

fn pairs(t: &[&str]) -> Option<Vec<(String, Vec<u8>)>> {
    if t.is_empty() || t.len() % 2 != 0 {
        return None;
    }
    let mut out = vec![];
    for c in t.chunks(2) {
        out.push((c[0].to_string(), guarded(|| unhex(c[1]))?));
    }
    Some(out)
}

const NON_WASM: &[u8] = b"\x00\x04wasm";

fn run_op(st: &mut Option<Built>, t: &[&str]) -> String {
    if t[0] == "build" {
        let steps: Option<Vec<Step>> = t[1..].iter().map(|s| parse_step(s)).collect();
        // `crate-acc` is only accepted as the last step
        let steps = steps.filter(|v| v.iter().rev().skip(1).all(|s| !matches!(s, Step::CrateAcc)));
        return match steps {
            Some(steps) => match guarded(|| build(&steps)) {
                Some(b) => {
                    *st = Some(b);
                    "ok".into()
                }
                None => {
                    *st = None;
                    "panic".into()
                }
            },
            None => "bad-op".into(),
        };
    }
    if t[0] == "wrapper" {
        return wrapper_op(&t[1..]);
    }
    let known = ["send-top", "send-sub", "send-sub-from", "send-sub-reply", "query", "query-sub", "sudo", "records", "block", "storage-dump", "init-count", "api-prefix", "wasm-gen", "wasm-calls"];
    if !known.contains(&t[0]) {
        return "bad-op".into();
    }
    let Some(b) = st.as_mut() else { return "no-app".into() };
    match t[0] {
        "send-top" => {
            let Some(items) = pairs(&t[1..]) else { return "bad-op".into() };
            let msgs: Option<Vec<_>> = items.iter().map(|(k, h)| mk_msg::<CMsg>(k, h, &b.native, &|h| CMsg { data: Binary::from(h) })).collect();
            let Some(msgs) = msgs else { return "bad-op".into() };
            outcome(guarded(|| b.app.exec_multi(Addr::unchecked("u1"), msgs)))
        }
        "send-sub" | "send-sub-from" => {
            // `send-sub X …` = `send-sub-from execute X …`
            let (entry, rest) = if t[0] == "send-sub" { ("execute", &t[1..]) } else if t.len() >= 2 { (t[1], &t[2..]) } else { return "bad-op".into() };
            if !["instantiate", "execute", "migrate", "sudo", "reply"].contains(&entry) {
                return "bad-op".into();
            }
            if rest.is_empty() || !(rest[0] == "native" || rest[0] == "lifted") {
                return "bad-op".into();
            }
            let native = rest[0] == "native";
            let Some(items) = pairs(&rest[1..]) else { return "bad-op".into() };
            if items.iter().any(|(k, h)| mk_msg::<Empty>(k, h, "x", &|_| Empty {}).is_none()) {
                return "bad-op".into();
            }
            let items: Items = items.into_iter().map(|(k, h)| (k, Binary::from(h))).collect();
            let target = if native { b.native.clone() } else { b.lifted.clone() };
            let code_id = if native { b.code_native } else { b.code_lifted };
            let (sender, msg) = match entry {
                "execute" => ("u1", WasmMsg::Execute { contract_addr: target, msg: to_json_binary(&ExecMsg::Emit { items }).unwrap(), funds: vec![] }),
                "reply" => ("u1", WasmMsg::Execute { contract_addr: target, msg: to_json_binary(&ExecMsg::ReplyEmit { items }).unwrap(), funds: vec![] }),
                "instantiate" => (
                    "u1",
                    WasmMsg::Instantiate { admin: None, code_id, msg: to_json_binary(&EmitMsg { items }).unwrap(), funds: vec![], label: "fresh".into() },
                ),
                "migrate" => ("u2", WasmMsg::Migrate { contract_addr: target, new_code_id: code_id, msg: to_json_binary(&EmitMsg { items }).unwrap() }),
                _ => {
                    let sudo = SudoMsg::Wasm(WasmSudo { contract_addr: Addr::unchecked(target), message: to_json_binary(&SudoIn::Emit { items }).unwrap() });
                    return outcome(guarded(|| b.app.do_sudo(sudo)));
                }
            };
            outcome(guarded(|| b.app.exec_multi(Addr::unchecked(sender), vec![CosmosMsg::Wasm(msg)])))
        }
        "send-sub-reply" => {
            // send-sub-reply native|lifted KIND H : one sub-message with reply_on always; the reply records what it saw
            if t.len() != 4 || !(t[1] == "native" || t[1] == "lifted") || t[2] == "wasm" {
                return "bad-op".into();
            }
            let native = t[1] == "native";
            let Some(items) = pairs(&t[2..]) else { return "bad-op".into() };
            if items.iter().any(|(k, h)| mk_msg::<Empty>(k, h, "x", &|_| Empty {}).is_none() || (!native && k == "custom")) {
                return "bad-op".into();
            }
            let items: Items = items.into_iter().map(|(k, h)| (k, Binary::from(h))).collect();
            let target = if native { b.native.clone() } else { b.lifted.clone() };
            let msg = WasmMsg::Execute { contract_addr: target, msg: to_json_binary(&ExecMsg::Observe { items }).unwrap(), funds: vec![] };
            outcome(guarded(|| b.app.exec_multi(Addr::unchecked("u1"), vec![CosmosMsg::Wasm(msg)])))
        }
        "query-sub" => {
            // query-sub native|lifted (KIND H)+ : the contract issues the queries from inside one execute call
            if t.len() < 2 || !(t[1] == "native" || t[1] == "lifted") {
                return "bad-op".into();
            }
            let native = t[1] == "native";
            let Some(items) = pairs(&t[2..]) else { return "bad-op".into() };
            if items.iter().any(|(k, h)| mk_query(k, h, "x").is_none() || (!native && k == "custom")) {
                return "bad-op".into();
            }
            let items: Items = items.into_iter().map(|(k, h)| (k, Binary::from(h))).collect();
            let target = if native { b.native.clone() } else { b.lifted.clone() };
            let msg = WasmMsg::Execute { contract_addr: target, msg: to_json_binary(&ExecMsg::Ask { items }).unwrap(), funds: vec![] };
            outcome(guarded(|| b.app.exec_multi(Addr::unchecked("u1"), vec![CosmosMsg::Wasm(msg)])))
        }
        "query" => {
            if t.len() != 3 {
                return "bad-op".into();
            }
            let Some(h) = guarded(|| unhex(t[2])) else { return "bad-op".into() };
            let Some(req) = mk_query(t[1], &h, &b.native) else { return "bad-op".into() };
            let bytes = to_json_vec(&req).unwrap();
            match guarded(|| b.app.raw(&bytes)) {
                Some(SystemResult::Ok(ContractResult::Ok(bin))) => format!("ok {}", hex(bin.as_slice())),
                Some(_) => "err".into(),
                None => "panic".into(),
            }
        }
        "sudo" => {
            if t.len() != 3 {
                return "bad-op".into();
            }
            let Some(h) = guarded(|| unhex(t[2])) else { return "bad-op".into() };
            let Some(msg) = mk_sudo(t[1], &h, &b.native) else { return "bad-op".into() };
            outcome(guarded(|| b.app.do_sudo(msg)))
        }
        "records" => {
            let recs: Vec<Rec> = LOG.with(|l| l.borrow_mut().drain(..).collect());
            let sym = |s: &str| {
                if s == b.native {
                    "cn".to_string()
                } else if s == b.lifted {
                    "cl".to_string()
                } else if !s.is_empty() && FRESH.with(|f| *f.borrow() == s) {
                    "cx".to_string()
                } else {
                    penc(s)
                }
            };
            let items: Vec<String> = recs.iter().map(|r| format!("{}#{}:{}:{}:{}", r.slot, r.tag, r.entry, sym(&r.sender), r.payload)).collect();
            format!("[{}]", items.join(","))
        }
        "block" => {
            let bi = b.app.block();
            format!("{} {} {}", bi.height, bi.time.nanos(), penc(&bi.chain_id))
        }
        "storage-dump" => {
            let recs: Vec<_> = b.app.dump().into_iter().filter(|(k, _)| !k.starts_with(NON_WASM)).collect();
            fmt_records(&recs)
        }
        "init-count" => INIT_COUNT.with(|c| c.get()).to_string(),
        // implementation-only line (the model answers `!`): what the configured wasm module noted since the last time
        "wasm-calls" => {
            let w: Vec<String> = WLOG.with(|w| w.borrow_mut().drain(..).collect());
            let sym = |s: &str| {
                if s == b.native {
                    "cn".to_string()
                } else if s == b.lifted {
                    "cl".to_string()
                } else if !s.is_empty() && FRESH.with(|f| *f.borrow() == s) {
                    "cx".to_string()
                } else {
                    penc(s)
                }
            };
            format!("!w[{}]", w.iter().map(|e| { let (k, s) = e.split_once('/').unwrap_or(("?", "")); format!("{}/{}", k, sym(s)) }).collect::<Vec<_>>().join(","))
        }
        "api-prefix" => b.app.prefix(),
        "wasm-gen" => {
            let a = match b.app.canon(&b.native) {
                Some(bytes) if bytes.len() == 32 && bytes[..31].iter().all(|x| *x == bytes[0]) && bytes[0] <= 9 => bytes[0].to_string(),
                Some(_) => "default".into(),
                None => "?".into(),
            };
            let c = match b.app.code_checksum(b.code_native) {
                Some(bytes) if bytes.len() == 32 && bytes.iter().all(|x| *x == bytes[0]) && bytes[0] <= 9 => bytes[0].to_string(),
                Some(_) => "default".into(),
                None => "?".into(),
            };
            format!("{}/{}", a, c)
        }
        _ => "bad-op".into(),
    }
}

// ------------------------------------------------------------------------------------------------
// ContractWrapper

type W = ContractWrapper<Empty, Empty, Empty, AnyError, AnyError, AnyError, CMsg, CQuery>;

macro_rules! entry_fns {
    ($($n:literal => $x:ident $i:ident $q:ident $s:ident $r:ident $m:ident $ex:ident $ei:ident $eq:ident $es:ident $er:ident $em:ident;)*) => {
        $(
        fn $x(_d: DepsMut<CQuery>, _e: Env, _i: MessageInfo, _m: Empty) -> Result<Response<CMsg>, AnyError> { Ok(Response::new().set_data($n.as_bytes())) }
        fn $i(_d: DepsMut<CQuery>, _e: Env, _i: MessageInfo, _m: Empty) -> Result<Response<CMsg>, AnyError> { Ok(Response::new().set_data($n.as_bytes())) }
        fn $q(_d: Deps<CQuery>, _e: Env, _m: Empty) -> Result<Binary, AnyError> { Ok(Binary::from($n.as_bytes())) }
        fn $s(_d: DepsMut<CQuery>, _e: Env, _m: Empty) -> Result<Response<CMsg>, AnyError> { Ok(Response::new().set_data($n.as_bytes())) }
        fn $r(_d: DepsMut<CQuery>, _e: Env, _m: Reply) -> Result<Response<CMsg>, AnyError> { Ok(Response::new().set_data($n.as_bytes())) }
        fn $m(_d: DepsMut<CQuery>, _e: Env, _m: Empty) -> Result<Response<CMsg>, AnyError> { Ok(Response::new().set_data($n.as_bytes())) }
        fn $ex(_d: DepsMut<Empty>, _e: Env, _i: MessageInfo, _m: Empty) -> Result<Response<Empty>, AnyError> { Ok(Response::new().set_data(concat!("e", $n).as_bytes())) }
        fn $ei(_d: DepsMut<Empty>, _e: Env, _i: MessageInfo, _m: Empty) -> Result<Response<Empty>, AnyError> { Ok(Response::new().set_data(concat!("e", $n).as_bytes())) }
        fn $eq(_d: Deps<Empty>, _e: Env, _m: Empty) -> Result<Binary, AnyError> { Ok(Binary::from(concat!("e", $n).as_bytes())) }
        fn $es(_d: DepsMut<Empty>, _e: Env, _m: Empty) -> Result<Response<Empty>, AnyError> { Ok(Response::new().set_data(concat!("e", $n).as_bytes())) }
        fn $er(_d: DepsMut<Empty>, _e: Env, _m: Reply) -> Result<Response<Empty>, AnyError> { Ok(Response::new().set_data(concat!("e", $n).as_bytes())) }
        fn $em(_d: DepsMut<Empty>, _e: Env, _m: Empty) -> Result<Response<Empty>, AnyError> { Ok(Response::new().set_data(concat!("e", $n).as_bytes())) }
        )*
    };
}
entry_fns! {
    "1" => x1 i1 q1 s1 r1 m1 ex1 ei1 eq1 es1 er1 em1;
    "2" => x2 i2 q2 s2 r2 m2 ex2 ei2 eq2 es2 er2 em2;
    "3" => x3 i3 q3 s3 r3 m3 ex3 ei3 eq3 es3 er3 em3;
}

fn tag_of(tok: Option<&&str>) -> Option<usize> {
    match tok {
        None => Some(1),
        Some(s) => s.parse::<usize>().ok().filter(|n| (1..=3).contains(n)),
    }
}

fn wrapper_op(t: &[&str]) -> String {
    let r = guarded(|| -> Option<String> {
        let first: Vec<&str> = t.first()?.split(':').collect();
        let n = tag_of(first.get(1))? - 1;
        let mut w: W = match first[0] {
            "new" => ContractWrapper::new([x1, x2, x3][n], [i1, i2, i3][n], [q1, q2, q3][n]),
            "new-empty" => ContractWrapper::new_with_empty([ex1, ex2, ex3][n], [ei1, ei2, ei3][n], [eq1, eq2, eq3][n]),
            _ => return None,
        };
        for tok in &t[1..] {
            let p: Vec<&str> = tok.split(':').collect();
            if p.len() != 2 {
                return None;
            }
            if p[0] == "checksum" {
                let c: u8 = p[1].parse().ok().filter(|c| *c <= 9)?;
                w = w.with_checksum(tag_checksum(c));
                continue;
            }
            let n = tag_of(p.get(1))? - 1;
            w = match p[0] {
                "sudo" => w.with_sudo([s1, s2, s3][n]),
                "sudo-empty" => w.with_sudo_empty([es1, es2, es3][n]),
                "reply" => w.with_reply([r1, r2, r3][n]),
                "reply-empty" => w.with_reply_empty([er1, er2, er3][n]),
                "migrate" => w.with_migrate([m1, m2, m3][n]),
                "migrate-empty" => w.with_migrate_empty([em1, em2, em3][n]),
                _ => return None,
            };
        }
        Some(observe_wrapper(&w))
    });
    match r {
        Some(Some(s)) => s,
        Some(None) => "bad-op".into(),
        None => "panic".into(),
    }
}

/// the checksum behind `checksum:N`: a digest, except for the two boundary values — all-zero bytes (N = 0) and all-0xFF bytes (N = 9)
fn tag_checksum(n: u8) -> Checksum {
    match n {
        0 => Checksum::from([0u8; 32]),
        9 => Checksum::from([0xffu8; 32]),
        _ => Checksum::generate(&[n]),
    }
}

fn observe_wrapper(w: &W) -> String {
    let mut deps: OwnedDeps<MockStorage, MockApi, MockQuerier<CQuery>, CQuery> =
        OwnedDeps { storage: MockStorage::default(), api: MockApi::default(), querier: MockQuerier::new(&[]), custom_query_type: PhantomData };
    let info = MessageInfo { sender: Addr::unchecked("u1"), funds: vec![] };
    let data = |r: AnyResult<Response<CMsg>>| match r {
        Ok(resp) => resp.data.map(|d| String::from_utf8_lossy(d.as_slice()).to_string()).unwrap_or_else(|| "?".into()),
        Err(_) => "none".into(),
    };
    let checksum = match w.checksum() {
        None => "none".to_string(),
        Some(c) => (0u8..=9).find(|n| tag_checksum(*n) == c).map(|n| n.to_string()).unwrap_or_else(|| "?".into()),
    };
    let body = b"{}".to_vec();
    let execute = data(Contract::execute(w, deps.as_mut(), mock_env(), info.clone(), body.clone()));
    let instantiate = data(Contract::instantiate(w, deps.as_mut(), mock_env(), info, body.clone()));
    let query = match Contract::query(w, deps.as_ref(), mock_env(), body.clone()) {
        Ok(b) => String::from_utf8_lossy(b.as_slice()).to_string(),
        Err(_) => "none".into(),
    };
    let sudo = data(Contract::sudo(w, deps.as_mut(), mock_env(), body.clone()));
    #[allow(deprecated)]
    let reply_msg = Reply {
        id: 1,
        payload: Binary::default(),
        gas_used: 0,
        result: SubMsgResult::Ok(SubMsgResponse { events: vec![], data: None, msg_responses: vec![] }),
    };
    let reply = data(Contract::reply(w, deps.as_mut(), mock_env(), reply_msg));
    let migrate = data(Contract::migrate(w, deps.as_mut(), mock_env(), body));
    format!("checksum={} execute={} instantiate={} query={} sudo={} reply={} migrate={}", checksum, execute, instantiate, query, sudo, reply, migrate)
}

// ------------------------------------------------------------------------------------------------
// executor

pub fn exec_route(lines: &[String]) -> Vec<String> {
    LOG.with(|l| l.borrow_mut().clear());
    WLOG.with(|w| w.borrow_mut().clear());
    INIT_COUNT.with(|c| c.set(0));
    let mut st: Option<Built> = None;
    let mut out = vec![];
    for line in lines {
        let t: Vec<&str> = line.split_whitespace().collect();
        if t.is_empty() {
            out.push("bad-op".into());
            continue;
        }
        out.push(guarded(|| run_op(&mut st, &t)).unwrap_or_else(|| "panic".into()));
    }
    out
}

// ------------------------------------------------------------------------------------------------
// generator

const SLOTS: [&str; 7] = ["bank", "custom", "staking", "distribution", "ibc", "gov", "stargate"];
const EXEC_KINDS: [&str; 9] = ["bank", "wasm", "custom", "staking", "distribution", "ibc", "gov", "stargate", "any"];
const QUERY_KINDS: [&str; 7] = ["bank", "wasm", "custom", "staking", "ibc", "stargate", "grpc"];
const SUDO_KINDS: [&str; 3] = ["bank", "staking", "wasm"];
const ENTRIES: [&str; 5] = ["instantiate", "execute", "migrate", "sudo", "reply"];
const PAYLOADS: [&str; 6] = ["-", "00", "01", "ff", "0102", "a0b1c2"];

fn module_step(rng: &mut Rng, slot: &str, rec_bias: bool) -> String {
    let mode = if rec_bias && rng.chance(3, 5) { "rec" } else { rng.pick(&["rec", "acc", "fail"]) };
    format!("{}:{}:{}", slot, mode, rng.range(1, 3))
}

fn other_step(rng: &mut Rng) -> String {
    match rng.below(4) {
        0 => format!("api:{}", rng.range(0, 2)),
        1 => format!("storage:{}", rng.range(1, 3)),
        2 => format!("block:{}", rng.range(1, 9)),
        _ => format!("{}:{}", if rng.chance(1, 2) { "wasmrec" } else { "wasm" }, rng.range(1, 3)),
    }
}

fn shuffle<T>(rng: &mut Rng, v: &mut Vec<T>) {
    for i in (1..v.len()).rev() {
        let j = rng.below(i as u64 + 1) as usize;
        v.swap(i, j);
    }
}

fn items(rng: &mut Rng, n: u64, lifted: bool) -> String {
    let mut s = vec![];
    for _ in 0..n {
        let mut k = rng.pick(&EXEC_KINDS);
        if lifted && k == "custom" && !rng.chance(1, 8) {
            k = "gov";
        }
        s.push(format!("{} {}", k, rng.pick(&PAYLOADS)));
    }
    s.join(" ")
}

fn send_op(rng: &mut Rng) -> String {
    let n = if rng.chance(1, 4) { rng.range(2, 3) } else { 1 };
    match rng.below(8) {
        0 | 1 => format!("send-top {}", items(rng, n, false)),
        2 => format!("send-sub native {}", items(rng, n, false)),
        3 => format!("send-sub lifted {}", items(rng, n, true)),
        _ => {
            // a sub-message from any of the five entry points, from either flavour of contract
            let entry = rng.pick(&ENTRIES);
            if rng.chance(1, 2) {
                format!("send-sub-from {} native {}", entry, items(rng, n, false))
            } else {
                format!("send-sub-from {} lifted {}", entry, items(rng, n, true))
            }
        }
    }
}

fn observe_all(out: &mut Vec<String>) {
    for o in ["block", "storage-dump", "init-count", "api-prefix", "wasm-gen"] {
        out.push(o.into());
    }
}

fn probe_all(rng: &mut Rng, out: &mut Vec<String>) {
    let p = rng.pick(&PAYLOADS);
    for k in EXEC_KINDS {
        out.push(format!("send-top {} {}", k, p));
        out.push("records".into());
    }
    for k in QUERY_KINDS {
        out.push(format!("query {} {}", k, p));
        out.push("records".into());
    }
    for k in SUDO_KINDS {
        out.push(format!("sudo {} {}", k, p));
        out.push("records".into());
    }
    out.push("storage-dump".into());
}

fn wstep(rng: &mut Rng) -> String {
    match rng.below(7) {
        0 => format!("checksum:{}", rng.range(0, 9)),
        1 => format!("sudo:{}", rng.range(1, 3)),
        2 => format!("sudo-empty:{}", rng.range(1, 3)),
        3 => format!("reply:{}", rng.range(1, 3)),
        4 => format!("reply-empty:{}", rng.range(1, 3)),
        5 => format!("migrate:{}", rng.range(1, 3)),
        _ => format!("migrate-empty:{}", rng.range(1, 3)),
    }
}

/// keeps the relative order of steps that are for the same component, shuffles the rest
fn order_preserving_shuffle(rng: &mut Rng, steps: &[String]) -> Vec<String> {
    let target = |s: &String| s.split(':').next().unwrap().trim_end_matches("-empty").to_string();
    let mut order: Vec<String> = steps.iter().map(target).collect();
    shuffle(rng, &mut order);
    let mut out = vec![];
    let mut used = vec![false; steps.len()];
    for t in order {
        for (i, s) in steps.iter().enumerate() {
            if !used[i] && target(s) == t {
                used[i] = true;
                out.push(s.clone());
                break;
            }
        }
    }
    out
}

pub fn gen_route(rng: &mut Rng, thorough: bool) -> Vec<String> {
    // after every `records`: what the configured wasm module was handed meanwhile (implementation-only line)
    let mut out = vec![];
    for l in gen_route0(rng, thorough) {
        let is_records = l == "records";
        out.push(l);
        if is_records {
            out.push("wasm-calls".into());
        }
    }
    out
}

fn gen_route0(rng: &mut Rng, thorough: bool) -> Vec<String> {
    let mut out = vec![];
    let family = rng.below(20);
    if family < 9 {
        // C17: a configuration of modules, then messages / queries / sudo from every origin
        let mut steps = vec![];
        for s in SLOTS {
            if rng.chance(4, 5) {
                steps.push(module_step(rng, s, true));
            }
        }
        for _ in 0..rng.below(3) {
            steps.push(other_step(rng));
        }
        shuffle(rng, &mut steps);
        if rng.chance(1, 5) {
            steps.push("crate-acc".into());
        }
        out.push(format!("build {}", steps.join(" ")));
        let n = rng.range(6, if thorough { 24 } else { 14 });
        for _ in 0..n {
            match rng.below(10) {
                0..=5 => out.push(send_op(rng)),
                6 => {
                    if rng.chance(1, 2) {
                        out.push(format!("query {} {}", rng.pick(&QUERY_KINDS), rng.pick(&PAYLOADS)));
                    } else {
                        // what a reply is told about a sub-message handled by a (possibly user-supplied) module
                        let native = rng.chance(1, 2);
                        let k = loop {
                            let k = rng.pick(&EXEC_KINDS);
                            if k != "wasm" && (native || k != "custom") {
                                break k;
                            }
                        };
                        let h = if k == "gov" { rng.pick(&["01", "0203", "-"]) } else { rng.pick(&PAYLOADS) };
                        out.push(format!("send-sub-reply {} {} {}", if native { "native" } else { "lifted" }, k, h));
                    }
                }
                7 => {
                    // queries issued by a contract inside one call, with repeats of the very same request
                    let native = rng.chance(1, 2);
                    let mut items: Vec<String> = vec![];
                    for _ in 0..rng.range(1, 4) {
                        let k = loop {
                            let k = rng.pick(&QUERY_KINDS);
                            if native || k != "custom" {
                                break k;
                            }
                        };
                        let it = format!("{} {}", k, rng.pick(&PAYLOADS));
                        items.push(it.clone());
                        if rng.chance(1, 2) {
                            items.push(it);
                        }
                    }
                    out.push(format!("query-sub {} {}", if native { "native" } else { "lifted" }, items.join(" ")));
                }
                8 => out.push(format!("sudo {} {}", rng.pick(&SUDO_KINDS), rng.pick(&PAYLOADS))),
                _ => out.push("storage-dump".into()),
            }
            out.push("records".into());
            if rng.chance(1, 3) {
                out.push("storage-dump".into());
            }
        }
        out.push("storage-dump".into());
    } else if family < 15 {
        // C20 (AppBuilder): a list of steps (subset, repetitions), observed; then an order-preserving
        // permutation of it, observed again
        let mut steps = vec![];
        let n = rng.range(0, if thorough { 11 } else { 6 });
        for _ in 0..n {
            if rng.chance(3, 5) {
                let s = rng.pick(&SLOTS);
                steps.push(module_step(rng, s, true));
            } else {
                steps.push(other_step(rng));
            }
        }
        let rounds = if rng.chance(1, 2) { 2 } else { 3 };
        for r in 0..rounds {
            let s = if r == 0 { steps.clone() } else { order_preserving_shuffle(rng, &steps) };
            out.push(format!("build {}", s.join(" ")));
            observe_all(&mut out);
            let mut prng = Rng::new(steps.len() as u64 + 17);
            probe_all(&mut prng, &mut out);
            out.push("send-sub native gov 01 bank 02".into());
            out.push("records".into());
            out.push("send-sub lifted ibc 03 any 04".into());
            out.push("records".into());
            for (i, e) in ENTRIES.iter().enumerate() {
                out.push(format!("send-sub-from {} {} {} 05 stargate 06", e, if (i + steps.len()) % 2 == 0 { "native" } else { "lifted" }, EXEC_KINDS[(i + steps.len()) % 9].replace("custom", "gov")));
                out.push("records".into());
            }
            observe_all(&mut out);
        }
    } else if family < 19 {
        // C20 (ContractWrapper): lists of steps and permutations of them
        for _ in 0..rng.range(1, 3) {
            let ctor = format!("{}:{}", rng.pick(&["new", "new-empty"]), rng.range(1, 3));
            let mut steps = vec![];
            for _ in 0..rng.range(0, if thorough { 7 } else { 5 }) {
                steps.push(wstep(rng));
            }
            out.push(format!("wrapper {} {}", ctor, steps.join(" ")).trim_end().to_string());
            for _ in 0..rng.range(1, 3) {
                let s = if rng.chance(2, 3) { order_preserving_shuffle(rng, &steps) } else {
                    let mut s = steps.clone();
                    shuffle(rng, &mut s);
                    s
                };
                out.push(format!("wrapper {} {}", ctor, s.join(" ")).trim_end().to_string());
            }
        }
    } else {
        // malformed share
        let bad = ["send-top gov 01", "records", "block", "build bank:weird", "build foo:rec:1", "wrapper", "wrapper old", "wrapper new sudo:9",
                   "wrapper new checksum", "frobnicate", "build api:7", "storage-dump"];
        out.push(rng.pick(&bad).to_string());
        out.push(format!("build {}", module_step(rng, "gov", false)));
        let more = ["send-top foo 01", "send-top gov", "send-top gov zz", "send-top gov 01020304050607", "send-sub sideways gov 01",
                    "send-sub lifted custom 01", "send-sub native custom 01 foo 02", "query distribution 01", "query gov 01", "sudo custom -",
                    "sudo gov 01", "query bank", "send-top grpc 01", "send-sub lifted custom -", "send-top custom 01 custom 02",
                    "send-sub-from", "send-sub-from migrate", "send-sub-from nowhere native gov 01", "send-sub-from migrate sideways gov 01",
                    "send-sub-from reply lifted custom 01", "send-sub-from sudo lifted gov 01 custom 02", "send-sub-from instantiate native gov zz",
                    "send-sub-from migrate native gov 01 ibc"];
        for _ in 0..rng.range(3, 7) {
            out.push(rng.pick(&more).to_string());
            out.push("records".into());
        }
        out.push("storage-dump".into());
    }
    out
}
