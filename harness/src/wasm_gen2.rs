//! Focused generators of the wasm family: admin (C12), code registry / addresses (C11), response
//! validation (C13), storage isolation (C08), determinism / instances (C19).
use crate::util::*;
use crate::wasm::{classic_addr, default_checksum, salted_addr};
use crate::wasm_gen::*;
use cw_multi_test::App;

fn new_ctx(rng: &mut Rng) -> Ctx {
    Ctx { marker: 0, sub_id: 0, contracts: vec![], codes: 2, malformed: rng.chance(1, 4), attr_heavy: false, salts: false, insts: 0, staking: false }
}

// ------------------------------------------------------------------------------------------------
// C12: admin histories

pub fn gen_admin(rng: &mut Rng, thorough: bool) -> Vec<String> {
    let mut ops = vec![];
    let mut ctx = new_ctx(rng);
    setup(rng, &mut ops, &mut ctx, false);
    // further codes that SHARE a checksum: a duplicate of code 1, and two different codes carrying the same own checksum
    ops.push("dup 1".into());
    ops.push("store-c D 11*32".into());
    ops.push("store-c E 11*32".into());
    let ncodes = ctx.codes + 3;
    // c1_0 admin u1, c2_1 no admin, c1_2 admin u2; make one contract admin of another sometimes
    if rng.chance(1, 2) {
        ops.push("exec u1 (upd c1_0 c2_1)".into()); // contract c2_1 becomes admin of c1_0
        observe(&mut ops);
    }
    let actors = ["u1", "u2", "u3", "n1"];
    if rng.chance(1, 3) {
        // a contract that is migrated WHILE one of its own sub-messages is in flight: the reply for that sub-message
        // (and everything after it) is served by the new code — visible in the trace's code tag.
        // c1_2 (admin u2) becomes its own admin and migrates itself from inside the sub-message, or its callee does
        // so on its behalf after being made admin.
        let code = rng.range(1, ncodes);
        let mode = rng.pick(&["always", "success", "always", "error"]);
        ctx.sub_id += 1;
        if rng.chance(1, 2) {
            ops.push("exec u2 (upd c1_2 c1_2)".into());
            ops.push(format!("exec u3 (exec c1_2 ((w 6e09 01) (sub {} {} ((attr r 1) (rd 6e09)) (mig c1_2 {} ((attr m 1)))) (rd 6b)) -)", ctx.sub_id, mode, code));
        } else {
            ops.push("exec u2 (upd c1_2 c2_1)".into());
            ops.push(format!(
                "exec u3 (exec c1_2 ((sub {} {} ((attr r 1) (rd 6b)) (exec c2_1 ((msg (mig c1_2 {} ((attr m 2))))) -))) -)",
                ctx.sub_id, mode, code
            ));
        }
        observe(&mut ops);
        ops.push("q-info c1_2".into());
    }
    let n = if thorough { rng.range(6, 16) } else { rng.range(4, 10) };
    for _ in 0..n {
        let c = rng.pick(&["c1_0", "c2_1", "c1_2", "c1_2", "c1_0", "n1"]).to_string();
        // now and then the sender is the account with the EMPTY address: it is nobody's admin, in particular not the
        // admin of a contract that has none
        let empty_sender = rng.chance(1, 10);
        let who = if empty_sender { "%empty".to_string() } else { rng.pick(&actors).to_string() };
        let c = if empty_sender && rng.chance(2, 3) { "c2_1".to_string() } else { c };
        let r = if empty_sender { rng.below(68) } else { rng.below(100) };
        ops.push("rawhash".into());
        let msg = if r < 30 {
            let code = if rng.chance(1, 8) { 9 } else { rng.range(1, ncodes) };
            let script = match rng.below(5) {
                // a zero-length migrate message: the migration fails (nothing to deserialise), code id and storage stay
                4 => "~".to_string(),
                0 => "((w 6d6967 01) (attr migrated yes))".to_string(),
                1 => "((rd 6b) (rng ~ ~ asc))".to_string(),
                2 => "((fail))".to_string(),
                _ => gen_script(rng, &mut ctx, 1, false),
            };
            format!("(mig {} {} {})", c, code, script)
        } else if r < 55 {
            format!("(upd {} {})", c, rng.pick(&["u1", "u2", "u3", "c2_1", "c1_0", "bad", "n1"]))
        } else if r < 68 {
            format!("(clr {})", c)
        } else if r < 85 {
            // a contract acting (possibly as admin) through a sub-message
            // (half of the time aimed at the pair that works when c2_1 was made admin of c1_0)
            let aimed = rng.chance(1, 2);
            let c = if aimed { "c1_0".to_string() } else { c.clone() };
            let inner = match rng.below(7) {
                // a migration sent as a sub-message whose migrate entry point itself dispatches a sub-message with a reply that
                // sets data: the data handed to the OUTER reply is the execute-response encoding of the inner reply's data
                5 | 6 => {
                    ctx.sub_id += 1;
                    format!(
                        "(mig {} {} ((data 07) (sub {} always ((data {})) (send u2 1:d1))))",
                        c,
                        rng.range(1, ncodes),
                        ctx.sub_id,
                        rng.pick(&["0a0b", "-", "61*128"])
                    )
                }
                0 => format!("(upd {} {})", c, rng.pick(&["u1", "u2", "c2_1"])),
                1 => format!("(mig {} {} ((attr m 1)))", c, rng.range(1, ncodes)),
                // a migration that fails after the new code id was recorded: in `migrate` itself, or in a message it sends
                2 => format!("(mig {} {} ((w 6e08 01) (fail)))", c, rng.range(1, ncodes)),
                3 => format!("(mig {} {} ((w 6e08 02) (msg (exec {} ((fail)) -))))", c, rng.range(1, ncodes), rng.pick(&["c1_2", "c1_0"])),
                _ => format!("(clr {})", c),
            };
            let mode = rng.pick(&["always", "error", "success", "never"]);
            ctx.sub_id += 1;
            let actor = if aimed { "c2_1" } else { rng.pick(&["c2_1", "c1_0", "c1_2"]) };
            format!("(exec {} ((sub {} {} ((attr r 1)) {})) -)", actor, ctx.sub_id, mode, inner)
        } else {
            // ordinary call: which code serves it is visible in the trace tag
            format!("(exec {} ((rd 6b) (rd 6d6967) (attr call 1)) -)", c)
        };
        if rng.chance(1, 6) {
            // contract metadata written, LOOKED AT by a contract while the write is pending, then rolled back:
            // a later query / call must not see any of it
            let change = match rng.below(4) {
                0 => format!("(upd {} {})", c, rng.pick(&["u2", "u3", "c1_2"])),
                1 => format!("(mig {} {} ((w 6e07 07)))", c, rng.range(1, ncodes)),
                2 => format!("(clr {})", c),
                _ => "(inst 1 ((w 6b 05)) - fresh u3 ~)".to_string(),
            };
            let seen = if change.starts_with("(inst") { "c1_3".to_string() } else { c.clone() };
            let looker = rng.pick(&["c2_1", "c1_2"]);
            let look = format!("(exec {} ((qinfo {}) (qsmart {} ((rd 6b) (rd 6e07))) (qraw {} 6e07)) -)", looker, seen, seen, seen);
            if rng.chance(1, 2) {
                // the whole transaction fails
                ops.push(format!("multi {} ({} {} (exec {} ((fail)) -))", who, change, look, looker));
            } else {
                // a contract (possibly the admin) makes the change through plain messages inside a sub-message that
                // fails afterwards and is caught: the transaction succeeds
                ctx.sub_id += 1;
                ops.push(format!(
                    "exec {} (exec c1_2 ((sub {} error ((attr caught 1)) (exec c2_1 ((msg {}) (msg {}) (msg (exec {} ((fail)) -))) -))) -)",
                    who, ctx.sub_id, change, look, looker
                ));
            }
            observe(&mut ops);
            for k in ["c1_0", "c2_1", "c1_2", "c1_3"] {
                ops.push(format!("q-info {}", k));
            }
            ops.push(format!("q-smart {} ((rd 6b) (rd 6e07))", seen));
            ops.push(format!("exec u3 (exec {} ((rd 6b) (rd 6e07) (attr call 2)) -)", seen));
            observe(&mut ops);
        }
        ops.push(format!("exec {} {}", who, msg));
        observe(&mut ops);
        for k in ["c1_0", "c2_1", "c1_2"] {
            ops.push(format!("q-info {}", k));
        }
    }
    // who serves now?
    for k in ["c1_0", "c2_1", "c1_2"] {
        ops.push(format!("exec u3 (exec {} ((rd 6b) (rd 6d6967)) -)", k));
        ops.push("trace".into());
        ops.push(format!("wdump {}", k));
    }
    ops
}

// ------------------------------------------------------------------------------------------------
// C11: code registry and addresses

const OWN_CHKS: [&str; 2] = [
    "11*32",
    "0102030405060708090a0b0c0d0e0f101112131415161718191a1b1c1d1e1f20",
];

pub fn gen_codes(rng: &mut Rng, thorough: bool) -> Vec<String> {
    let app = App::default();
    let mut ops: Vec<String> = vec![];
    let mut body: Vec<String> = vec![];
    let mut ids: Vec<u64> = vec![]; // ids the model/impl will hold (tracked by the generator to bind addresses)
    let mut own_chk: Vec<(u64, String)> = vec![]; // ids stored with their own checksum
    let tags = ["A", "B", "C", "D"];
    let big = u64::MAX;
    let nstore = rng.range(2, if thorough { 7 } else { 5 });
    let next = |ids: &Vec<u64>| ids.iter().max().map(|m| m.checked_add(1)).unwrap_or(Some(1));
    for _ in 0..nstore {
        let r = rng.below(100);
        let tag = rng.pick(&tags);
        if r < 8 {
            // a code that carries its own checksum (Contract::checksum)
            if let Some(n) = next(&ids) {
                ids.push(n);
                own_chk.push((n, rng.pick(&OWN_CHKS).to_string()));
            }
            body.push(format!("store-c {} {}", tag, own_chk.last().map(|x| x.1.clone()).unwrap_or_else(|| OWN_CHKS[0].to_string())));
        } else if r < 35 {
            if let Some(n) = next(&ids) {
                ids.push(n);
            }
            body.push(format!("store {}", tag));
        } else if r < 45 {
            if let Some(n) = next(&ids) {
                ids.push(n);
            }
            body.push(format!("store-as u2 {}", tag));
        } else if r < 80 {
            let id = rng.pick(&[0u64, 1, 2, 3, 5, 10, 11, 40, big]);
            if id != 0 && !ids.contains(&id) {
                ids.push(id);
            }
            body.push(format!("store-id u1 {} {}", id, tag));
        } else {
            let src = if ids.is_empty() || rng.chance(1, 5) { rng.pick(&[0u64, 7, 99]) } else { rng.pick(&ids) };
            if ids.contains(&src) && src != 0 {
                if let Some(n) = next(&ids) {
                    ids.push(n);
                }
            }
            body.push(format!("dup {}", src));
        }
    }
    body.push("init-bal u1 30:d1".into());
    body.push("init-bal u2 5:d1".into());
    let salts = ["aa", "bb", "-", "cc*65"];
    // instantiate every stored id (and a few that are not stored)
    let mut targets: Vec<u64> = ids.clone();
    targets.push(0);
    targets.push(4);
    targets.push(77);
    let ninst = rng.range(3, if thorough { 10 } else { 6 });
    let mut used_salts: Vec<(u64, String, String)> = vec![];
    for k in 0..ninst {
        let code = rng.pick(&targets);
        let who = rng.pick(&["u1", "u2"]).to_string();
        let salted = rng.chance(2, 5);
        let salt = if salted {
            if !used_salts.is_empty() && rng.chance(1, 3) {
                let (c, w, s) = rng.pick(&used_salts);
                body.push("rawhash".into());
                body.push(format!("exec {} (inst {} ((w 6b 01)) - l{} ~ {})", w, c, k, s));
                body.push("rawhash".into());
                body.push("trace".into());
                body.push("dump".into());
                continue;
            }
            rng.pick(&salts).to_string()
        } else {
            "~".to_string()
        };
        let script = match rng.below(5) {
            0 => "((fail))".to_string(),
            1 => "((w 6b 02) (attr _bad x))".to_string(),
            2 => format!("((w 6b 03) (sub 1 never () (inst {} ((w 6b 04)) - sub{} ~ ~)))", rng.pick(&targets), k),
            _ => "((w 6b 01) (attr i 1))".to_string(),
        };
        let funds = if rng.chance(1, 4) { "100:d1" } else if rng.chance(1, 3) { "1:d1" } else { "-" };
        let label = if rng.chance(1, 10) { "%".to_string() } else { format!("l{}", k) };
        let admin = rng.pick(&["~", "u1", "u2"]);
        if salted {
            used_salts.push((code, who.clone(), salt.clone()));
        }
        body.push("rawhash".into());
        if rng.chance(1, 4) {
            body.push(format!("h-inst {} {} {} {} {} {} {}", code, who, script, funds, label, admin, salt));
        } else {
            body.push(format!("exec {} (inst {} {} {} {} {} {})", who, code, script, funds, label, admin, salt));
        }
        body.push("rawhash".into());
        body.push("trace".into());
        body.push("dump".into());
    }
    for id in targets.iter() {
        body.push(format!("q-code {}", id));
    }
    // migrate to non-contiguous ids as well
    if !ids.is_empty() {
        for _ in 0..2 {
            let code = rng.pick(&targets);
            let first = ids[0];
            body.push(format!("exec u1 (mig c{}_0 {} ((attr m 1)))", first, code));
            body.push("trace".into());
        }
    }
    body.push("dump".into());
    // binds: users, checksums and classic addresses for every id in play, salted for users
    for u in ["u1", "u2", "u3", "n1", "creator"] {
        ops.push(format!("bind {} {}", u, app.api().addr_make(u)));
    }
    let mut all_ids = ids.clone();
    for t in [1u64, 2, 3, 4, 5, 10, 11, 12, 40, 41, 77] {
        if !all_ids.contains(&t) {
            all_ids.push(t);
        }
    }
    for id in &all_ids {
        ops.push(format!("bindc {} {}", id, hex(&default_checksum(*id))));
    }
    for id in &all_ids {
        for i in 0..14 {
            ops.push(format!("bind c{}_{} {}", id, i, classic_addr(&app, *id, i)));
        }
    }
    for id in &ids {
        for who in ["u1", "u2"] {
            for s in ["aa", "bb"] {
                // the checksum of a duplicated code is its source's: bind under every id whose default checksum may be shared
                for chk_id in &all_ids {
                    let _ = chk_id;
                }
                ops.push(format!(
                    "bind2 {} {} {} {}",
                    id,
                    who,
                    s,
                    salted_addr(&app, &default_checksum(*id), &app.api().addr_make(who).to_string(), &unhex(s))
                ));
            }
        }
    }
    for chk in OWN_CHKS.iter() {
        let chk_hex = hex(&unhex(chk));
        for who in ["u1", "u2"] {
            for s in ["aa", "bb"] {
                ops.push(format!(
                    "bind2x {} {} {} {}",
                    chk_hex,
                    who,
                    s,
                    salted_addr(&app, &unhex(chk), &app.api().addr_make(who).to_string(), &unhex(s))
                ));
            }
        }
    }
    let _ = &own_chk;
    ops.extend(body);
    ops
}

// ------------------------------------------------------------------------------------------------
// C13: response validation at every entry point and depth

pub fn gen_resp(rng: &mut Rng, thorough: bool) -> Vec<String> {
    let mut ops = vec![];
    let mut ctx = new_ctx(rng);
    ctx.attr_heavy = true;
    ctx.malformed = false;
    setup(rng, &mut ops, &mut ctx, false);
    let n = if thorough { rng.range(5, 12) } else { rng.range(3, 8) };
    for _ in 0..n {
        ops.push("rawhash".into());
        let c = rng.pick(&ctx.contracts.clone());
        let depth = rng.range(0, 2) as u32;
        let script = gen_script(rng, &mut ctx, depth, false);
        let op = match rng.below(8) {
            0 | 1 | 2 => format!("exec u1 (exec {} {} -)", c, script),
            3 => format!("exec u1 (inst 1 {} - lab u1 ~)", script),
            4 => format!("sudo-wasm {} {}", c, script),
            5 => format!("wasm-sudo {} {}", c, script),
            6 => format!("exec u1 (mig c1_0 {} {})", rng.range(1, ctx.codes), script),
            _ => {
                // the interesting response is produced by a reply handler
                ctx.sub_id += 1;
                let id = ctx.sub_id;
                let rs = gen_script(rng, &mut ctx, 0, true);
                format!("exec u1 (exec {} ((w 6b 09) (sub {} always {} (send u2 1:d1))) -)", c, id, rs)
            }
        };
        ops.push(op);
        observe(&mut ops);
    }
    ops
}

// ------------------------------------------------------------------------------------------------
// C08: isolation — adversarial keys, contracts from the same code, all views compared

const ADV_KEYS: &[&str] = &[
    "-",
    "00",
    "ff",
    "0004626e6b",
    "000462616e6b000862616c616e636573",
    "00047761736d0009636f6e747261637473",
    "00047761736d",
    "636f6e74726163745f646174612f",
    "0007",
    "6b",
];

/// hex of the raw root-storage prefix of the contract behind symbol `c<code>_<instance>` (default App, classic address)
fn raw_prefix_hex(sym: &str) -> Option<String> {
    let (cc, ii) = sym.strip_prefix('c')?.split_once('_')?;
    let addr = crate::wasm::classic_addr(&cw_multi_test::App::default(), cc.parse().ok()?, ii.parse().ok()?);
    let ns = format!("contract_data/{}", addr);
    let mut p = vec![0u8, 4];
    p.extend_from_slice(b"wasm");
    p.push((ns.len() >> 8) as u8);
    p.push((ns.len() & 0xff) as u8);
    p.extend_from_slice(ns.as_bytes());
    Some(crate::util::hex(&p))
}

pub fn gen_iso(rng: &mut Rng, thorough: bool) -> Vec<String> {
    let mut ops = vec![];
    let mut ctx = new_ctx(rng);
    ctx.malformed = false;
    setup(rng, &mut ops, &mut ctx, false);
    let contracts = ctx.contracts.clone();
    let n = if thorough { rng.range(5, 12) } else { rng.range(3, 7) };
    for _ in 0..n {
        let c = rng.pick(&contracts);
        let k = rng.range(1, 4);
        let mut acts = vec![];
        for _ in 0..k {
            let key = if rng.chance(1, 6) {
                // a key that starts with the full raw prefix of the writing contract itself or of another contract
                // (addresses are deterministic, so the prefix can be spelled): it is an ordinary key
                let target = if rng.chance(2, 3) { c.clone() } else { rng.pick(&contracts) };
                match raw_prefix_hex(&target) {
                    Some(p) => if rng.chance(1, 4) { p } else { format!("{}+{}", p, rng.pick(&["6b", "00", "ff", "6b01"])) },
                    None => rng.pick(ADV_KEYS).to_string(),
                }
            } else if rng.chance(1, 5) {
                format!("{}+{}", rng.pick(ADV_KEYS), rng.pick(ADV_KEYS))
            } else {
                rng.pick(ADV_KEYS).to_string()
            };
            let key = if key.starts_with("-+") { key[2..].to_string() } else { key };
            match rng.below(5) {
                0 => acts.push(format!("(rm {})", key)),
                1 => acts.push(format!(
                    "({} {} ~ {})",
                    rng.pick(&["rngk", "rng", "rng", "rngv"]),
                    if rng.chance(1, 2) { "~".to_string() } else { key },
                    if rng.chance(1, 2) { "asc" } else { "desc" }
                )),
                _ => acts.push(format!("(w {} {:02x})", key, rng.range(1, 200))),
            }
        }
        if rng.chance(1, 6) {
            acts.push("(fail)".into());
        }
        ops.push("rawhash".into());
        ops.push(format!("exec u1 (exec {} ({}) -)", c, acts.join(" ")));
        observe(&mut ops);
        // the test author's own accessor (App::contract_storage_mut / contract_storage): writes land in exactly
        // that contract's window and the contract reads them back
        if rng.chance(1, 3) {
            let c3 = rng.pick(&contracts);
            let key = rng.pick(ADV_KEYS).to_string();
            if rng.chance(1, 3) {
                ops.push(format!("cs-rm {} {}", c3, key));
            } else {
                ops.push(format!("cs-set {} {} {:02x}", c3, key, rng.range(1, 200)));
            }
            ops.push(format!("cs-get {} {}", c3, key));
            ops.push(format!("cs-get {} {}", rng.pick(&contracts), key));
            ops.push(format!("exec u1 (exec {} ((rd {}) (rng ~ ~ asc)) -)", c3, key));
            observe(&mut ops);
        }
        for c2 in &contracts {
            ops.push(format!("wdump {}", c2));
            ops.push(format!("cstore {} ~ ~ asc", c2));
            ops.push(format!("q-raw {} {}", c2, rng.pick(ADV_KEYS)));
            ops.push(format!("q-smart {} ((rng ~ ~ asc))", c2));
            ops.push(format!("cdata {}", c2));
        }
        ops.push("q-all u1".into());
        ops.push(format!("q-all {}", rng.pick(&contracts)));
    }
    ops
}

// ------------------------------------------------------------------------------------------------
// C19: the same history on a fresh second instance, and interleaved with a different history on a third

pub fn gen_det(rng: &mut Rng, thorough: bool) -> Vec<String> {
    // history 1 and history 2 are ordinary wasm cases (they start with the same bind preamble)
    let mut r1 = rng.fork();
    let mut r2 = rng.fork();
    let h1 = gen_wasm(&mut r1, thorough);
    let h2 = gen_wasm(&mut r2, thorough);
    let is_bind = |l: &String| l.starts_with("bind");
    let mut ops: Vec<String> = vec![];
    // binds of both histories (duplicates are harmless)
    ops.extend(h1.iter().filter(|l| is_bind(l)).cloned());
    ops.extend(h2.iter().filter(|l| is_bind(l)).cloned());
    let b1: Vec<String> = h1.iter().filter(|l| !is_bind(l)).cloned().collect();
    let b2: Vec<String> = h2.iter().filter(|l| !is_bind(l)).cloned().collect();
    ops.push("app 1".into());
    ops.extend(b1.iter().cloned());
    ops.push("section".into());
    // interleave b1 on app 2 with b2 on app 3, switching at random points
    let (mut i, mut j) = (0usize, 0usize);
    let mut cur = 0;
    while i < b1.len() || j < b2.len() {
        let take1 = if i >= b1.len() { false } else if j >= b2.len() { true } else { rng.chance(1, 2) };
        if take1 {
            if cur != 2 {
                ops.push("app 2".into());
                cur = 2;
            }
            // keep a transaction and its `trace` together: the out-of-band trace is process wide
            ops.push(b1[i].clone());
            i += 1;
            while i < b1.len() && (b1[i] == "trace") {
                ops.push(b1[i].clone());
                i += 1;
            }
        } else {
            if cur != 3 {
                ops.push("app 3".into());
                cur = 3;
            }
            ops.push(b2[j].clone());
            j += 1;
            while j < b2.len() && (b2[j] == "trace") {
                ops.push(b2[j].clone());
                j += 1;
            }
        }
    }
    ops
}

// ------------------------------------------------------------------------------------------------
// C08 with legacy (variable-length, prefix-related) contract addresses: contract1 / contract10 / contract11 …

pub fn gen_legacy(rng: &mut Rng, thorough: bool) -> Vec<String> {
    let mut ops: Vec<String> = vec![];
    for u in ["u1", "u2", "u3", "n1"] {
        ops.push(format!("bind {} {}", u, u));
    }
    ops.push(format!("bind creator {}", cosmwasm_std::testing::MockApi::default().addr_make("creator")));
    for c in 1..=2u64 {
        ops.push(format!("bindc {} {}", c, hex(&default_checksum(c))));
    }
    let n_contracts = 13u64;
    let sym = |i: u64| format!("c{}_{}", (i % 2) + 1, i);
    for c in 1..=2u64 {
        for i in 0..20u64 {
            ops.push(format!("bind c{}_{} {}", c, i, crate::wasm::legacy_name(i)));
        }
    }
    ops.push("store A".into());
    ops.push("store B".into());
    ops.push("init-bal u1 50:d1".into());
    for i in 0..n_contracts {
        ops.push(format!("exec u1 (inst {} ((w 6b {:02x})) - l{} u1 ~)", (i % 2) + 1, i + 1, i));
    }
    ops.push("trace".into());
    ops.push("dump".into());
    // keys whose first bytes spell the tail of a longer sibling address ("0", "1", "2", "0k" …)
    let keys = ["30", "31", "32", "306b", "316b", "30+6b", "-", "6b", "3030", "ff"];
    // contract1 / contract10 / contract11 / contract12 (prefixes), contract3 / CONTRACT3 and contract8 / CONTRACT8 (case)
    let focus: Vec<String> = [1u64, 10, 11, 12, 3, 4, 8, 9, 0, 6, 5, 2].iter().map(|i| sym(*i)).collect();
    if rng.chance(1, 3) {
        // adjacent addresses inside ONE transaction: contract1 (c2_1) writes its EMPTY key — the raw key is exactly the upper
        // bound of contract0's namespace — and, while that write is still pending in the cache, calls contract0 (c1_0),
        // which iterates its own storage with an open end
        let o = if rng.chance(1, 2) { "asc" } else { "desc" };
        ops.push("rawhash".into());
        ops.push(format!(
            "exec u1 (exec c2_1 ((w - {:02x}) (msg (exec c1_0 (({} ~ ~ {}) (rd -)) -))) -)",
            rng.range(1, 200),
            rng.pick(&["rng", "rngk", "rngv"]),
            o
        ));
        ops.push("trace".into());
        ops.push("dump".into());
    }
    let n = if thorough { rng.range(5, 12) } else { rng.range(3, 7) };
    for _ in 0..n {
        let c = rng.pick(&focus);
        let k = rng.range(1, 3);
        let mut acts = vec![];
        for _ in 0..k {
            let key = rng.pick(&keys);
            match rng.below(6) {
                0 => acts.push(format!("(rm {})", key)),
                1 => acts.push(format!("({} ~ ~ {})", rng.pick(&["rngk", "rng", "rngv"]), if rng.chance(1, 2) { "asc" } else { "desc" })),
                2 => acts.push(format!("(rd {})", key)),
                _ => acts.push(format!("(w {} {:02x})", key, rng.range(1, 200))),
            }
        }
        if rng.chance(1, 8) {
            acts.push("(fail)".into());
        }
        ops.push("rawhash".into());
        ops.push(format!("exec u1 (exec {} ({}) -)", c, acts.join(" ")));
        ops.push("trace".into());
        ops.push("dump".into());
        ops.push("rawhash".into());
        for c2 in &focus {
            ops.push(format!("wdump {}", c2));
            ops.push(format!("cstore {} ~ ~ asc", c2));
            ops.push(format!("q-raw {} {}", c2, rng.pick(&keys)));
        }
    }
    ops
}

// ------------------------------------------------------------------------------------------------
// message trees that also contain staking / distribution messages (users and contracts as delegators),
// slashes, block advances with whole-second, non-decreasing block times, staking queries from contracts

pub fn gen_stk(rng: &mut Rng, thorough: bool) -> Vec<String> {
    let mut ops: Vec<String> = vec![];
    let mut ctx = new_ctx(rng);
    ctx.malformed = rng.chance(1, 5);
    let mut now: u64 = 1_000 + rng.below(1000);
    let mut height: u64 = 10;
    // the block must be set before the common setup so that validators and contracts are created at whole seconds
    let mut pre: Vec<String> = vec![];
    setup(rng, &mut pre, &mut ctx, false);
    // move the bind lines first, then the block, then the rest of the setup (dropping a possible random `block` line)
    for l in pre.iter().filter(|l| l.starts_with("bind")) {
        ops.push(l.clone());
    }
    ops.push(format!("block {} {}", height, now * 1_000_000_000));
    let unb = rng.pick(&[10u64, 10, 60, 0]);
    let apr = rng.pick(&["100000000000000000", "1000000000000000000", "70000000000000000"]);
    ops.push(format!("stk-setup d1 {} {}", unb, apr));
    ops.push(format!("stk-val v1 {}", rng.pick(&["100000000000000000", "0", "333333333333333333"])));
    ops.push(format!("stk-val v2 {}", rng.pick(&["0", "30000000000000000", "1"])));
    if rng.chance(1, 6) {
        ops.push("stk-val v1 0".into()); // duplicate validator: rejected
    }
    for l in pre.iter().filter(|l| !l.starts_with("bind") && !l.starts_with("block ")) {
        ops.push(l.clone());
    }
    ctx.staking = true;
    // initial delegations by users and by contracts (contracts hold d1 from their instantiation funds)
    ops.push("exec u1 (deleg v1 5:d1)".into());
    ops.push("exec u2 (deleg v1 3:d1)".into());
    ops.push("exec u1 (exec c1_0 ((msg (deleg v1 3:d1))) -)".into());
    ops.push("trace".into());
    ops.push("exec u1 (exec c2_1 ((msg (deleg v2 2:d1)) (msg (deleg v1 1:d1))) -)".into());
    ops.push("trace".into());
    if rng.chance(2, 3) {
        now += rng.pick(&[31_536_000u64, 15_768_000, 63_072_000, 3_000_000]);
        height += 1;
        ops.push(format!("block {} {}", height, now * 1_000_000_000));
    }
    ops.push("dump".into());
    // (delegator, validator) pairs that hold a delegation with high probability
    let pairs: Vec<(&str, &str)> = vec![("u1", "v1"), ("u2", "v1"), ("c1_0", "v1"), ("c2_1", "v2"), ("c2_1", "v1")];
    let ntx = if thorough { rng.range(4, 11) } else { rng.range(3, 7) };
    for _ in 0..ntx {
        ops.push("rawhash".into());
        let r = rng.below(100);
        let depth = rng.range(0, 2) as u32;
        let sender = rng.pick(USERS).to_string();
        if r < 35 {
            // an operation on an existing delegation, by its owner (a user directly, a contract through a message)
            let (d, v) = rng.pick(&pairs);
            let amt = format!("{}:d1", rng.range(1, 3));
            let m = match rng.below(10) {
                0..=2 => format!("(undeleg {} {})", v, amt),
                3..=5 => format!("(withdraw {})", v),
                6 => format!("(redeleg {} {} {})", v, if v == "v1" { "v2" } else { "v1" }, amt),
                7 => format!("(deleg {} {})", v, amt),
                8 => format!("(setwd {})", rng.pick(&["u3", "u1", "c1_2", "bad"])),
                _ => format!("(undeleg {} 9:d1)", v),
            };
            if d.starts_with('u') {
                ops.push(format!("exec {} {}", d, m));
            } else {
                ctx.sub_id += 1;
                let mode = rng.pick(&["always", "error", "success", "never"]);
                ops.push(format!(
                    "exec u3 (exec {} ((qdeleg {} {}) (sub {} {} ((qdeleg {} {}) (qalldeleg {})) {}) (qbal {} d1)) -)",
                    d, d, v, ctx.sub_id, mode, d, v, d, m, d
                ));
            }
        } else if r < 42 {
            ops.push(format!("exec {} {}", sender, gen_stk_msg(rng, &ctx)));
        } else if r < 60 {
            let m = gen_msg(rng, &mut ctx, depth);
            ops.push(format!("exec {} {}", sender, m));
        } else if r < 68 {
            let k = rng.range(2, 3);
            let ms: Vec<String> = (0..k).map(|_| gen_msg(rng, &mut ctx, 1)).collect();
            ops.push(format!("multi {} ({})", sender, ms.join(" ")));
        } else if r < 76 {
            let p = rng.pick(&["0", "1", "100000000000000000", "333333333333333333", "500000000000000000", "1000000000000000000", "1500000000000000000"]);
            ops.push(format!("sudo-slash {} {}", rng.pick(&["v1", "v1", "v2", "v9"]), p));
        } else if r < 80 {
            let c = contract(rng, &ctx);
            ops.push(format!("sudo-wasm {} {}", c, gen_script(rng, &mut ctx, depth, false)));
        } else {
            // time moves forward only
            if rng.chance(1, 2) {
                ops.push("next-block".into());
                now += 5;
                height += 1;
            } else {
                let dt = rng.pick(&[0u64, 1, 4, 5, 9, 10, 11, 55, 60, 61, 86_400, 31_536_000, 15_768_000]);
                now += dt;
                height += rng.range(0, 3);
                ops.push(format!("block {} {}", height, now * 1_000_000_000));
            }
        }
        observe(&mut ops);
        if rng.chance(1, 2) {
            for u in ["u1", "u2"] {
                ops.push(format!("q-deleg {} v1", u));
            }
            ops.push(format!("q-deleg {} {}", rng.pick(&ctx.contracts), rng.pick(&["v1", "v2"])));
            ops.push(format!("q-alldeleg {}", rng.pick(&["u1", "u2", "c1_0", "bad"])));
            ops.push("rawhash".into());
        }
    }
    ops
}
