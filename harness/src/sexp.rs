//! S-expressions: atoms are whitespace/paren-free tokens; canonical printing with single spaces.
#[derive(Clone, Debug, PartialEq)]
pub enum Sx {
    A(String),
    L(Vec<Sx>),
}

impl Sx {
    pub fn atom(&self) -> &str {
        match self {
            Sx::A(s) => s,
            Sx::L(_) => "",
        }
    }
    pub fn list(&self) -> &[Sx] {
        match self {
            Sx::L(v) => v,
            Sx::A(_) => &[],
        }
    }
    pub fn print(&self) -> String {
        match self {
            Sx::A(s) => s.clone(),
            Sx::L(v) => format!("({})", v.iter().map(|x| x.print()).collect::<Vec<_>>().join(" ")),
        }
    }
}

/// parses all top-level items of `text`; None on unbalanced parentheses
pub fn parse(text: &str) -> Option<Vec<Sx>> {
    let mut stack: Vec<Vec<Sx>> = vec![vec![]];
    let mut cur = String::new();
    let flush = |cur: &mut String, stack: &mut Vec<Vec<Sx>>| {
        if !cur.is_empty() {
            stack.last_mut().unwrap().push(Sx::A(std::mem::take(cur)));
        }
    };
    for ch in text.chars() {
        match ch {
            '(' => {
                flush(&mut cur, &mut stack);
                stack.push(vec![]);
            }
            ')' => {
                flush(&mut cur, &mut stack);
                let done = stack.pop()?;
                stack.last_mut()?.push(Sx::L(done));
            }
            c if c == ' ' || c == '\t' || c == '\n' || c == '\r' => flush(&mut cur, &mut stack),
            c => cur.push(c),
        }
    }
    flush(&mut cur, &mut stack);
    if stack.len() != 1 {
        return None;
    }
    stack.pop()
}
