//! Engine `bank` (C09): the bank ledger of the REAL `App` (BankKeeper behind the router), driven through
//! `init_modules`/`sudo`/`execute`/`send_tokens` and observed through `App::wrap()` queries and the raw storage.
//!
//! Line protocol (one output line per op line):
//!   bind S ADDR          declare that symbol S (a1..a4) is `api.addr_make(S)` = ADDR      -> ok | mismatch | bad-op (S already bound)
//!   init A C             router.bank.init_balance(storage, A, C) via App::init_modules     -> ok | err
//!   mint A C             app.sudo(BankSudo::Mint { to_address: A, amount: C })             -> ok | err
//!   send A B C           app.execute(A, BankMsg::Send { to_address: B, amount: C })        -> ok | err
//!   sendt A B C          app.send_tokens(A, B, C)                                          -> ok | err
//!   burn A C             app.execute(A, BankMsg::Burn { amount: C })                       -> ok | err
//!   bal A D              app.wrap().query_balance(A, D)                                    -> <amount> | err
//!   all A                app.wrap().query_all_balances(A)                                  -> <coins> | err
//!   supply D             app.wrap().query_supply(D)                                        -> <amount> | err
//!   dump-bank            every stored balance decoded from the raw storage, in key order   -> A=<coins>;A=<coins>… | -
//!   snap D1 D2 …         all three query kinds for every bound symbol and listed denom + the dump, on one line:
//!                        bal=<n,n,n>/<n,n,n>/… all=<coins>|<coins>|… supply=<n,n,n> dump=<dump>
//! Address tokens A: a bound symbol, or `raw:<percent-encoded string>` (used verbatim, e.g. an invalid address).
//! Coins C: `-` (empty list) or `<amount><denom>,<amount><denom>,…` (denoms start with a letter).
//! Addresses are printed back as their symbol when bound, else as `raw:<percent-encoded>`.
use crate::util::*;
use cosmwasm_std::testing::MockApi;
use cosmwasm_std::{Addr, BankMsg, Coin, Order, Storage, Uint128};
use cw_multi_test::{App, BankSudo, Executor};

struct Ctx {
    app: App,
    syms: Vec<(String, String)>,
}

impl Ctx {
    fn resolve(&self, tok: &str) -> Option<String> {
        if let Some(r) = tok.strip_prefix("raw:") {
            pdec_opt(r)
        } else {
            self.syms.iter().find(|(s, _)| s == tok).map(|(_, a)| a.clone())
        }
    }
    fn show(&self, addr: &str) -> String {
        match self.syms.iter().find(|(_, a)| a == addr) {
            Some((s, _)) => s.clone(),
            None => format!("raw:{}", penc(addr)),
        }
    }
}

/// total percent-decoding (`util::pdec` panics on malformed input; a malformed token is a `bad-op`, not a
/// panic of the implementation)
fn pdec_opt(s: &str) -> Option<String> {
    if s == "%" {
        return Some(String::new());
    }
    let bs = s.as_bytes();
    let mut out = vec![];
    let mut i = 0;
    while i < bs.len() {
        if bs[i] == b'%' {
            let h = s.get(i + 1..i + 3)?;
            if !h.bytes().all(|b| b.is_ascii_hexdigit()) {
                return None;
            }
            out.push(u8::from_str_radix(h, 16).ok()?);
            i += 3;
        } else {
            out.push(bs[i]);
            i += 1;
        }
    }
    String::from_utf8(out).ok()
}

fn parse_coins(tok: &str) -> Option<Vec<Coin>> {
    if tok == "-" {
        return Some(vec![]);
    }
    let mut out = vec![];
    for part in tok.split(',') {
        let nd = part.bytes().take_while(|b| b.is_ascii_digit()).count();
        if nd == 0 || nd == part.len() {
            return None;
        }
        let amount: u128 = part[..nd].parse().ok()?;
        out.push(Coin { denom: part[nd..].to_string(), amount: Uint128::new(amount) });
    }
    Some(out)
}

fn fmt_coins(cs: &[Coin]) -> String {
    if cs.is_empty() {
        return "-".into();
    }
    cs.iter().map(|c| format!("{}{}", c.amount.u128(), c.denom)).collect::<Vec<_>>().join(",")
}

fn okerr<T, E>(r: Result<T, E>) -> String {
    match r {
        Ok(_) => "ok".into(),
        Err(_) => "err".into(),
    }
}

/// raw key prefix of the balances map inside the bank namespace
fn balances_prefix() -> Vec<u8> {
    let mut p = vec![0u8, 4];
    p.extend_from_slice(b"bank");
    p.extend_from_slice(&[0u8, 8]);
    p.extend_from_slice(b"balances");
    p
}

fn dump(ctx: &Ctx) -> String {
    let pfx = balances_prefix();
    let mut items = vec![];
    for (k, v) in ctx.app.storage().range(None, None, Order::Ascending) {
        if k.starts_with(&pfx) {
            let addr = String::from_utf8_lossy(&k[pfx.len()..]).to_string();
            match serde_json::from_slice::<Vec<Coin>>(&v) {
                Ok(cs) => items.push(format!("{}={}", ctx.show(&addr), fmt_coins(&cs))),
                Err(_) => items.push(format!("{}=?{}", ctx.show(&addr), hex(&v))),
            }
        } else {
            // anything else in the root storage is unexpected for this slice and shown raw
            items.push(format!("?{}={}", hex(&k), hex(&v)));
        }
    }
    if items.is_empty() {
        "-".into()
    } else {
        items.join(";")
    }
}

fn q_bal(ctx: &Ctx, addr: &str, denom: &str) -> String {
    match ctx.app.wrap().query_balance(addr, denom) {
        Ok(c) if c.denom == denom => c.amount.u128().to_string(),
        Ok(_) => "denom-mismatch".into(),
        Err(_) => "err".into(),
    }
}

fn q_all(ctx: &Ctx, addr: &str) -> String {
    #[allow(deprecated)]
    match ctx.app.wrap().query_all_balances(addr) {
        Ok(cs) => fmt_coins(&cs),
        Err(_) => "err".into(),
    }
}

fn q_supply(ctx: &Ctx, denom: &str) -> String {
    match ctx.app.wrap().query_supply(denom) {
        Ok(c) if c.denom == denom => c.amount.u128().to_string(),
        Ok(_) => "denom-mismatch".into(),
        Err(_) => "err".into(),
    }
}

fn step(ctx: &mut Ctx, t: &[&str]) -> String {
    match t {
        ["bind", s, a] => {
            if ctx.syms.iter().any(|(x, _)| x == s) {
                "bad-op".into()
            } else if ctx.app.api().addr_make(s).as_str() == *a {
                ctx.syms.push((s.to_string(), a.to_string()));
                "ok".into()
            } else {
                "mismatch".into()
            }
        }
        ["init", a, c] => match (ctx.resolve(a), parse_coins(c)) {
            (Some(a), Some(c)) => {
                let addr = Addr::unchecked(a);
                okerr(ctx.app.init_modules(|router, _, storage| router.bank.init_balance(storage, &addr, c)))
            }
            _ => "bad-op".into(),
        },
        ["mint", a, c] => match (ctx.resolve(a), parse_coins(c)) {
            (Some(a), Some(c)) => okerr(ctx.app.sudo(BankSudo::Mint { to_address: a, amount: c }.into())),
            _ => "bad-op".into(),
        },
        ["send", a, b, c] => match (ctx.resolve(a), ctx.resolve(b), parse_coins(c)) {
            (Some(a), Some(b), Some(c)) => {
                okerr(ctx.app.execute(Addr::unchecked(a), BankMsg::Send { to_address: b, amount: c }.into()))
            }
            _ => "bad-op".into(),
        },
        ["sendt", a, b, c] => match (ctx.resolve(a), ctx.resolve(b), parse_coins(c)) {
            (Some(a), Some(b), Some(c)) => okerr(ctx.app.send_tokens(Addr::unchecked(a), Addr::unchecked(b), &c)),
            _ => "bad-op".into(),
        },
        // the keeper driven WITHOUT a transaction (as an `init_modules` / builder closure would): a failing
        // transfer must still change nothing
        ["sendr", a, b, c] => match (ctx.resolve(a), ctx.resolve(b), parse_coins(c)) {
            (Some(a), Some(b), Some(c)) => {
                let block = ctx.app.block_info();
                okerr(ctx.app.init_modules(|router, api, storage| {
                    use cw_multi_test::Module;
                    router.bank.execute(api, storage, router, &block, Addr::unchecked(a), BankMsg::Send { to_address: b, amount: c })
                }))
            }
            _ => "bad-op".into(),
        },
        ["burn", a, c] => match (ctx.resolve(a), parse_coins(c)) {
            (Some(a), Some(c)) => okerr(ctx.app.execute(Addr::unchecked(a), BankMsg::Burn { amount: c }.into())),
            _ => "bad-op".into(),
        },
        ["bal", a, d] => match ctx.resolve(a) {
            Some(a) => q_bal(ctx, &a, d),
            None => "bad-op".into(),
        },
        ["all", a] => match ctx.resolve(a) {
            Some(a) => q_all(ctx, &a),
            None => "bad-op".into(),
        },
        ["supply", d] => q_supply(ctx, d),
        ["dump-bank"] => dump(ctx),
        ["snap", denoms @ ..] => {
            let addrs: Vec<String> = ctx.syms.iter().map(|(_, a)| a.clone()).collect();
            let bal = addrs
                .iter()
                .map(|a| denoms.iter().map(|d| q_bal(ctx, a, d)).collect::<Vec<_>>().join(","))
                .collect::<Vec<_>>()
                .join("/");
            let all = addrs.iter().map(|a| q_all(ctx, a)).collect::<Vec<_>>().join("|");
            let sup = denoms.iter().map(|d| q_supply(ctx, d)).collect::<Vec<_>>().join(",");
            format!("bal={} all={} supply={} dump={}", bal, all, sup, dump(ctx))
        }
        _ => "bad-op".into(),
    }
}

pub fn exec_bank(lines: &[String]) -> Vec<String> {
    let mut ctx = Ctx { app: App::default(), syms: vec![] };
    let mut out = vec![];
    for line in lines {
        let t: Vec<&str> = line.split_whitespace().collect();
        if t.is_empty() {
            out.push("bad-op".into());
            continue;
        }
        // every op under catch_unwind: a panic of the implementation is the observable outcome `panic`
        let r = guarded(|| step(&mut ctx, &t));
        out.push(r.unwrap_or_else(|| "panic".into()));
    }
    out
}

// ------------------------------------------------------------------------------------------------
// generator

const SYMS: &[&str] = &["a1", "a2", "a3", "a4"];
/// three denoms, one a proper prefix of another, not in alphabetical order
const DENOMS: &[&str] = &["ua", "u", "x"];

fn gen_amount(rng: &mut Rng, hi: u64) -> u128 {
    let r = rng.below(100);
    if r < 12 {
        0
    } else if r < 15 {
        // occasionally huge (< 2^100): sums over a whole case stay far below 2^128
        let top: u128 = 1u128 << 100;
        match rng.below(3) {
            0 => top - 1,
            1 => top - 1 - rng.below(20) as u128,
            _ => ((rng.next() as u128) << 36) ^ (rng.next() as u128),
        }
    } else {
        rng.range(1, hi) as u128
    }
}

type CoinList = Vec<(u128, String)>;

fn fmt_list(cs: &CoinList) -> String {
    if cs.is_empty() {
        return "-".into();
    }
    cs.iter().map(|(a, d)| format!("{}{}", a, d)).collect::<Vec<_>>().join(",")
}

/// unsteered coin list: empty lists, zeros and duplicate denoms are frequent
fn gen_coins(rng: &mut Rng, hi: u64) -> CoinList {
    let r = rng.below(100);
    let n = if r < 6 {
        0
    } else if r < 56 {
        1
    } else if r < 81 {
        2
    } else if r < 93 {
        3
    } else {
        rng.range(4, 5)
    };
    (0..n).map(|_| (gen_amount(rng, hi), rng.pick(DENOMS).to_string())).collect()
}

/// The generator's own rough ledger, used ONLY to steer amounts towards the interesting boundary (exactly the
/// balance, one more than the balance, the balance split over two coins of the same denom). It plays no role
/// in judging the outcome.
#[derive(Default)]
struct Rough(std::collections::BTreeMap<(String, String), u128>);

impl Rough {
    fn holdings(&self, a: &str) -> Vec<(String, u128)> {
        self.0.iter().filter(|((x, _), v)| x == a && **v > 0).map(|((_, d), v)| (d.clone(), *v)).collect()
    }
    fn funded(&self) -> Vec<String> {
        let mut v: Vec<String> = self.0.iter().filter(|(_, v)| **v > 0).map(|((a, _), _)| a.clone()).collect();
        v.dedup();
        v
    }
    fn totals(cs: &CoinList) -> Vec<(String, u128)> {
        let mut t: Vec<(String, u128)> = vec![];
        for (a, d) in cs {
            match t.iter_mut().find(|(x, _)| x == d) {
                Some(e) => e.1 += *a,
                None => t.push((d.clone(), *a)),
            }
        }
        t
    }
    fn set(&mut self, a: &str, cs: &CoinList) {
        self.0.retain(|(x, _), _| x != a);
        for (d, v) in Self::totals(cs) {
            self.0.insert((a.to_string(), d), v);
        }
    }
    fn credit(&mut self, a: &str, cs: &CoinList) {
        for (d, v) in Self::totals(cs) {
            *self.0.entry((a.to_string(), d)).or_insert(0) += v;
        }
    }
    /// true if the debit is covered (and then applied)
    fn debit(&mut self, a: &str, cs: &CoinList) -> bool {
        let t = Self::totals(cs);
        if !t.iter().any(|(_, v)| *v > 0) {
            return false;
        }
        if t.iter().any(|(d, v)| *v > *self.0.get(&(a.to_string(), d.clone())).unwrap_or(&0)) {
            return false;
        }
        for (d, v) in t {
            if v > 0 {
                *self.0.get_mut(&(a.to_string(), d)).unwrap() -= v;
            }
        }
        true
    }
}

/// coin list for a debit of `payer`, steered by the rough ledger in three cases out of four
fn gen_debit(rng: &mut Rng, rough: &Rough, payer: &str) -> CoinList {
    let h = rough.holdings(payer);
    if h.is_empty() || rng.chance(1, 4) {
        return gen_coins(rng, 20);
    }
    let mut out: CoinList = vec![];
    let picks = if rng.chance(1, 5) { 3 } else { rng.range(1, 2) };
    for _ in 0..picks {
        let (d, have) = rng.pick(&h);
        let r = rng.below(100);
        if r < 40 {
            let cap = if have < 20 { have as u64 } else { 20 };
            out.push((rng.range(1, cap) as u128, d));
        } else if r < 60 {
            out.push((have, d));
        } else if r < 78 {
            out.push((have + 1, d));
        } else if r < 90 && have >= 2 {
            let x = 1 + (rng.next() as u128) % (have - 1);
            out.push((x, d.clone()));
            out.push((have - x, d));
        } else {
            out.push((gen_amount(rng, 20), rng.pick(DENOMS).to_string()));
        }
    }
    if rng.chance(1, 6) {
        let pos = rng.below(out.len() as u64 + 1) as usize;
        out.insert(pos, (0, rng.pick(DENOMS).to_string()));
    }
    out
}

struct AddrGen {
    raws: Vec<String>,
    /// share (percent) of address picks that are raw, invalid strings
    raw_share: u64,
}

impl AddrGen {
    fn pick(&self, rng: &mut Rng) -> String {
        if self.raw_share > 0 && rng.below(100) < self.raw_share {
            format!("raw:{}", penc(&rng.pick(&self.raws)))
        } else {
            rng.pick(SYMS).to_string()
        }
    }
    /// payers are biased towards a1/a2 so that a3/a4 are often never-seen recipients
    fn pick_payer(&self, rng: &mut Rng) -> String {
        if rng.chance(3, 5) {
            rng.pick(&SYMS[..2]).to_string()
        } else {
            self.pick(rng)
        }
    }
    fn invalid(&self, rng: &mut Rng) -> String {
        format!("raw:{}", penc(&rng.pick(&self.raws)))
    }
}

/// who pays: usually somebody the rough ledger believes to hold coins (so that the amount decides the outcome)
fn pick_debtor(rng: &mut Rng, ag: &AddrGen, rough: &Rough) -> String {
    let f = rough.funded();
    if !f.is_empty() && rng.chance(2, 3) {
        rng.pick(&f)
    } else {
        ag.pick_payer(rng)
    }
}

pub fn gen_bank(rng: &mut Rng, thorough: bool) -> Vec<String> {
    let api = MockApi::default();
    let mut ops = vec![];
    let a1 = api.addr_make("a1").to_string();
    for s in SYMS {
        ops.push(format!("bind {} {}", s, api.addr_make(s)));
    }
    // the malformed stream: invalid address strings also as init/send/burn parties and in queries
    let malformed = rng.chance(15, 100);
    let ag = AddrGen {
        raws: vec!["x".into(), a1.to_uppercase(), "".into(), "cosmwasm1bad".into()],
        raw_share: if malformed { 20 } else { 0 },
    };
    let mut rough = Rough::default();
    let snap = format!("snap {}", DENOMS.join(" "));
    // genesis: usually the frequent payers get funds in several denoms, sometimes nobody does
    for _ in 0..rng.below(5) {
        let n = rng.range(1, 4);
        let coins: CoinList = (0..n).map(|_| (gen_amount(rng, 40), rng.pick(DENOMS).to_string())).collect();
        let a = ag.pick_payer(rng);
        rough.set(&a, &coins);
        ops.push(format!("init {} {}", a, fmt_list(&coins)));
    }
    ops.push(snap.clone());
    let n = if thorough { rng.range(10, 40) } else { rng.range(6, 25) };
    for _ in 0..n {
        let r = rng.below(100);
        let mutating = if r < 20 {
            let (a, c) = (ag.pick_payer(rng), gen_coins(rng, 40));
            if !a.starts_with("raw:") && c.iter().any(|(v, _)| *v > 0) {
                rough.credit(&a, &c);
            }
            ops.push(format!("mint {} {}", a, fmt_list(&c)));
            true
        } else if r < 22 {
            // an invalid address for mint must be rejected
            ops.push(format!("mint {} {}", ag.invalid(rng), fmt_list(&gen_coins(rng, 40))));
            true
        } else if r < 57 {
            let from = pick_debtor(rng, &ag, &rough);
            // self-transfers: 5% forced + whenever the uniformly picked recipient happens to be the sender (about 30% in all)
            let to = if rng.chance(5, 100) { from.clone() } else { ag.pick(rng) };
            let verb = match rng.below(8) {
                0 | 1 => "sendt",
                2 => "sendr",
                _ => "send",
            };
            let c = gen_debit(rng, &rough, &from);
            if rough.debit(&from, &c) {
                rough.credit(&to, &c);
            }
            ops.push(format!("{} {} {} {}", verb, from, to, fmt_list(&c)));
            true
        } else if r < 72 {
            let from = pick_debtor(rng, &ag, &rough);
            let c = gen_debit(rng, &rough, &from);
            rough.debit(&from, &c);
            ops.push(format!("burn {} {}", from, fmt_list(&c)));
            true
        } else if r < 75 {
            let (a, c) = (ag.pick(rng), gen_coins(rng, 40));
            rough.set(&a, &c);
            ops.push(format!("init {} {}", a, fmt_list(&c)));
            true
        } else if r < 83 {
            ops.push(format!("bal {} {}", ag.pick(rng), rng.pick(&["ua", "u", "x", "zz", "U"])));
            false
        } else if r < 90 {
            ops.push(format!("all {}", ag.pick(rng)));
            false
        } else if r < 96 {
            ops.push(format!("supply {}", rng.pick(&["ua", "u", "x", "zz"])));
            false
        } else {
            ops.push("dump-bank".into());
            false
        };
        if mutating {
            ops.push(snap.clone());
        }
    }
    ops
}
