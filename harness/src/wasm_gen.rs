//! Case generators of the wasm slices. One PRNG per case; every case starts with the `bind` lines
//! that declare the real addresses / checksums behind the symbols used in the ops.
use crate::util::*;
use crate::wasm::{classic_addr, default_checksum, salted_addr};
use cw_multi_test::App;

pub struct Ctx {
    pub marker: u64,
    pub sub_id: u64,
    pub contracts: Vec<String>, // symbols of contracts that exist after the setup
    pub codes: u64,             // number of stored codes
    pub malformed: bool,        // allow malformed pieces in this case
    pub attr_heavy: bool,       // C13 focus
    pub salts: bool,
    pub insts: u64, // instantiate messages generated so far (bounded: classic addresses are pre-bound)
    pub staking: bool, // staking / distribution messages and queries are generated
}

pub const USERS: &[&str] = &["u1", "u2", "u3"];
pub const DENOMS: &[&str] = &["d1", "d2"];
pub const KEYS: &[&str] = &["6b", "6b01", "00", "-", "ff", "0004626e6b", "000462616e6b000862616c616e636573", "00047761736d"];

pub fn coins(rng: &mut Rng, allow_bad: bool) -> String {
    let r = rng.below(100);
    if r < 55 {
        "-".into()
    } else if r < 85 {
        format!("{}:{}", rng.range(1, 5), rng.pick(DENOMS))
    } else if r < 89 {
        format!("{}:d1,{}:d2", rng.range(1, 3), rng.range(1, 3))
    } else if r < 92 {
        // one denomination named twice next to another one (legal: amounts are merged)
        format!("{}:d2,{}:d1,{}:d2", rng.range(1, 2), rng.range(1, 2), rng.range(1, 2))
    } else if allow_bad {
        match rng.below(4) {
            0 => "0:d1".into(),
            1 => "100000:d1".into(),
            2 => format!("1:d1,{}:d1", rng.range(1, 3)),
            _ => "1:zz".into(),
        }
    } else {
        "-".into()
    }
}

pub fn some_addr(rng: &mut Rng, ctx: &Ctx) -> String {
    let r = rng.below(100);
    if r < 55 && !ctx.contracts.is_empty() {
        rng.pick(&ctx.contracts)
    } else if r < 90 {
        rng.pick(USERS).to_string()
    } else if r < 96 {
        "n1".into()
    } else {
        "bad".into()
    }
}

pub fn contract(rng: &mut Rng, ctx: &Ctx) -> String {
    let r = rng.below(100);
    if r < 92 && !ctx.contracts.is_empty() {
        rng.pick(&ctx.contracts)
    } else if r < 96 {
        "n1".into()
    } else if r < 98 {
        "u1".into()
    } else {
        "bad".into()
    }
}

const GOOD_KEYS: &[&str] = &["a", "key", "k_1", "x%20y", "%c3%a4", "a_"];
const BAD_KEYS: &[&str] = &["%", "_a", "%20", "%20_x", "%09", "_", "%e2%80%83", "%c2%a0_k", "%e3%80%80", "_contract_address", "_contract_address%20", "%20_contract_address"];
const TRICKY_OK_KEYS: &[&str] = &["%e2%80%8b", "%ef%bb%bf", "%e1%a0%8e", "a%20", "%20a", "%e2%80%8b_x", "x_"];
const GOOD_TYS: &[&str] = &["ev", "foo", "ab", "%20ab%20", "%c3%a4", "wasm", "wasm-ev", "wasm-", "wasm-wasm-x", "execute", "reply"];
const BAD_TYS: &[&str] = &["%", "a", "%20a%20", "%20", "%09x%0a", "%e2%80%83b"];
const VALS: &[&str] = &["v", "%", "%20", "_v", "1"];

fn attr_key(rng: &mut Rng, ctx: &Ctx) -> String {
    let p_bad = if ctx.attr_heavy { 12 } else if ctx.malformed { 3 } else { 0 };
    let r = rng.below(100);
    if r < p_bad {
        rng.pick(BAD_KEYS).to_string()
    } else if r < p_bad + if ctx.attr_heavy { 25 } else { 5 } {
        rng.pick(TRICKY_OK_KEYS).to_string()
    } else {
        rng.pick(GOOD_KEYS).to_string()
    }
}

fn ev_ty(rng: &mut Rng, ctx: &Ctx) -> String {
    let p_bad = if ctx.attr_heavy { 10 } else if ctx.malformed { 3 } else { 0 };
    if rng.below(100) < p_bad {
        rng.pick(BAD_TYS).to_string()
    } else {
        rng.pick(GOOD_TYS).to_string()
    }
}

pub fn gen_stk_msg(rng: &mut Rng, ctx: &Ctx) -> String {
    let v = |rng: &mut Rng| if rng.chance(1, 12) { "v9".to_string() } else { rng.pick(&["v1", "v1", "v2"]).to_string() };
    let amt = |rng: &mut Rng| match rng.below(20) {
        0 => "0:d1".to_string(),
        1 => format!("{}:d2", rng.range(1, 3)),
        2 => "500:d1".to_string(),
        _ => format!("{}:d1", rng.range(1, 4)),
    };
    match rng.below(100) {
        0..=39 => format!("(deleg {} {})", v(rng), amt(rng)),
        40..=59 => format!("(undeleg {} {})", v(rng), amt(rng)),
        60..=71 => format!("(redeleg {} {} {})", v(rng), v(rng), amt(rng)),
        72..=89 => format!("(withdraw {})", v(rng)),
        _ => format!("(setwd {})", some_addr(rng, ctx)),
    }
}

pub fn gen_msg(rng: &mut Rng, ctx: &mut Ctx, depth: u32) -> String {
    if ctx.staking && rng.chance(1, 4) {
        return gen_stk_msg(rng, ctx);
    }
    let r = rng.below(100);
    if r < 58 {
        let c = contract(rng, ctx);
        format!("(exec {} {} {})", c, gen_script(rng, ctx, depth, false), coins(rng, ctx.malformed))
    } else if r < 72 {
        format!("(send {} {})", some_addr(rng, ctx), {
            let c = coins(rng, ctx.malformed);
            if c == "-" { "1:d1".to_string() } else { c }
        })
    } else if r < 75 {
        format!("(burn {})", if rng.chance(1, 2) { "1:d1".into() } else { coins(rng, ctx.malformed) })
    } else if r < 87 && ctx.insts < 10 {
        ctx.insts += 1;
        let code = if ctx.malformed && rng.chance(1, 10) { rng.pick(&[0u64, 9, 77]) } else { rng.range(1, ctx.codes.max(1)) };
        // labels are recorded exactly as supplied, surrounding whitespace included
        let label = if ctx.malformed && rng.chance(1, 12) {
            "%".to_string()
        } else if rng.chance(1, 8) {
            rng.pick(&["%20l1%20", "%09x", "x%0a", "%20%20", "%e2%80%83l"]).to_string()
        } else {
            format!("l{}", rng.below(50))
        };
        let admin = match rng.below(4) {
            0 => "~".to_string(),
            1 => "u1".to_string(),
            _ => some_addr(rng, ctx),
        };
        let salt = if ctx.salts && rng.chance(1, 3) { rng.pick(&["aa", "bb"]).to_string() } else { "~".to_string() };
        // code running at a freshly created address never instantiates with a salt (only the
        // creators bound in `binds` have their salted addresses declared)
        let saved = ctx.salts;
        ctx.salts = false;
        let script = gen_script(rng, ctx, depth.min(1), false);
        ctx.salts = saved;
        format!(
            "(inst {} {} {} {} {} {})",
            code,
            script,
            coins(rng, ctx.malformed),
            label,
            admin,
            salt
        )
    } else if r < 91 {
        let code = if ctx.malformed && rng.chance(1, 6) { 9 } else { rng.range(1, ctx.codes.max(1)) };
        format!("(mig {} {} {})", contract(rng, ctx), code, gen_script(rng, ctx, depth.min(1), false))
    } else if r < 94 {
        format!("(upd {} {})", contract(rng, ctx), some_addr(rng, ctx))
    } else if r < 96 {
        format!("(clr {})", contract(rng, ctx))
    } else {
        format!("(ext {} {})", rng.pick(&["custom", "ibc", "gov", "stargate", "any"]), rng.pick(&["-", "01", "aabb"]))
    }
}

/// a script = list of actions; `depth` bounds sub-message nesting
pub fn gen_script(rng: &mut Rng, ctx: &mut Ctx, depth: u32, is_reply: bool) -> String {
    let n = rng.range(0, if is_reply { 3 } else { 5 });
    let mut acts: Vec<String> = vec![];
    for _ in 0..n {
        let r = rng.below(100);
        if r < 22 {
            if rng.chance(2, 3) {
                ctx.marker += 1;
                acts.push(format!("(w 6d{:04x} {:02x})", ctx.marker, (ctx.marker % 250) + 1));
            } else {
                acts.push(format!("(w {} {:02x})", rng.pick(KEYS), rng.range(1, 9)));
            }
        } else if r < 24 {
            acts.push(format!("(rm {})", rng.pick(KEYS)));
        } else if r < 26 {
            // overwrite-then-remove (or remove-then-set) of a key that is committed since the setup
            let k = rng.pick(&["6b", "6b", "00"]);
            if rng.chance(2, 3) {
                acts.push(format!("(w {} {:02x})", k, rng.range(10, 99)));
                acts.push(format!("(rm {})", k));
            } else {
                acts.push(format!("(rm {})", k));
                acts.push(format!("(w {} {:02x})", k, rng.range(10, 99)));
            }
            if rng.chance(1, 2) {
                acts.push(format!("(rd {})", k));
            }
        } else if r < 33 {
            acts.push(format!("(rd {})", rng.pick(KEYS)));
        } else if r < 36 {
            let o = if rng.chance(1, 2) { "asc" } else { "desc" };
            let s = if rng.chance(1, 2) { "~".to_string() } else { rng.pick(KEYS).to_string() };
            let e = if rng.chance(1, 2) { "~".to_string() } else { rng.pick(KEYS).to_string() };
            acts.push(format!("({} {} {} {})", match rng.below(6) { 0 | 1 => "rngk", 2 => "rngv", _ => "rng" }, s, e, o));
        } else if r < 44 {
            acts.push(format!("(attr {} {})", attr_key(rng, ctx), rng.pick(VALS)));
        } else if r < 50 {
            let na = rng.below(3);
            let attrs: Vec<String> = (0..na).map(|_| format!("({} {})", attr_key(rng, ctx), rng.pick(VALS))).collect();
            acts.push(format!("(ev {}{}{})", ev_ty(rng, ctx), if attrs.is_empty() { "" } else { " " }, attrs.join(" ")));
        } else if r < 57 {
            // mostly short; sometimes at the boundaries of the one-byte protobuf length (127 / 128 / 129 bytes) or longer
            let d: &str = if rng.chance(1, 10) { rng.pick(&["61*127", "61*128", "61*129", "00*128", "0a*300"]) } else { rng.pick(&["-", "01", "aabb", "0a02cc"]) };
            acts.push(format!("(data {})", d));
        } else if r < 68 {
            let q = match if ctx.staking { rng.below(11) } else { rng.below(8) } {
                8 => format!("(qdeleg {} {})", some_addr(rng, ctx), rng.pick(&["v1", "v2", "v9"])),
                9 => format!("(qalldeleg {})", some_addr(rng, ctx)),
                10 => "(qbonded)".to_string(),
                0 => format!("(qbal {} {})", some_addr(rng, ctx), rng.pick(DENOMS)),
                1 => format!("(qall {})", some_addr(rng, ctx)),
                2 => format!("(qsup {})", rng.pick(DENOMS)),
                3 | 4 => format!("(qraw {} {})", contract(rng, ctx), rng.pick(KEYS)),
                5 => {
                    let inner = match rng.below(4) {
                        0 => format!("((rd {}) (qbal {} d1))", rng.pick(KEYS), some_addr(rng, ctx)),
                        1 => "((rng ~ ~ asc))".to_string(),
                        2 => format!("((qsmart {} ((rd 6b))))", contract(rng, ctx)),
                        _ => if ctx.malformed { "((fail))".to_string() } else { "()".to_string() },
                    };
                    format!("(qsmart {} {})", contract(rng, ctx), inner)
                }
                6 => format!("(qinfo {})", contract(rng, ctx)),
                _ => format!("(qcode {})", rng.range(0, ctx.codes + 1)),
            };
            acts.push(q);
        } else if r < 88 && depth > 0 {
            ctx.sub_id += 1;
            // boundary ids, each at most once per case so that ids stay unique: 0 and u64::MAX
            let id = if ctx.sub_id % 1000 == 3 && rng.chance(1, 2) {
                0
            } else if ctx.sub_id % 1000 == 5 && rng.chance(1, 2) {
                u64::MAX
            } else {
                ctx.sub_id
            };
            let mode = rng.pick(&["always", "error", "success", "never"]);
            let reply = gen_script(rng, ctx, depth - 1, true);
            let m = gen_msg(rng, ctx, depth - 1);
            acts.push(format!("(sub {} {} {} {})", id, mode, reply, m));
        } else if r < 91 && depth > 0 {
            let m = gen_msg(rng, ctx, depth - 1);
            acts.push(format!("(msg {})", m));
        } else if r < 96 {
            acts.push("(fail)".into());
        }
    }
    format!("({})", acts.join(" "))
}

pub fn binds(app: &App, ops: &mut Vec<String>, codes: u64, insts: u64, salts: bool) {
    for u in ["u1", "u2", "u3", "n1", "creator"] {
        ops.push(format!("bind {} {}", u, app.api().addr_make(u)));
    }
    for c in 1..=codes {
        ops.push(format!("bindc {} {}", c, hex(&default_checksum(c))));
    }
    for c in 1..=codes {
        for i in 0..insts {
            ops.push(format!("bind c{}_{} {}", c, i, classic_addr(app, c, i)));
        }
    }
    if salts {
        for c in 1..=codes {
            for creator in ["u1", "u2", "u3", "n1", "c1_0", "c2_1", "c1_2"] {
                let creal = if creator.starts_with('u') || creator.starts_with('n') {
                    app.api().addr_make(creator).to_string()
                } else {
                    let (cc, ii) = creator[1..].split_once('_').unwrap();
                    classic_addr(app, cc.parse().unwrap(), ii.parse().unwrap())
                };
                for salt in ["aa", "bb"] {
                    ops.push(format!(
                        "bind2 {} {} {} {}",
                        c,
                        creator,
                        salt,
                        salted_addr(app, &default_checksum(c), &creal, &unhex(salt))
                    ));
                }
            }
        }
    }
}

pub fn observe(ops: &mut Vec<String>) {
    ops.push("trace".into());
    ops.push("dump".into());
    ops.push("rawhash".into());
}

/// common setup: codes A,B(,C); balances; three contracts c1_0, c2_1, c1_2
pub fn setup(rng: &mut Rng, ops: &mut Vec<String>, ctx: &mut Ctx, salts: bool) {
    let app = App::default();
    ctx.codes = rng.range(2, 3);
    binds(&app, ops, ctx.codes, 16, salts);
    // code 2 (and sometimes 3) is the ContractWrapper-lifted flavour in half of the cases
    let wrapped2 = rng.chance(1, 2);
    let wrapped3 = rng.chance(1, 3);
    for (i, t) in ["A", "B", "C"].iter().enumerate() {
        if (i as u64) < ctx.codes {
            if (i == 1 && wrapped2) || (i == 2 && wrapped3) {
                ops.push("store-w".into());
            } else {
                ops.push(format!("store {}", t));
            }
        }
    }
    ops.push("init-bal u1 50:d1,20:d2".into());
    ops.push("init-bal u2 10:d1".into());
    if rng.chance(1, 4) {
        ops.push(format!("block {} {}", rng.range(1, 1000), rng.range(1, 2_000_000_000) * 1_000_000_000));
    }
    if rng.chance(1, 8) {
        ops.push(format!("block-chain {}", rng.pick(&["demo-chain-7", "x"])));
    }
    let admins = ["u1", "~", "u2"];
    let specs = [(1u64, 0u64), (2, 1), (1, 2)];
    for (k, (code, inst)) in specs.iter().enumerate() {
        let funds = if rng.chance(2, 3) { "7:d1" } else { "-" };
        ops.push(format!(
            "exec u1 (inst {} ((w 6b {:02x}) (attr init {})) {} lbl{} {} ~)",
            code,
            k + 1,
            k,
            funds,
            k,
            admins[k]
        ));
        ctx.contracts.push(format!("c{}_{}", code, inst));
    }
    ops.push("trace".into());
    ops.push("dump".into());
}

pub fn gen_wasm(rng: &mut Rng, thorough: bool) -> Vec<String> {
    let mut ops = vec![];
    let mut ctx = Ctx {
        marker: 0,
        sub_id: 0,
        contracts: vec![],
        codes: 2,
        malformed: rng.chance(1, 4),
        attr_heavy: false,
        salts: rng.chance(1, 5),
        insts: 0,
        staking: false,
    };
    let salts = ctx.salts;
    setup(rng, &mut ops, &mut ctx, salts);
    if rng.chance(1, 6) {
        // one execute_multi whose later messages use what an earlier one created: three contracts exist after the setup,
        // so the fourth classic instance of code 1 is c1_3
        ops.push("rawhash".into());
        let tail = match rng.below(3) {
            0 => "(exec c1_3 ((w 6d7a01 01) (rd 6b)) -)".to_string(),
            1 => "(exec c1_3 ((rd 6b)) 1:d1) (upd c1_3 u2)".to_string(),
            _ => "(exec c1_0 ((qinfo c1_3) (qraw c1_3 6b) (qsmart c1_3 ((rd 6b)))) -)".to_string(),
        };
        ops.push(format!("multi u1 ((inst 1 ((w 6b 09)) - fresh u1 ~) {})", tail));
        ctx.insts += 1;
        observe(&mut ops);
        ops.push("q-info c1_3".into());
    } else if rng.chance(1, 7) {
        // a contract WITHOUT a reply entry point (code K, the fourth instance) dispatching a sub-message that fails and is
        // sent with reply_on error / always: nobody can absorb the failure, the call fails; an outer contract may catch it
        let k = ctx.codes + 1;
        let bare = format!("c{}_3", k);
        ops.push(format!("bindc {} {}", k, hex(&crate::wasm::default_checksum(k))));
        ops.push("store-n".into());
        ops.push(format!("bind {} {}", bare, crate::wasm::classic_addr(&App::default(), k, 3)));
        ops.push(format!("exec u1 (inst {} ((w 6b 01)) - bare u1 ~)", k));
        let mode = rng.pick(&["error", "always"]);
        ctx.sub_id += 3;
        ops.push("rawhash".into());
        ops.push(format!("exec-bare u1 (exec {} ((w 6e0a 01) (sub {} {} () (send u2 100000:d1))) -)", bare, ctx.sub_id - 2, mode));
        observe(&mut ops);
        ops.push("rawhash".into());
        ops.push(format!(
            "exec-bare u1 (exec c1_0 ((w 6e0b 01) (sub {} error ((attr caught 1)) (exec {} ((w 6e0c 01) (sub {} {} () (send u2 100000:d1))) -))) -)",
            ctx.sub_id - 1, bare, ctx.sub_id, mode
        ));
        observe(&mut ops);
        ops.push(format!("wasm-sudo {} ((attr s 1))", bare));
        ops.push("trace".into());
        ctx.insts += 1;
    }
    if rng.chance(1, 6) {
        // supply asked, then a burn (by a user / by a contract through a caught or uncaught failing branch) inside a
        // transaction that fails afterwards, then supply asked again: nothing the ledger REMEMBERS may differ from what it stores
        let d = rng.pick(&["d1", "d2"]);
        ops.push(format!("q-sup {}", d));
        ops.push("rawhash".into());
        match rng.below(3) {
            0 => ops.push(format!("multi u1 ((burn 1:{}) (exec c1_0 ((fail)) -))", d)),
            1 => ops.push(format!("multi u1 ((burn 2:{}) (send u2 1:{}) (send u2 100000:{}))", d, d, d)),
            _ => {
                ctx.sub_id += 1;
                ops.push(format!("exec u1 (exec c1_0 ((sub {} error () (exec c2_1 ((msg (burn 1:{})) (fail)) 1:{}))) -)", ctx.sub_id, d, d));
            }
        }
        observe(&mut ops);
        ops.push(format!("q-sup {}", d));
        ops.push("q-all u1".into());
    }
    if rng.chance(1, 8) {
        // a reply that sets data AND dispatches a sub-message whose own reply sets data: the nested reply runs later, its data wins
        let (m1, m2) = (rng.pick(&["always", "success"]), rng.pick(&["always", "success"]));
        let inner = if rng.chance(1, 2) { "(send u2 1:d1)".to_string() } else { "(exec c2_1 ((data 0c)) -)".to_string() };
        ctx.sub_id += 2;
        ops.push("rawhash".into());
        ops.push(format!(
            "exec u1 (exec c1_0 ((data 01) (sub {} {} ((data 02) (sub {} {} ({}) {})) (send u2 1:d1))) -)",
            ctx.sub_id - 1, m1, ctx.sub_id, m2, rng.pick(&["(data 03)", "(data 03) (attr k v)", ""]), inner
        ));
        observe(&mut ops);
    }
    if rng.chance(1, 8) {
        // a migration sent by the admin CONTRACT as a sub-message with a reply; the migrate entry point itself dispatches a
        // sub-message whose reply sets data: what the outer reply is handed is the execute-response encoding of that data
        ops.push("exec u1 (upd c1_0 c2_1)".into());
        ctx.sub_id += 2;
        ops.push("rawhash".into());
        ops.push(format!(
            "exec u3 (exec c2_1 ((sub {} always ((attr r 1)) (mig c1_0 {} ((data 07) (sub {} always ((data {})) (send u2 1:d1)))))) -)",
            ctx.sub_id - 1,
            rng.range(1, ctx.codes),
            ctx.sub_id,
            rng.pick(&["0a0b", "-", "61*128"])
        ));
        observe(&mut ops);
    }
    if rng.chance(1, 25) {
        // many FAILED smart queries, then good ones through App and from inside a contract: a query leaves nothing behind
        for _ in 0..12 {
            ops.push(format!("q-smart {} ((fail))", rng.pick(&["c1_0", "c2_1", "n1"])));
        }
        ops.push("q-smart c1_0 ((rd 6b))".into());
        ops.push("q-smart c1_0 ((rd 6b))".into());
        ops.push("rawhash".into());
        ops.push("exec u1 (exec c2_1 ((qsmart c1_0 ((rd 6b))) (qsmart c1_0 ((fail))) (qsmart c1_0 ((rd 6b)))) -)".into());
        observe(&mut ops);
    }
    if rng.chance(1, 30) {
        // many transactions that fail inside a reply handler (rolled back each time), then one that is due a reply:
        // nothing outside the storage remembers the failures
        for _ in 0..66 {
            ctx.sub_id += 1;
            ops.push(format!("exec u1 (exec c1_0 ((sub {} success ((fail)) (send u2 1:d1))) -)", ctx.sub_id));
        }
        ctx.sub_id += 1;
        ops.push("rawhash".into());
        ops.push(format!("exec u1 (exec c1_0 ((sub {} success ((attr r 1)) (send u2 1:d1))) -)", ctx.sub_id));
        observe(&mut ops);
    }
    let ntx = if thorough { rng.range(3, 9) } else { rng.range(2, 6) };
    let maxd = if thorough { 4 } else { 3 };
    for _ in 0..ntx {
        ops.push("rawhash".into());
        let r = rng.below(100);
        let depth = rng.range(0, maxd) as u32;
        let sender = if ctx.malformed && rng.chance(1, 15) { "n1".to_string() } else { rng.pick(USERS).to_string() };
        if r < 55 {
            let m = gen_msg(rng, &mut ctx, depth);
            ops.push(format!("exec {} {}", sender, m));
        } else if r < 70 {
            let k = rng.range(1, 4);
            let ms: Vec<String> = (0..k).map(|_| gen_msg(rng, &mut ctx, depth.min(2))).collect();
            ops.push(format!("multi {} ({})", sender, ms.join(" ")));
        } else if r < 76 {
            let c = contract(rng, &ctx);
            ops.push(format!("sudo-wasm {} {}", c, gen_script(rng, &mut ctx, depth, false)));
        } else if r < 82 {
            let c = contract(rng, &ctx);
            ops.push(format!("wasm-sudo {} {}", c, gen_script(rng, &mut ctx, depth, false)));
        } else if r < 85 {
            ops.push(format!("sudo-mint {} {}", some_addr(rng, &ctx), coins(rng, ctx.malformed)));
        } else if r < 90 {
            let c = contract(rng, &ctx);
            ops.push(format!("h-exec {} {} {} {}", sender, c, gen_script(rng, &mut ctx, depth, false), coins(rng, ctx.malformed)));
        } else if r < 93 && ctx.insts < 10 {
            ctx.insts += 1;
            let code = rng.range(1, ctx.codes);
            let admin = if rng.chance(1, 2) { "~".to_string() } else { "u1".to_string() };
            let saved = ctx.salts;
            ctx.salts = false;
            let script = gen_script(rng, &mut ctx, depth.min(1), false);
            ctx.salts = saved;
            ops.push(format!(
                "h-inst {} {} {} {} lab {} ~",
                code,
                sender,
                script,
                coins(rng, ctx.malformed),
                admin
            ));
        } else if r < 95 {
            ops.push(format!("h-send {} {} {}", sender, some_addr(rng, &ctx), coins(rng, ctx.malformed)));
        } else if r < 97 {
            let c = contract(rng, &ctx);
            let code = rng.range(1, ctx.codes);
            ops.push(format!("h-mig {} {} {} {}", sender, c, code, gen_script(rng, &mut ctx, 1, false)));
        } else {
            if rng.chance(1, 2) {
                ops.push("next-block".into());
            } else {
                if rng.chance(1, 3) {
                    ops.push(format!("block-chain {}", rng.pick(&["demo-chain-7", "x", "cosmos-testnet-14002", "a%20b"])));
                }
                let h = if rng.chance(1, 3) { "same".to_string() } else { rng.range(1, 100000).to_string() };
                ops.push(format!("block {} {}", h, rng.range(1, 2_000_000_000) * 1_000_000_000));
            }
        }
        observe(&mut ops);
        // queries through App, each asked twice, bracketed by raw hashes
        if rng.chance(1, 3) {
            let q = match rng.below(8) {
                7 => format!("q-ext {} {}", rng.pick(&["custom", "stargate", "grpc", "ibc"]), rng.pick(&["-", "01"])),
                0 => format!("q-bal {} {}", some_addr(rng, &ctx), rng.pick(DENOMS)),
                1 => format!("q-all {}", some_addr(rng, &ctx)),
                2 => format!("q-sup {}", rng.pick(DENOMS)),
                3 => format!("q-smart {} ((rd 6b) (rng ~ ~ asc) (qbal u1 d1))", contract(rng, &ctx)),
                4 => format!("q-raw {} {}", contract(rng, &ctx), rng.pick(KEYS)),
                5 => format!("q-info {}", contract(rng, &ctx)),
                _ => format!("q-code {}", rng.range(0, ctx.codes + 1)),
            };
            ops.push(q.clone());
            ops.push(q);
            ops.push("rawhash".into());
        }
    }
    // final views of every contract
    for c in ctx.contracts.clone() {
        ops.push(format!("wdump {}", c));
        ops.push(format!("cdata {}", c));
    }
    ops
}
