//! Engine `addr` (C18): the address helpers `MockApiBech32`, `MockApiBech32m` (cw-multi-test) and the
//! default `cosmwasm_std::testing::MockApi`, driven on the real code.
//!
//! ops (see DESIGN.md appendix A and CwMt/Driver/Addr.lean):
//!   humanize     <bech32|bech32m|default> <prefix> <hex>        -> ok <string> | err | panic
//!   canonicalize <variant> <prefix> <string>                    -> ok <hex>    | err | panic
//!   validate     <variant> <prefix> <string>                    -> ok <string> | err | panic
//!   make         <variant> <prefix> <name> <digesthex>          -> ok <string> | err | panic
//! (`make` also runs the conversion traits `IntoAddr` / `IntoBech32` / `IntoBech32m` of src/addresses.rs and
//! answers `trait-mismatch …` if they disagree with the Api object's `addr_make`.)
//! prefix / string / name are percent-encoded tokens. A trailing token starting with `#` is a
//! generator label ignored by both executors and read by the python predicate:
//!   #corrupt   single-character substitution of a valid address       (must be rejected)
//!   #foreign   valid address of another prefix / checksum variant     (must be rejected)
//!   #mixed     valid address with mixed case                          (must be rejected)
//!   #malformed valid checksum but non-canonical padding, validate only (must be rejected)
use crate::util::*;
use bech32::{Bech32, Bech32m, ByteIterExt, Fe32, Fe32IterExt, Hrp};
use cosmwasm_std::testing::MockApi;
use cosmwasm_std::{Api, CanonicalAddr};
use cw_multi_test::{IntoAddr, IntoBech32, IntoBech32m, MockApiBech32, MockApiBech32m};
use sha2::{Digest, Sha256};
use std::collections::HashMap;
use std::sync::Mutex;

// `MockApiBech::new` and `MockApi::with_prefix` want `&'static str`: intern (leak once per distinct prefix)
fn intern(s: &str) -> &'static str {
    static TABLE: Mutex<Option<HashMap<String, &'static str>>> = Mutex::new(None);
    let mut g = TABLE.lock().unwrap_or_else(|e| e.into_inner());
    let t = g.get_or_insert_with(HashMap::new);
    if let Some(x) = t.get(s) {
        return x;
    }
    let leaked: &'static str = Box::leak(s.to_string().into_boxed_str());
    t.insert(s.to_string(), leaked);
    leaked
}

fn api_humanize(variant: &str, prefix: &'static str, bytes: &[u8]) -> Result<String, ()> {
    let c = CanonicalAddr::from(bytes.to_vec());
    match variant {
        "bech32" => MockApiBech32::new(prefix).addr_humanize(&c),
        "bech32m" => MockApiBech32m::new(prefix).addr_humanize(&c),
        "default" => MockApi::default().with_prefix(prefix).addr_humanize(&c),
        _ => panic!("variant {}", variant),
    }
    .map(|a| a.to_string())
    .map_err(|_| ())
}

fn api_canonicalize(variant: &str, prefix: &'static str, s: &str) -> Result<Vec<u8>, ()> {
    match variant {
        "bech32" => MockApiBech32::new(prefix).addr_canonicalize(s),
        "bech32m" => MockApiBech32m::new(prefix).addr_canonicalize(s),
        "default" => MockApi::default().with_prefix(prefix).addr_canonicalize(s),
        _ => panic!("variant {}", variant),
    }
    .map(|c| c.as_slice().to_vec())
    .map_err(|_| ())
}

fn api_validate(variant: &str, prefix: &'static str, s: &str) -> Result<String, ()> {
    match variant {
        "bech32" => MockApiBech32::new(prefix).addr_validate(s),
        "bech32m" => MockApiBech32m::new(prefix).addr_validate(s),
        "default" => MockApi::default().with_prefix(prefix).addr_validate(s),
        _ => panic!("variant {}", variant),
    }
    .map(|a| a.to_string())
    .map_err(|_| ())
}

fn api_make(variant: &str, prefix: &'static str, name: &str) -> String {
    match variant {
        "bech32" => MockApiBech32::new(prefix).addr_make(name),
        "bech32m" => MockApiBech32m::new(prefix).addr_make(name),
        "default" => MockApi::default().with_prefix(prefix).addr_make(name),
        _ => panic!("variant {}", variant),
    }
    .to_string()
}

/// the conversion traits of src/addresses.rs for the same (variant, prefix, name); `None` = panic
fn trait_make(variant: &str, prefix: &'static str, name: &str) -> Vec<Option<String>> {
    let mut out = vec![];
    out.push(guarded(|| {
        match variant {
            "bech32" => name.into_bech32_with_prefix(prefix),
            "bech32m" => name.into_bech32m_with_prefix(prefix),
            _ => name.into_addr_with_prefix(prefix),
        }
        .to_string()
    }));
    if prefix == "cosmwasm" {
        // the prefix-less forms use DEFAULT_PREFIX = "cosmwasm"
        out.push(guarded(|| {
            match variant {
                "bech32" => name.into_bech32(),
                "bech32m" => name.into_bech32m(),
                _ => name.into_addr(),
            }
            .to_string()
        }));
    }
    out
}

fn exec_one(line: &str) -> String {
    let t: Vec<&str> = line.split_whitespace().filter(|x| !x.starts_with('#')).collect();
    if t.len() < 4 || !matches!(t[1], "bech32" | "bech32m" | "default") {
        return "bad-op".into();
    }
    let variant = t[1];
    let prefix = intern(&pdec(t[2]));
    match (t[0], t.len()) {
        ("humanize", 4) => {
            let bytes = unhex(t[3]);
            match guarded(|| api_humanize(variant, prefix, &bytes)) {
                Some(Ok(s)) => format!("ok {}", penc(&s)),
                Some(Err(())) => "err".into(),
                None => "panic".into(),
            }
        }
        ("canonicalize", 4) => {
            let s = pdec(t[3]);
            match guarded(|| api_canonicalize(variant, prefix, &s)) {
                Some(Ok(b)) => format!("ok {}", hex(&b)),
                Some(Err(())) => "err".into(),
                None => "panic".into(),
            }
        }
        ("validate", 4) => {
            let s = pdec(t[3]);
            match guarded(|| api_validate(variant, prefix, &s)) {
                Some(Ok(a)) => format!("ok {}", penc(&a)),
                Some(Err(())) => "err".into(),
                None => "panic".into(),
            }
        }
        ("make", 5) => {
            let name = pdec(t[3]);
            // the digest token is for the model (H is its parameter); make sure it is what the code hashes
            let digest = Sha256::digest(name.as_bytes()).to_vec();
            if unhex(t[4]) != digest {
                return "bad-op".into();
            }
            let direct = guarded(|| api_make(variant, prefix, &name));
            // IntoAddr / IntoBech32 / IntoBech32m must agree with the Api object's addr_make
            for t in trait_make(variant, prefix, &name) {
                if t != direct {
                    return format!("trait-mismatch {:?} {:?}", direct, t);
                }
            }
            match direct {
                Some(a) => format!("ok {}", penc(&a)),
                None => "panic".into(),
            }
        }
        _ => "bad-op".into(),
    }
}

pub fn exec_addr(lines: &[String]) -> Vec<String> {
    lines.iter().map(|l| exec_one(l)).collect()
}

// ------------------------------------------------------------------------------------------------
// generator

const VARIANTS: [&str; 3] = ["bech32", "bech32m", "default"];
const CHARSET: &[u8; 32] = b"qpzry9x8gf2tvdw0s3jn54khce6mua7l";

/// valid prefixes that are their own lowercase form (reading R4), several lengths, some with
/// characters from the edges of the allowed range and with the separator character inside
fn valid_prefixes() -> Vec<String> {
    let mut v: Vec<String> = ["a", "x", "bc", "tb", "juno", "osmo", "cosmwasm", "cosmos", "42", "a1b", "1", "11", "!~", "q-_.z", "a%b", "terra1x", "#"]
        .iter()
        .map(|s| s.to_string())
        .collect();
    v.push("p".repeat(83));
    v.push("abcdefghijklmnopqrstuvwxyz0123456789".to_string());
    v
}

/// prefixes that no encoder accepts or that make a codec reject its own addresses
fn odd_prefixes() -> Vec<String> {
    vec![
        "".to_string(),
        "JUNO".to_string(),
        "Juno".to_string(),
        "jUNO".to_string(),
        "COSMWASM".to_string(),
        "A".to_string(),
        "a b".to_string(),
        " ".to_string(),
        "ju\u{7f}".to_string(),
        "j\u{e9}".to_string(),
        "\u{1F600}".to_string(),
        "p".repeat(84),
        "P".repeat(83),
        "\u{e9}".repeat(42),
        "a\tb".to_string(),
        "X1".to_string(),
    ]
}

fn pick_len(rng: &mut Rng) -> usize {
    match rng.below(20) {
        0 => 0,
        1 => rng.range(65, 100) as usize,
        2 => rng.pick(&[20usize, 32, 64, 65, 255, 256]),
        3 => rng.pick(&[20usize, 32]),
        _ => rng.range(1, 64) as usize,
    }
}

fn rand_bytes(rng: &mut Rng, n: usize) -> Vec<u8> {
    // small alphabets most of the time so that collisions and all-zero / all-one patterns occur
    match rng.below(4) {
        0 => (0..n).map(|_| rng.pick(&[0u8, 0xff])).collect(),
        1 => (0..n).map(|_| rng.pick(&[0u8, 1, 0x80, 0xff, 0x55])).collect(),
        _ => (0..n).map(|_| rng.below(256) as u8).collect(),
    }
}

/// encodes with the bech32 crate directly (generator side only: produces inputs, never verdicts)
fn raw_encode(variant: &str, hrp: &str, fes: &[Fe32]) -> Option<String> {
    let hrp = Hrp::parse(hrp).ok()?;
    let it = fes.iter().copied();
    Some(if variant == "bech32m" {
        it.with_checksum::<Bech32m>(&hrp).chars().collect()
    } else {
        it.with_checksum::<Bech32>(&hrp).chars().collect()
    })
}

fn bytes_fes(bytes: &[u8]) -> Vec<Fe32> {
    bytes.iter().copied().bytes_to_fes().collect()
}

fn op_h(v: &str, p: &str, b: &[u8]) -> String {
    format!("humanize {} {} {}", v, penc(p), hex(b))
}
fn op_c(v: &str, p: &str, s: &str, label: &str) -> String {
    format!("canonicalize {} {} {}{}", v, penc(p), penc(s), label)
}
fn op_v(v: &str, p: &str, s: &str, label: &str) -> String {
    format!("validate {} {} {}{}", v, penc(p), penc(s), label)
}
fn op_m(v: &str, p: &str, name: &str) -> String {
    format!("make {} {} {} {}", v, penc(p), penc(name), hex(&Sha256::digest(name.as_bytes())))
}

fn other_const_variants(v: &str) -> Vec<&'static str> {
    if v == "bech32m" {
        vec!["bech32", "default"]
    } else {
        vec!["bech32m"]
    }
}

fn substitute(s: &str, i: usize, c: char) -> String {
    let mut cs: Vec<char> = s.chars().collect();
    cs[i] = c;
    cs.into_iter().collect()
}

/// all the single-character corruptions of `addr` at position `i` with substitute `c`
fn corrupt_ops(out: &mut Vec<String>, v: &str, p: &str, addr: &str, i: usize, c: char, rng: &mut Rng) {
    let orig = addr.chars().nth(i).unwrap();
    if c == orig {
        return;
    }
    let bad = substitute(addr, i, c);
    out.push(op_v(v, p, &bad, " #corrupt"));
    // `addr_canonicalize` is case-insensitive: a pure case flip may legitimately decode
    let pure_case_flip = c.to_ascii_lowercase() == orig;
    if rng.chance(1, 3) {
        out.push(op_c(v, p, &bad, if pure_case_flip { "" } else { " #corrupt" }));
    }
}

const NON_CHARSET: [char; 12] = ['1', 'b', 'i', 'o', 'B', ' ', '-', '!', '~', '\u{7f}', '\u{e9}', '\u{1F600}'];

pub fn gen_addr(rng: &mut Rng, thorough: bool) -> Vec<String> {
    let vp = valid_prefixes();
    let op = odd_prefixes();
    let mut out = vec![];
    let kind = rng.below(100);
    let v = rng.pick(&VARIANTS);
    let p = if rng.chance(1, 3) { rng.pick(&["juno", "cosmwasm", "a"]).to_string() } else { rng.pick(&vp) };
    if kind < 40 {
        // round trips, all lengths
        let n = rng.range(1, 4);
        for _ in 0..n {
            let len = if rng.chance(1, 40) { rng.range(560, 660) as usize } else { pick_len(rng) };
            let b = rand_bytes(rng, len);
            out.push(op_h(v, &p, &b));
            if let Some(s) = raw_encode(v, &p, &bytes_fes(&b)) {
                out.push(op_c(v, &p, &s, ""));
                out.push(op_v(v, &p, &s, ""));
                if rng.chance(1, 4) {
                    // the same string under the sibling API that shares the checksum constant
                    let w = rng.pick(&VARIANTS);
                    out.push(op_c(w, &p, &s, ""));
                    out.push(op_v(w, &p, &s, ""));
                }
            }
        }
    } else if kind < 65 {
        // single-character corruption of a valid address
        let len = if rng.chance(1, 5) { rng.pick(&[20usize, 32]) } else { rng.range(1, 40) as usize };
        let b = rand_bytes(rng, len);
        let p = if p.len() > 40 { "juno".to_string() } else { p };
        let addr = raw_encode(v, &p, &bytes_fes(&b)).expect("valid prefix");
        out.push(op_h(v, &p, &b));
        out.push(op_v(v, &p, &addr, ""));
        let n = addr.chars().count();
        // thorough tier: about 1 in 25 corruption cases is exhaustive (every position x every
        // substitute), i.e. some 200-250 addresses per 24 000 cases
        let exhaustive = thorough && rng.chance(1, 25);
        let full_positions: Vec<usize> = if exhaustive {
            (0..n).collect()
        } else {
            let k = 3;
            let mut ps: Vec<usize> = (0..k).map(|_| rng.below(n as u64) as usize).collect();
            ps.push(p.len()); // the separator
            ps.push(n - 1);
            ps
        };
        for i in 0..n {
            if full_positions.contains(&i) {
                for &c in CHARSET.iter() {
                    corrupt_ops(&mut out, v, &p, &addr, i, c as char, rng);
                }
                for &c in NON_CHARSET.iter() {
                    corrupt_ops(&mut out, v, &p, &addr, i, c, rng);
                }
                let o = addr.chars().nth(i).unwrap();
                corrupt_ops(&mut out, v, &p, &addr, i, o.to_ascii_uppercase(), rng);
                if (exhaustive && rng.chance(1, 8)) || (!exhaustive && rng.chance(1, 12)) {
                    // the whole ASCII range at this position
                    for c in 0u8..128 {
                        corrupt_ops(&mut out, v, &p, &addr, i, c as char, rng);
                    }
                }
            } else {
                // every position: a few substitutes
                for _ in 0..2 {
                    let c = CHARSET[rng.below(32) as usize] as char;
                    corrupt_ops(&mut out, v, &p, &addr, i, c, rng);
                }
                let c = rng.pick(&NON_CHARSET);
                corrupt_ops(&mut out, v, &p, &addr, i, c, rng);
                let o = addr.chars().nth(i).unwrap();
                corrupt_ops(&mut out, v, &p, &addr, i, o.to_ascii_uppercase(), rng);
            }
        }
    } else if kind < 75 {
        // foreign strings: other checksum constant, other prefix, case variants
        let len = pick_len(rng).min(64).max(1);
        let b = rand_bytes(rng, len);
        let addr = raw_encode(v, &p, &bytes_fes(&b)).expect("valid prefix");
        out.push(op_v(v, &p, &addr, ""));
        for w in other_const_variants(v) {
            out.push(op_v(w, &p, &addr, " #foreign"));
            out.push(op_c(w, &p, &addr, " #foreign"));
        }
        for _ in 0..3 {
            let q = rng.pick(&vp);
            if q != p {
                out.push(op_v(v, &q, &addr, " #foreign"));
                out.push(op_c(v, &q, &addr, " #foreign"));
            }
        }
        // prefix that differs only in case / odd prefixes: no label, plain correspondence
        let q = p.to_ascii_uppercase();
        out.push(op_v(v, &q, &addr, ""));
        out.push(op_c(v, &q, &addr, ""));
        out.push(op_v(v, &q, &addr.to_ascii_uppercase(), ""));
        out.push(op_c(v, &q, &addr.to_ascii_uppercase(), ""));
        let q = rng.pick(&op);
        out.push(op_v(v, &q, &addr, ""));
        out.push(op_c(v, &q, &addr, ""));
        // whole address in upper case: canonicalize may accept, validate must not return another string
        out.push(op_v(v, &p, &addr.to_ascii_uppercase(), ""));
        out.push(op_c(v, &p, &addr.to_ascii_uppercase(), ""));
        // mixed case: flip one letter (only if another lowercase letter remains)
        let letters: Vec<usize> = addr.char_indices().filter(|(_, c)| c.is_ascii_lowercase()).map(|(i, _)| i).collect();
        if letters.len() >= 2 {
            for _ in 0..3 {
                let i = rng.pick(&letters);
                let c = addr.chars().nth(i).unwrap().to_ascii_uppercase();
                let m = substitute(&addr, i, c);
                out.push(op_v(v, &p, &m, " #mixed"));
                out.push(op_c(v, &p, &m, " #mixed"));
            }
            // upper-case data part with lower-case prefix and the other way round
            let (h, d) = addr.split_at(p.len());
            if h.chars().any(|c| c.is_ascii_lowercase()) && d.chars().any(|c| c.is_ascii_lowercase()) {
                let m = format!("{}{}", h, d.to_ascii_uppercase());
                out.push(op_v(v, &p, &m, " #mixed"));
                out.push(op_c(v, &p, &m, " #mixed"));
                let m = format!("{}{}", h.to_ascii_uppercase(), d);
                out.push(op_v(v, &p, &m, " #mixed"));
                out.push(op_c(v, &p, &m, " #mixed"));
            }
        }
    } else if kind < 83 {
        // valid checksum, non-canonical payload: non-zero padding bits, surplus symbols
        let len = pick_len(rng).min(64);
        let b = rand_bytes(rng, len);
        let fes = bytes_fes(&b);
        let pad = (fes.len() * 5) - b.len() * 8;
        let mut variants: Vec<Vec<Fe32>> = vec![];
        if pad > 0 && !fes.is_empty() {
            for _ in 0..2 {
                let mut f = fes.clone();
                let last = f.len() - 1;
                let noise = rng.range(1, (1u64 << pad) - 1) as u8;
                f[last] = Fe32::try_from(f[last].to_u8() | noise).unwrap();
                variants.push(f);
            }
        }
        for extra in 1..=3usize {
            // surplus symbols (zero or not): padding of 5 or more bits, or a shorter byte string
            let mut f = fes.clone();
            for _ in 0..extra {
                f.push(Fe32::try_from(if rng.chance(1, 2) { 0u8 } else { rng.below(32) as u8 }).unwrap());
            }
            variants.push(f);
        }
        if fes.len() > 1 {
            let mut f = fes.clone();
            f.pop();
            variants.push(f);
        }
        out.push(op_h(v, &p, &b));
        for f in variants {
            if let Some(s) = raw_encode(v, &p, &f) {
                // is it really non-canonical? (dropping a symbol may give the canonical form of fewer bytes)
                let dec: Vec<u8> = f.iter().copied().fes_to_bytes().collect();
                let canon = bytes_fes(&dec) == f;
                out.push(op_c(v, &p, &s, ""));
                out.push(op_v(v, &p, &s, if canon { "" } else { " #malformed" }));
            }
        }
    } else if kind < 90 {
        // odd prefixes on every entry point
        let q = rng.pick(&op);
        let len = pick_len(rng).min(64);
        let b = rand_bytes(rng, len);
        out.push(op_h(v, &q, &b));
        out.push(op_m(v, &q, "alice"));
        let addr = raw_encode(v, &p, &bytes_fes(&b)).expect("valid prefix");
        out.push(op_c(v, &q, &addr, ""));
        out.push(op_v(v, &q, &addr, ""));
        if let Some(s) = raw_encode(v, &q, &bytes_fes(&b)) {
            // e.g. an upper-case prefix: the encoder emits lower case
            out.push(op_c(v, &q, &s, ""));
            out.push(op_v(v, &q, &s, ""));
            out.push(op_c(v, &q, &s.to_ascii_uppercase(), ""));
            out.push(op_v(v, &q, &s.to_ascii_uppercase(), ""));
        }
        // boundary of the code length: prefix of 83 with long payloads
        let long = "p".repeat(83);
        for n in [580usize, 581, 582, 583, 584] {
            let b = vec![rng.below(256) as u8; n];
            out.push(op_h(v, &long, &b));
            if let Some(s) = raw_encode(v, &long, &bytes_fes(&b)) {
                out.push(op_c(v, &long, &s, ""));
            }
        }
    } else if kind < 95 {
        // junk
        let addr = raw_encode(v, &p, &bytes_fes(&rand_bytes(rng, 20))).expect("valid prefix");
        let mut junk: Vec<String> = vec![
            "".into(),
            "1".into(),
            p.clone(),
            format!("{}1", p),
            format!("{}1qqqqq", p),
            format!("{}1qqqqqq", p),
            format!("{}qqqqqqqq", p),
            addr[..addr.len() - 1].to_string(),
            format!("{}q", addr),
            format!("{} ", addr),
            format!(" {}", addr),
            format!("{}1{}", p, "q".repeat(1100)),
            addr.replace('1', ""),
            "foobar123".into(),
            "FOOBAR123".into(),
            "\u{e9}1qqqqqq".into(),
        ];
        // over-long but otherwise valid: payload that exceeds the code length
        let big = vec![0u8; 640];
        let fes = bytes_fes(&big);
        if let Some(s) = raw_encode(v, &p, &fes) {
            junk.push(s);
        }
        // exactly at / one over the code length
        let total_fixed = p.len() + 1 + 6;
        if total_fixed < 1000 {
            for total in [1022usize, 1023, 1024, 1025] {
                let nf = total - total_fixed;
                let f: Vec<Fe32> = (0..nf).map(|_| Fe32::try_from(rng.below(32) as u8).unwrap()).collect();
                if let Some(s) = raw_encode(v, &p, &f) {
                    junk.push(s);
                }
            }
        }
        for j in junk {
            out.push(op_c(v, &p, &j, ""));
            out.push(op_v(v, &p, &j, ""));
        }
    } else {
        // names -> addresses; few names so that repetitions occur
        let names = ["alice", "bob", "", "a", "b", "owner", "Alice", "contract0", "\u{e9}", "a b", "alic\u{65}"];
        let n = rng.range(3, 8);
        for _ in 0..n {
            let name = rng.pick(&names);
            let w = if rng.chance(2, 3) { v } else { rng.pick(&VARIANTS) };
            let q = if rng.chance(2, 3) { p.clone() } else { rng.pick(&vp) };
            out.push(op_m(w, &q, name));
            // the pair (prefix + first letter, rest of the name) spells the same text when prefix and name are glued together
            if name.len() >= 2 && name.is_ascii() && name.chars().next().map(|c| c.is_ascii_lowercase()).unwrap_or(false) && rng.chance(1, 2) {
                let glued = format!("{}{}", q, &name[..1]);
                out.push(op_m(w, &glued, &name[1..]));
                out.push(op_m(w, &q, name));
            }
            let d = Sha256::digest(name.as_bytes()).to_vec();
            if let Some(s) = raw_encode(w, &q, &bytes_fes(&d)) {
                // a NAME that is itself a valid address (of this or another codec / prefix) is hashed like any other name
                if rng.chance(1, 2) {
                    out.push(op_m(w, &q, &s));
                    out.push(op_m(rng.pick(&VARIANTS), &q, &s));
                }
                out.push(op_v(w, &q, &s, ""));
                out.push(op_c(w, &q, &s, ""));
                out.push(op_h(w, &q, &d));
            }
        }
    }
    out
}
