//! Engine `staking` (C14, C15, C16): StakeKeeper + DistributionKeeper driven through the real `App`.
//!
//! Addresses in the ops file are symbols: `d1 d2 d3 w1 …` are `addr_make(symbol)` accounts, `pool` is the staking
//! module account ("staking_module"), `bad` is a string rejected by `addr_validate`; validators `v1 v2 …` are the
//! strings `val_<symbol>`. Everything printed is translated back to symbols. Times are printed relative to the
//! block time / height at the start of the case.
//!
//! `sdump` decodes the module state straight from the raw root storage (namespaces "staking", "distribution",
//! "bank"; cw-storage-plus Map / Item / Deque key layout; JSON values) with mirror serde types — no hook in /repo is
//! needed. Every raw key must fall into a known slot, otherwise the dump carries a `?…` marker.
use crate::util::*;
use cosmwasm_std::{
    coin, from_json, Addr, Coin, CosmosMsg, Decimal, DistributionMsg, Order, StakingMsg, Storage, Timestamp,
    Uint128, Validator,
};
use cw_multi_test::{App, BankSudo, Executor, Module, StakingInfo, StakingSudo, SudoMsg};
use serde::Deserialize;
use std::collections::BTreeMap;

const YEAR: u64 = 60 * 60 * 24 * 365;
const OTHER: &str = "OTHER";

// ------------------------------------------------------------------------------------------------
// mirror types of the private records in /repo/src/staking.rs

#[derive(Deserialize)]
struct MShares {
    stake: Decimal,
    rewards: Decimal,
}

#[derive(Deserialize)]
struct MValidatorInfo {
    stakers: Vec<Addr>,
    stake: Uint128,
    last_rewards_calculation: Timestamp,
}

#[derive(Deserialize)]
struct MUnbonding {
    delegator: Addr,
    validator: String,
    amount: Uint128,
    payout_at: Timestamp,
}

#[derive(Deserialize)]
struct MStakingInfo {
    bonded_denom: String,
    unbonding_time: u64,
    apr: Decimal,
}

// ------------------------------------------------------------------------------------------------

struct Ctx {
    app: App,
    t0: u64,
    h0: u64,
    denom: String,
    dead: bool,
    /// real string -> symbol
    back: BTreeMap<String, String>,
}

impl Ctx {
    fn new() -> Self {
        let app = App::default();
        let b = app.block_info();
        Ctx { t0: b.time.seconds(), h0: b.height, app, denom: "TOKEN".into(), dead: false, back: BTreeMap::new() }
    }

    fn addr(&mut self, sym: &str) -> String {
        let real = match sym {
            "pool" => "staking_module".to_string(),
            "bad" => "bad".to_string(),
            _ => self.app.api().addr_make(sym).to_string(),
        };
        self.back.insert(real.clone(), sym.to_string());
        real
    }

    fn val(&mut self, sym: &str) -> String {
        let real = format!("val_{}", sym);
        self.back.insert(real.clone(), sym.to_string());
        real
    }

    fn sym(&self, real: &str) -> String {
        self.back.get(real).cloned().unwrap_or_else(|| format!("?{}", real))
    }

    /// times are printed as they are: nanoseconds (the model's clock is the App's block time)
    fn rel(&self, t: Timestamp) -> i128 {
        let _ = self.t0;
        t.nanos() as i128
    }

    fn pool_balance(&self) -> u128 {
        raw_balance(self.app.storage(), "staking_module", &self.denom)
    }

    fn balance(&mut self, sym: &str) -> String {
        if sym == "pool" {
            return self.pool_balance().to_string();
        }
        let a = self.addr(sym);
        if sym == "bad" {
            // the public query rejects the address; the ledger has no such account
            return raw_balance(self.app.storage(), &a, &self.denom).to_string();
        }
        match self.app.wrap().query_balance(a, self.denom.clone()) {
            Ok(c) => c.amount.u128().to_string(),
            Err(_) => "err".into(),
        }
    }

    fn q_deleg(&mut self, d: &str, v: &str) -> Result<Option<(u128, u128)>, ()> {
        let a = self.addr(d);
        let va = self.val(v);
        match self.app.wrap().query_delegation(a, va) {
            Ok(None) => Ok(None),
            Ok(Some(fd)) => {
                let rew = match fd.accumulated_rewards.as_slice() {
                    [] => 0,
                    [c] if c.denom == fd.amount.denom => c.amount.u128(),
                    _ => return Err(()),
                };
                Ok(Some((fd.amount.amount.u128(), rew)))
            }
            Err(_) => Err(()),
        }
    }
}

fn lp(name: &[u8]) -> Vec<u8> {
    let mut v = vec![(name.len() >> 8) as u8, (name.len() & 0xff) as u8];
    v.extend_from_slice(name);
    v
}

fn raw_balance(st: &dyn Storage, addr: &str, denom: &str) -> u128 {
    let mut k = lp(b"bank");
    k.extend(lp(b"balances"));
    k.extend_from_slice(addr.as_bytes());
    match st.get(&k) {
        None => 0,
        Some(v) => {
            let coins: Vec<Coin> = from_json(&v).expect("balance json");
            coins.iter().filter(|c| c.denom == denom).map(|c| c.amount.u128()).sum()
        }
    }
}

fn strip<'a>(k: &'a [u8], pfx: &[u8]) -> Option<&'a [u8]> {
    if k.len() >= pfx.len() && &k[..pfx.len()] == pfx {
        Some(&k[pfx.len()..])
    } else {
        None
    }
}

fn s(b: &[u8]) -> String {
    String::from_utf8_lossy(b).to_string()
}

fn sdump(cx: &Ctx) -> String {
    let st = cx.app.storage();
    let staking = lp(b"staking");
    let distr = lp(b"distribution");
    let bank = lp(b"bank");
    let mut info: Option<MStakingInfo> = None;
    let mut vals: BTreeMap<u32, Validator> = BTreeMap::new();
    let mut vmap: BTreeMap<String, Validator> = BTreeMap::new();
    let mut stakes: Vec<((String, String), MShares)> = vec![];
    let mut vinfo: Vec<(String, MValidatorInfo)> = vec![];
    let mut queue: Vec<MUnbonding> = vec![];
    let mut wd: Vec<(String, String)> = vec![];
    let mut odd: Vec<String> = vec![];
    for (k, v) in st.range(None, None, Order::Ascending) {
        if let Some(r) = strip(&k, &staking) {
            if r == b"staking_info" {
                info = Some(from_json(&v).expect("staking_info"));
            } else if r == b"unbonding_queue" {
                queue = from_json(&v).expect("queue");
            } else if let Some(r) = strip(r, &lp(b"stakes")) {
                if r.len() < 2 {
                    odd.push(hex(&k));
                    continue;
                }
                let n = ((r[0] as usize) << 8) | r[1] as usize;
                if r.len() < 2 + n {
                    odd.push(hex(&k));
                    continue;
                }
                let d = s(&r[2..2 + n]);
                let va = s(&r[2 + n..]);
                stakes.push(((cx.sym(&d), cx.sym(&va)), from_json(&v).expect("shares")));
            } else if let Some(r) = strip(r, &lp(b"validator_map")) {
                vmap.insert(s(r), from_json(&v).expect("validator"));
            } else if let Some(r) = strip(r, &lp(b"validator_info")) {
                vinfo.push((cx.sym(&s(r)), from_json(&v).expect("validator_info")));
            } else if let Some(r) = strip(r, &lp(b"validators")) {
                if r == b"h" || r == b"t" {
                    // deque head / tail counters
                } else if r.len() == 4 {
                    vals.insert(u32::from_be_bytes([r[0], r[1], r[2], r[3]]), from_json(&v).expect("validator"));
                } else {
                    odd.push(hex(&k));
                }
            } else {
                odd.push(hex(&k));
            }
        } else if let Some(r) = strip(&k, &distr) {
            if let Some(r) = strip(r, &lp(b"withdraw_address")) {
                let a: Addr = from_json(&v).expect("withdraw addr");
                wd.push((cx.sym(&s(r)), cx.sym(a.as_str())));
            } else {
                odd.push(hex(&k));
            }
        } else if let Some(r) = strip(&k, &bank) {
            if strip(r, &lp(b"balances")).is_none() {
                odd.push(hex(&k));
            }
        } else {
            odd.push(hex(&k));
        }
    }
    // VALIDATOR_MAP and the VALIDATORS deque must hold the same records
    let dq: Vec<&Validator> = vals.values().collect();
    if dq.len() != vmap.len() || dq.iter().any(|v| vmap.get(&v.address) != Some(*v)) {
        odd.push("validator_map!=validators".into());
    }
    stakes.sort_by(|a, b| a.0.cmp(&b.0));
    vinfo.sort_by(|a, b| a.0.cmp(&b.0));
    wd.sort();
    let (denom, unb, apr) = match &info {
        Some(i) => (i.bonded_denom.clone(), i.unbonding_time, i.apr),
        None => ("TOKEN".to_string(), 60, Decimal::percent(10)),
    };
    let f = |xs: Vec<String>| format!("[{}]", xs.join(","));
    let mut out = format!(
        "info={}:{}:{} vals={} stakes={} vinfo={} queue={} wd={} t={} h={} pool={}",
        denom,
        unb,
        apr.atomics(),
        f(dq.iter().map(|v| format!("{}:{}", cx.sym(&v.address), v.commission.atomics())).collect()),
        f(stakes
            .iter()
            .map(|((d, v), sh)| format!("{}/{}:{}:{}", d, v, sh.stake.atomics(), sh.rewards.atomics()))
            .collect()),
        f(vinfo
            .iter()
            .map(|(v, i)| {
                let mut st: Vec<String> = i.stakers.iter().map(|a| cx.sym(a.as_str())).collect();
                st.sort();
                format!("{}:{}:{}:{}", v, i.stake.u128(), cx.rel(i.last_rewards_calculation), st.join(";"))
            })
            .collect()),
        f(queue
            .iter()
            .map(|u| {
                format!("{}/{}:{}:{}", cx.sym(u.delegator.as_str()), cx.sym(&u.validator), u.amount.u128(), cx.rel(u.payout_at))
            })
            .collect()),
        f(wd.iter().map(|(a, b)| format!("{}>{}", a, b)).collect()),
        cx.rel(cx.app.block_info().time),
        cx.app.block_info().height as i128 - cx.h0 as i128,
        raw_balance(st, "staking_module", &denom),
    );
    if !odd.is_empty() {
        out.push_str(&format!(" ?odd={}", odd.join(",")));
    }
    out
}

fn res<T, E>(r: Result<T, E>) -> String {
    match r {
        Ok(_) => "ok".into(),
        Err(_) => "err".into(),
    }
}

fn num(t: &str) -> Option<u128> {
    t.parse::<u128>().ok()
}

fn exec_op(cx: &mut Ctx, t: &[&str]) -> String {
    match t {
        ["setup", denom, unb, apr] => {
            let (Some(u), Some(a)) = (num(unb), num(apr)) else { return "bad-op".into() };
            let info = StakingInfo { bonded_denom: denom.to_string(), unbonding_time: u as u64, apr: Decimal::new(Uint128::new(a)) };
            let r = cx.app.init_modules(|router, _api, storage| router.staking.setup(storage, info));
            if r.is_ok() {
                cx.denom = denom.to_string();
            }
            res(r)
        }
        ["validator", v, comm] => {
            let Some(c) = num(comm) else { return "bad-op".into() };
            let va = cx.val(v);
            let block = cx.app.block_info();
            let val = Validator::create(va, Decimal::new(Uint128::new(c)), Decimal::one(), Decimal::one());
            res(cx.app.init_modules(|router, api, storage| router.staking.add_validator(api, storage, &block, val)))
        }
        ["fund", a, n] | ["fund2", a, n] => {
            let Some(n) = num(n) else { return "bad-op".into() };
            let denom = if t[0] == "fund" { cx.denom.clone() } else { OTHER.to_string() };
            let to = cx.addr(a);
            res(cx.app.sudo(SudoMsg::Bank(BankSudo::Mint { to_address: to, amount: vec![coin(n, denom)] })))
        }
        ["deleg", a, v, n, rest @ ..] => {
            let Some(n) = num(n) else { return "bad-op".into() };
            let denom = rest.first().map(|x| x.to_string()).unwrap_or(cx.denom.clone());
            let (sender, va) = (cx.addr(a), cx.val(v));
            let msg: CosmosMsg = StakingMsg::Delegate { validator: va, amount: coin(n, denom) }.into();
            res(cx.app.execute(Addr::unchecked(sender), msg))
        }
        ["undeleg", a, v, n, rest @ ..] => {
            let Some(n) = num(n) else { return "bad-op".into() };
            let denom = rest.first().map(|x| x.to_string()).unwrap_or(cx.denom.clone());
            let (sender, va) = (cx.addr(a), cx.val(v));
            let msg: CosmosMsg = StakingMsg::Undelegate { validator: va, amount: coin(n, denom) }.into();
            res(cx.app.execute(Addr::unchecked(sender), msg))
        }
        ["redeleg", a, v1, v2, n, rest @ ..] => {
            let Some(n) = num(n) else { return "bad-op".into() };
            let denom = rest.first().map(|x| x.to_string()).unwrap_or(cx.denom.clone());
            let (sender, s1, s2) = (cx.addr(a), cx.val(v1), cx.val(v2));
            let msg: CosmosMsg =
                StakingMsg::Redelegate { src_validator: s1, dst_validator: s2, amount: coin(n, denom) }.into();
            res(cx.app.execute(Addr::unchecked(sender), msg))
        }
        ["withdraw", a, v] => {
            let (sender, va) = (cx.addr(a), cx.val(v));
            let msg: CosmosMsg = DistributionMsg::WithdrawDelegatorReward { validator: va }.into();
            res(cx.app.execute(Addr::unchecked(sender), msg))
        }
        ["setwd", a, b] => {
            let (sender, to) = (cx.addr(a), cx.addr(b));
            let msg: CosmosMsg = DistributionMsg::SetWithdrawAddress { address: to }.into();
            res(cx.app.execute(Addr::unchecked(sender), msg))
        }
        ["rb", kind, a, rest @ ..] => {
            // the staking / distribution message of `a`, followed in ONE execute_multi by a bank transfer that cannot
            // succeed: the transaction fails as a whole and nothing of the first message may remain (storage or otherwise)
            let sender = cx.addr(a);
            let first: Option<CosmosMsg> = match (*kind, rest) {
                ("setwd", [b]) => Some(DistributionMsg::SetWithdrawAddress { address: cx.addr(b) }.into()),
                ("withdraw", [v]) => Some(DistributionMsg::WithdrawDelegatorReward { validator: cx.val(v) }.into()),
                ("deleg", [v, n]) => num(n).map(|n| StakingMsg::Delegate { validator: cx.val(v), amount: coin(n, cx.denom.clone()) }.into()),
                ("undeleg", [v, n]) => num(n).map(|n| StakingMsg::Undelegate { validator: cx.val(v), amount: coin(n, cx.denom.clone()) }.into()),
                _ => None,
            };
            let Some(first) = first else { return "bad-op".into() };
            let impossible: CosmosMsg = cosmwasm_std::BankMsg::Send { to_address: sender.clone(), amount: vec![coin(1_000_000_000_000_000_000_000_000_000u128, cx.denom.clone())] }.into();
            res(cx.app.execute_multi(Addr::unchecked(sender), vec![first, impossible]))
        }
        ["slash-direct", v, p] => {
            // the staking module's sudo entry point called directly on the live storage (as an init / setup function may do):
            // there is no write cache around it, so "rejected without effect" has to be the module's own doing
            let Some(p) = num(p) else { return "bad-op".into() };
            let va = cx.val(v);
            let block = cx.app.block_info();
            let msg = StakingSudo::Slash { validator: va, percentage: Decimal::new(Uint128::new(p)) };
            res(cx.app.init_modules(|router, api, storage| router.staking.sudo(api, storage, router, &block, msg)))
        }
        ["slash", v, p] => {
            let Some(p) = num(p) else { return "bad-op".into() };
            let va = cx.val(v);
            res(cx.app.sudo(StakingSudo::Slash { validator: va, percentage: Decimal::new(Uint128::new(p)) }.into()))
        }
        ["advance", n, rest @ ..] if rest.len() <= 2 => {
            // advance SECS [upd|set [NANOS]]: through App::update_block or App::set_block; NANOS extra nanoseconds
            let Some(n) = num(n) else { return "bad-op".into() };
            let set = rest.first().map(|m| *m == "set").unwrap_or(false);
            let nanos = match rest.get(1) {
                Some(x) => match num(x) {
                    Some(v) if v < 1_000_000_000 => v as u64,
                    _ => return "bad-op".into(),
                },
                None => 0,
            };
            if set {
                let mut b = cx.app.block_info();
                b.time = b.time.plus_seconds(n as u64).plus_nanos(nanos);
                b.height += 1;
                cx.app.set_block(b);
            } else {
                cx.app.update_block(|b| {
                    b.time = b.time.plus_seconds(n as u64).plus_nanos(nanos);
                    b.height += 1;
                });
            }
            "ok".into()
        }
        ["q-deleg", a, v] => match cx.q_deleg(a, v) {
            Ok(None) => "none".into(),
            Ok(Some((amt, rew))) => format!("some {} {}", amt, rew),
            Err(_) => "err".into(),
        },
        ["q-all", a] => {
            let ad = cx.addr(a);
            match cx.app.wrap().query_all_delegations(ad) {
                Ok(ds) => {
                    let xs: Vec<String> =
                        ds.iter().map(|d| format!("{}:{}", cx.sym(&d.validator), d.amount.amount.u128())).collect();
                    format!("[{}]", xs.join(","))
                }
                Err(_) => "err".into(),
            }
        }
        ["bal", a] => cx.balance(a),
        ["obs", ds, vs] => {
            let ds: Vec<&str> = ds.split(',').collect();
            let vs: Vec<&str> = vs.split(',').collect();
            let mut pairs = vec![];
            for d in &ds {
                for v in &vs {
                    let r = match cx.q_deleg(d, v) {
                        Ok(None) => "none".to_string(),
                        Ok(Some((a, r))) => format!("{}:{}", a, r),
                        Err(_) => "err".to_string(),
                    };
                    pairs.push(format!("{}/{}={}", d, v, r));
                }
            }
            let mut bals = vec![];
            for d in ds.iter().chain(["pool"].iter()) {
                bals.push(format!("{}={}", d, cx.balance(d)));
            }
            format!("{} | {}", pairs.join(" "), bals.join(" "))
        }
        ["sdump"] => sdump(cx),
        ["dec", f, a, b] => {
            // the cosmwasm-std operators the module uses, on raw atomics (a panic is reported, the case goes on)
            let (Some(a), Some(b)) = (num(a), num(b)) else { return "bad-op".into() };
            let (f, da, db) = (f.to_string(), Decimal::new(Uint128::new(a)), Decimal::new(Uint128::new(b)));
            let r = guarded(move || match f.as_str() {
                "mul" => (da * db).atomics().u128(),
                "div" => (da / db).atomics().u128(),
                "divn" => (da / Uint128::new(b)).atomics().u128(),
                "mulfloor" => Uint128::new(a).mul_floor(db).u128(),
                "ratio" => Decimal::from_ratio(a, 1u128).atomics().u128(),
                "floor" => Uint128::new(1).mul_floor(da).u128(),
                "add" => (da + db).atomics().u128(),
                "sub" => (da - db).atomics().u128(),
                _ => u128::MAX,
            });
            match r {
                Some(x) => x.to_string(),
                None => "panic".into(),
            }
        }
        _ => "bad-op".into(),
    }
}

/// hash of the complete raw root storage in key order (implementation-only observation, `!h=…`)
fn rawhash(cx: &Ctx) -> String {
    use sha2::{Digest, Sha256};
    let mut h = Sha256::new();
    for (k, v) in cx.app.storage().range(None, None, Order::Ascending) {
        h.update((k.len() as u64).to_be_bytes());
        h.update(&k);
        h.update((v.len() as u64).to_be_bytes());
        h.update(&v);
    }
    let d = h.finalize();
    format!("!h={}", hex(&d[..12]))
}

/// Slices `staking` and `staking-det`. `app <n>` switches the current `App` instance (a fresh one the first time `n`
/// is named; ops before any `app` line go to instance 1); every instance has its own clock and its own "dead" flag.
pub fn exec_staking(lines: &[String]) -> Vec<String> {
    let mut apps: BTreeMap<String, Ctx> = BTreeMap::new();
    let mut cur = "1".to_string();
    let mut out = Vec::with_capacity(lines.len());
    for line in lines {
        let t: Vec<&str> = line.split_whitespace().collect();
        if let ["app", n] = t.as_slice() {
            cur = n.to_string();
            out.push("ok".to_string());
            continue;
        }
        let cx = apps.entry(cur.clone()).or_insert_with(Ctx::new);
        if cx.dead {
            out.push("dead".to_string());
            continue;
        }
        if let ["rawhash"] = t.as_slice() {
            out.push(rawhash(cx));
            continue;
        }
        match guarded(|| exec_op(cx, &t)) {
            Some(o) => out.push(o),
            None => {
                cx.dead = true;
                out.push("panic".to_string());
            }
        }
    }
    out
}

// ------------------------------------------------------------------------------------------------
// generator

const D: [&str; 3] = ["d1", "d2", "d3"];
const OBS_D: &str = "d1,d2,d3,w1";
const OBS_V: &str = "v1,v2,v3";

struct Gen<'a> {
    rng: &'a mut Rng,
    out: Vec<String>,
    unb: u64,
    nvals: usize,
    /// block time relative to the start: whole seconds and the sub-second part (the default block starts at .879305533)
    now: (u64, u64),
    /// payout times (whole second, sub-second part) of the undelegations issued so far
    pending: Vec<(u64, u64)>,
    /// sub-second block times are generated in this case
    subsec: bool,
    /// rough bookkeeping of whole delegated amounts (ignores slashes; only steers choices)
    del: BTreeMap<(usize, usize), u64>,
}

impl<'a> Gen<'a> {
    fn op(&mut self, s: String) {
        if s.starts_with("undeleg") {
            self.pending.push((self.now.0 + self.unb, self.now.1));
        }
        self.out.push(s);
        self.out.push(format!("obs {} {}", OBS_D, OBS_V));
        self.out.push("sdump".to_string());
    }

    /// `advance`: through update_block or set_block, sometimes with a sub-second part (rewards count whole seconds of
    /// block time, the unbonding queue compares nanoseconds — the model does both)
    fn advance(&mut self, secs: u64) {
        const NS: u64 = 1_000_000_000;
        let mode = if self.rng.chance(1, 4) { "set" } else { "upd" };
        let nanos = if self.subsec && self.rng.chance(1, 2) {
            match self.rng.below(6) {
                0 => 1,
                1 => NS - self.now.1,          // lands exactly on a whole second
                2 => NS - self.now.1 - 1,      // one nanosecond before it
                3 => 500_000_000,
                4 => NS - 1,
                _ => self.rng.range(1, NS - 1),
            }
        } else {
            0
        } % NS;
        let f = self.now.1 + nanos;
        self.now = (self.now.0 + secs + f / NS, f % NS);
        if nanos == 0 && mode == "upd" {
            self.op(format!("advance {}", secs));
        } else {
            self.op(format!("advance {} {} {}", secs, mode, nanos));
        }
    }

    fn dv(&mut self) -> (usize, usize) {
        (self.rng.below(3) as usize, self.rng.below(self.nvals as u64) as usize)
    }

    /// a (delegator, validator) pair that probably holds a delegation, if any
    fn held(&mut self) -> Option<(usize, usize)> {
        let ks: Vec<(usize, usize)> = self.del.iter().filter(|(_, n)| **n > 0).map(|(k, _)| *k).collect();
        if ks.is_empty() {
            None
        } else {
            Some(self.rng.pick(&ks))
        }
    }

    fn secs(&mut self) -> u64 {
        let u = self.unb;
        match self.rng.below(18) {
            0 => 0,
            1 => 1,
            2 => u.saturating_sub(1),
            3 | 4 => u,
            5 => u + 1,
            6 => 2 * u,
            7 | 8 => YEAR / 3,
            9 | 10 => YEAR,
            11 => 2 * YEAR,
            12 => 1234567,
            13 => 31,
            14 => self.rng.range(1, 100),
            _ => self.rng.range(1, YEAR),
        }
    }

    fn pct(&mut self) -> u128 {
        const E: u128 = 1_000_000_000_000_000_000;
        match self.rng.below(12) {
            0 | 1 => 0,
            2 => 333_333_333_333_333_333,
            3 | 4 => E / 2,
            5 => E,
            6 => E / 10,
            7 => E / 4,
            8 => 1,
            9 => E - 1,
            10 => 666_666_666_666_666_667,
            _ => self.rng.range(1, 99) as u128 * (E / 100),
        }
    }

    fn valid_op(&mut self) {
        let k = self.rng.below(100);
        if k < 25 {
            let (d, v) = self.dv();
            let n = if self.rng.chance(2, 3) { self.rng.range(1, 10) } else { self.rng.range(5, 40) };
            *self.del.entry((d, v)).or_insert(0) += n;
            self.op(format!("deleg {} v{} {}", D[d], v + 1, n));
        } else if k < 40 {
            match self.held() {
                Some((d, v)) => {
                    let have = self.del[&(d, v)];
                    let n = if self.rng.chance(1, 3) { have } else { self.rng.range(1, have) };
                    *self.del.get_mut(&(d, v)).unwrap() -= n;
                    self.op(format!("undeleg {} v{} {}", D[d], v + 1, n));
                }
                None => self.valid_op(),
            }
        } else if k < 50 {
            match self.held() {
                Some((d, v)) => {
                    let have = self.del[&(d, v)];
                    let n = if self.rng.chance(1, 4) { have } else { self.rng.range(1, have) };
                    let v2 = self.rng.below(self.nvals as u64) as usize;
                    *self.del.get_mut(&(d, v)).unwrap() -= n;
                    *self.del.entry((d, v2)).or_insert(0) += n;
                    self.op(format!("redeleg {} v{} v{} {}", D[d], v + 1, v2 + 1, n));
                }
                None => self.valid_op(),
            }
        } else if k < 60 {
            let (d, v) = match self.held() {
                Some(x) if self.rng.chance(4, 5) => x,
                _ => self.dv(),
            };
            self.op(format!("withdraw {} v{}", D[d], v + 1));
        } else if k < 64 {
            let d = self.rng.below(3) as usize;
            let to = self.rng.pick(&["w1", "w1", "d1", "d2", "d3"]);
            self.op(format!("setwd {} {}", D[d], to));
        } else if k < 68 {
            // a staking / distribution message inside a transaction that fails afterwards: no effect of any kind
            let (d, v) = match self.held() {
                Some(x) if self.rng.chance(2, 3) => x,
                _ => self.dv(),
            };
            let op = match self.rng.below(6) {
                0 | 1 | 2 => format!("rb setwd {} {}", D[d], self.rng.pick(&["w1", "d1", "d2", "d3"])),
                3 => format!("rb withdraw {} v{}", D[d], v + 1),
                4 => format!("rb deleg {} v{} {}", D[d], v + 1, self.rng.range(1, 5)),
                _ => format!("rb undeleg {} v{} 1", D[d], v + 1),
            };
            self.op(op);
            if self.rng.chance(1, 2) {
                self.op(format!("withdraw {} v{}", D[d], v + 1));
            }
        } else if k < 80 {
            let v = self.rng.below(self.nvals as u64) as usize;
            let p = self.pct();
            let how = if self.rng.chance(1, 5) { "slash-direct" } else { "slash" };
            self.op(format!("{} v{} {}", how, v + 1, p));
        } else if k < 83 && self.nvals < 4 && self.rng.chance(1, 3) {
            // a validator registered AFTER genesis, possibly while unbondings are pending: nothing else may change
            const E: u128 = 1_000_000_000_000_000_000;
            let c = self.rng.pick(&[0, E / 10, E / 20]);
            self.nvals += 1;
            let n = self.nvals;
            self.op(format!("validator v{} {}", n, c));
        } else {
            let s = self.secs();
            self.advance(s);
        }
    }

    fn malformed_op(&mut self) {
        const E: u128 = 1_000_000_000_000_000_000;
        let (d, v) = self.dv();
        let n = self.rng.range(1, 5);
        let s = match self.rng.below(16) {
            0 => format!("deleg {} v{} 0", D[d], v + 1),
            1 => format!("undeleg {} v{} 0", D[d], v + 1),
            2 => format!("deleg {} v{} {} {}", D[d], v + 1, n, OTHER),
            3 => format!("undeleg {} v{} {} {}", D[d], v + 1, n, OTHER),
            4 => format!("redeleg {} v{} v{} {} {}", D[d], v + 1, (v + 1) % self.nvals + 1, n, OTHER),
            5 => format!("deleg {} v9 {}", D[d], n),
            6 => format!("undeleg {} v9 {}", D[d], n),
            7 => format!("redeleg {} v{} v9 {}", D[d], v + 1, n),
            8 => format!("redeleg {} v9 v{} {}", D[d], v + 1, n),
            9 => {
                let have = self.del.get(&(d, v)).copied().unwrap_or(0);
                format!("undeleg {} v{} {}", D[d], v + 1, have + self.rng.range(1, 3))
            }
            10 => {
                let have = self.del.get(&(d, v)).copied().unwrap_or(0);
                format!("redeleg {} v{} v{} {}", D[d], v + 1, (v + 1) % self.nvals + 1, have + self.rng.range(1, 3))
            }
            11 => format!("{} v{} {}", self.rng.pick(&["slash", "slash", "slash-direct"]), v + 1, self.rng.pick(&[E + 1, 2 * E, E + E / 2, E + E / 200])),
            12 => format!("{} v9 {}", self.rng.pick(&["slash", "slash", "slash-direct"]), self.rng.pick(&[0, E / 2, E])),
            13 => self.rng.pick(&[format!("setwd {} bad", D[d]), format!("setwd {} pool", D[d]), format!("withdraw {} v9", D[d])]),
            14 => self.rng.pick(&[
                format!("deleg w1 v{} {}", v + 1, n),
                format!("deleg {} v{} 100000", D[d], v + 1),
                format!("redeleg {} v{} v{} 0", D[d], v + 1, (v + 1) % self.nvals + 1),
            ]),
            _ => {
              let qa = self.rng.pick(&["bad", "d1", "w1"]);
              self.rng.pick(&[
                format!("validator v{} 0", v + 1),
                "fund bad 5".to_string(),
                format!("fund {} 0", D[d]),
                format!("fund2 {} 7", D[d]),
                format!("q-all {}", qa),
                format!("q-deleg bad v{}", v + 1),
              ])
            }
        };
        self.op(s);
    }
}

pub fn gen_staking(rng: &mut Rng, thorough: bool) -> Vec<String> {
    const E: u128 = 1_000_000_000_000_000_000;
    let fixed_d3 = rng.below(150) == 0;
    let unb = if fixed_d3 { 60 } else { rng.pick(&[60u64, 60, 100, 1000, 86400, YEAR / 3, 0, 1]) };
    let apr: u128 = if fixed_d3 { E / 10 } else { rng.pick(&[E / 10, 7 * E / 100, 13 * E / 100, E, E + 1, E, E / 2, E / 10, 0]) };
    let comms: [u128; 7] = [0, 3 * E / 100, E / 10, 333_333_333_333_333_333, 1, E / 10, E];
    let nvals = if thorough || rng.chance(1, 2) { 3 } else { 2 };
    let malformed_case = rng.chance(15, 100);
    let subsec = rng.chance(1, 3);
    let mut g = Gen { rng, out: vec![], unb, nvals, del: BTreeMap::new(), now: (0, 879_305_533), pending: vec![], subsec };
    // the bonded denomination is a parameter of the chain, not the literal "TOKEN"
    let bonded = if fixed_d3 { "TOKEN" } else { g.rng.pick(&["TOKEN", "TOKEN", "ustake", "a"]) };
    g.out.push(format!("setup {} {} {}", bonded, unb, apr));
    for v in 0..nvals {
        let c = if g.rng.below(40) == 0 { E } else { g.rng.pick(&comms[..6]) };
        g.out.push(format!("validator v{} {}", v + 1, c));
    }
    for d in D.iter() {
        let n = g.rng.range(20, 200);
        g.out.push(format!("fund {} {}", d, n));
    }
    if g.rng.chance(1, 4) {
        g.out.push("fund w1 3".to_string());
    }
    g.out.push(format!("obs {} {}", OBS_D, OBS_V));
    g.out.push("sdump".to_string());
    if fixed_d3 {
        // the five-step history of defect D3 (DESIGN.md section 6)
        for s in ["deleg d1 v1 2", "deleg d2 v1 10", "undeleg d1 v1 1", "slash v1 500000000000000000", "advance 61", "advance 1", "deleg d2 v1 1"] {
            g.op(s.to_string());
        }
        g.del.insert((0, 0), 1);
        g.del.insert((1, 0), 11);
    }
    let nops = if thorough { g.rng.range(10, 60) } else { g.rng.range(6, 28) };
    for _ in 0..nops {
        let bad = if malformed_case { g.rng.chance(30, 100) } else { g.rng.chance(2, 100) };
        if bad {
            g.malformed_op();
        } else {
            g.valid_op();
        }
    }
    // a final maturity sweep so that pending unbondings are usually paid inside the case
    if g.rng.chance(1, 2) {
        let u = g.unb;
        g.advance(u);
    }
    // individual queries are exercised too
    let (d, v) = g.dv();
    g.out.push(format!("q-deleg {} v{}", D[d], v + 1));
    g.out.push(format!("q-all {}", D[d]));
    g.out.push(format!("bal {}", D[d]));
    g.out.push("bal pool".to_string());
    // the fixed-point operators themselves, on awkward atomics
    for _ in 0..3 {
        let f = g.rng.pick(&["mul", "div", "divn", "mulfloor", "ratio", "floor", "add", "sub"]);
        let pick = |r: &mut Rng| -> u128 {
            match r.below(8) {
                0 => 0,
                1 => 1,
                2 => E,
                3 => E - 1,
                4 => 333_333_333_333_333_333,
                5 => r.range(1, 98) as u128 * E + r.range(0, 999_999_999) as u128,
                6 => r.range(1, 40) as u128,
                _ => r.next() as u128 % (100 * E),
            }
        };
        let (mut a, b) = (pick(g.rng), pick(g.rng));
        if f == "ratio" || f == "mulfloor" {
            a %= 1000; // whole-token operands (Uint128 side): keeps n * 10^18 inside 128 bits
        }
        g.out.push(format!("dec {} {} {}", f, a, b));
    }
    g.out
}

/// Slice `staking-det` (C19): a history H on App 1, then the same H on a fresh App 2 — in half of the cases interleaved
/// at random points with a different history on App 3. After every op the public observations (`obs`) and the hash of
/// the complete raw storage (`rawhash`, implementation-only). Most histories start with all three delegators staking
/// with one validator, so that the serialised staker set has several members.
pub fn gen_staking_det(rng: &mut Rng, thorough: bool) -> Vec<String> {
    fn history(rng: &mut Rng, thorough: bool, crowd: bool) -> Vec<String> {
        let base = gen_staking(rng, thorough);
        let mut h = vec![];
        let mut crowded = !crowd;
        for l in base {
            if l == "sdump" || l.starts_with("dec ") {
                continue;
            }
            let is_obs = l.starts_with("obs ");
            h.push(l);
            if is_obs {
                h.push("rawhash".to_string());
                if !crowded {
                    // right after the set-up observations: everybody stakes with the same validator(s)
                    crowded = true;
                    let v = rng.range(1, 2);
                    let mut ds = vec!["d1", "d2", "d3"];
                    if rng.chance(1, 2) {
                        ds.swap(0, 2);
                    }
                    if rng.chance(1, 2) {
                        ds.swap(0, 1);
                    }
                    for d in ds {
                        h.push(format!("deleg {} v{} {}", d, v, rng.range(1, 9)));
                        h.push(format!("obs {} {}", OBS_D, OBS_V));
                        h.push("rawhash".to_string());
                    }
                }
            }
        }
        h
    }
    let crowd = rng.chance(9, 10);
    let h1 = history(rng, thorough, crowd);
    let mut out = vec!["app 1".to_string()];
    out.extend(h1.iter().cloned());
    if rng.chance(1, 2) {
        out.push("app 2".to_string());
        out.extend(h1.iter().cloned());
    } else {
        let h2 = history(rng, false, true);
        let (mut i, mut j) = (0, 0);
        let mut cur = 0;
        while i < h1.len() || j < h2.len() {
            let take2 = i < h1.len() && (j >= h2.len() || rng.chance(2, 3));
            if take2 {
                if cur != 2 {
                    out.push("app 2".to_string());
                    cur = 2;
                }
                let n = rng.range(1, 6) as usize;
                for _ in 0..n {
                    if i < h1.len() {
                        out.push(h1[i].clone());
                        i += 1;
                    }
                }
            } else {
                if cur != 3 {
                    out.push("app 3".to_string());
                    cur = 3;
                }
                let n = rng.range(1, 6) as usize;
                for _ in 0..n {
                    if j < h2.len() {
                        out.push(h2[j].clone());
                        j += 1;
                    }
                }
            }
        }
    }
    out
}
