//! Engine `kv`: the transactional overlay (C06) and prefixed views (C07), driven on the real code.
use crate::util::*;
use cosmwasm_std::testing::MockStorage;
use cosmwasm_std::{Order, Storage};
use cw_multi_test::verif::VerifTransaction;
use cw_multi_test::App;

fn ord(tok: &str) -> Order {
    match tok {
        "asc" => Order::Ascending,
        "desc" => Order::Descending,
        _ => panic!("order {}", tok),
    }
}

fn do_range(st: &dyn Storage, s: &str, e: &str, o: &str) -> String {
    do_range_skip(st, s, e, o, 0)
}

/// `range(..)` consumed the way pagination does: the first `n` records are passed over with `Iterator::nth`
/// (which `skip` and `step_by` use, and which an iterator may override), the rest is collected
fn do_range_skip(st: &dyn Storage, s: &str, e: &str, o: &str, n: usize) -> String {
    let s = unhex_opt(s);
    let e = unhex_opt(e);
    let o = ord(o);
    match guarded(|| {
        let mut it = st.range(s.as_deref(), e.as_deref(), o);
        if n > 0 {
            it.nth(n - 1);
        }
        it.collect::<Vec<_>>()
    }) {
        Some(r) => fmt_records(&r),
        None => "panic".to_string(),
    }
}

fn fmt_list(items: &[Vec<u8>]) -> String {
    format!("[{}]", items.iter().map(|x| hex(x)).collect::<Vec<_>>().join(","))
}

/// `Storage::range_keys` / `Storage::range_values` (provided methods that an implementation may override)
fn do_range_kv(st: &dyn Storage, keys: bool, s: &str, e: &str, o: &str) -> String {
    let s = unhex_opt(s);
    let e = unhex_opt(e);
    let o = ord(o);
    match guarded(|| {
        if keys {
            st.range_keys(s.as_deref(), e.as_deref(), o).collect::<Vec<_>>()
        } else {
            st.range_values(s.as_deref(), e.as_deref(), o).collect::<Vec<_>>()
        }
    }) {
        Some(r) => fmt_list(&r),
        None => "panic".to_string(),
    }
}

// ------------------------------------------------------------------------------------------------
// C06: overlay stack

enum Exit {
    Commit,
    Discard,
    End,
}

struct Cursor<'a> {
    lines: &'a [String],
    pos: usize,
    out: Vec<String>,
}

/// Runs ops at one level of the stack. `store` is the top of the stack at this level,
/// `base` the storage directly beneath it (None at the root), `root` the root storage (None at
/// the root level itself, where `store` is the root).
fn run_level(
    store: &mut dyn Storage,
    base: Option<&dyn Storage>,
    root: Option<&dyn Storage>,
    cur: &mut Cursor,
    depth: usize,
) -> Exit {
    while cur.pos < cur.lines.len() {
        let line = cur.lines[cur.pos].clone();
        cur.pos += 1;
        let t: Vec<&str> = line.split_whitespace().collect();
        match t[0] {
            "push" => {
                cur.out.push("ok".into());
                let exit = {
                    let ro: &dyn Storage = &*store;
                    let mut cache = VerifTransaction::new(ro);
                    let exit = run_level(&mut cache, Some(ro), Some(root.unwrap_or(ro)), cur, depth + 1);
                    match exit {
                        Exit::Commit => Some(cache.prepare()),
                        _ => None,
                    }
                };
                if let Some(log) = exit {
                    log.commit(store);
                }
                if cur.pos >= cur.lines.len() {
                    // end of case reached inside a nested level without explicit close
                }
            }
            "commit" => {
                if depth == 0 {
                    cur.out.push("bad-op".into());
                } else {
                    cur.out.push("ok".into());
                    return Exit::Commit;
                }
            }
            "discard" => {
                if depth == 0 {
                    cur.out.push("bad-op".into());
                } else {
                    cur.out.push("ok".into());
                    return Exit::Discard;
                }
            }
            "get" => {
                let k = unhex(t[1]);
                cur.out.push(match guarded(|| store.get(&k)) {
                    Some(Some(v)) => format!("some {}", hex(&v)),
                    Some(None) => "none".into(),
                    None => "panic".into(),
                });
            }
            "set" => {
                let (k, v) = (unhex(t[1]), unhex(t[2]));
                cur.out.push(match guarded(|| store.set(&k, &v)) {
                    Some(()) => "ok".into(),
                    None => "panic".into(),
                });
            }
            "remove" => {
                let k = unhex(t[1]);
                cur.out.push(match guarded(|| store.remove(&k)) {
                    Some(()) => "ok".into(),
                    None => "panic".into(),
                });
            }
            "range" => cur.out.push(do_range_skip(store, t[1], t[2], t[3], t.get(4).and_then(|x| x.parse().ok()).unwrap_or(0))),
            "keys" => cur.out.push(do_range_kv(store, true, t[1], t[2], t[3])),
            "values" => cur.out.push(do_range_kv(store, false, t[1], t[2], t[3])),
            "base-range" => match base {
                Some(b) => cur.out.push(do_range(b, t[1], t[2], t[3])),
                None => cur.out.push("bad-op".into()),
            },
            "dump-root" => match root {
                Some(r) => cur.out.push(do_range(r, "~", "~", "asc")),
                None => cur.out.push(do_range(store, "~", "~", "asc")),
            },
            _ => cur.out.push("bad-op".into()),
        }
    }
    Exit::End
}

pub fn exec_overlay(lines: &[String]) -> Vec<String> {
    let mut root = MockStorage::new();
    let mut cur = Cursor { lines, pos: 0, out: vec![] };
    run_level(&mut root, None, None, &mut cur, 0);
    cur.out
}

const KEYS: &[&str] = &["-", "00", "0000", "00ff", "61", "6100", "6162", "61ff", "62", "ff", "ff00", "ffff"];
const VALS: &[&str] = &["01", "02", "aabb", "00"];

fn gen_key(rng: &mut Rng) -> String {
    if rng.chance(1, 12) {
        // an occasional longer random key
        let n = rng.range(1, 4);
        let bs: Vec<u8> = (0..n).map(|_| rng.pick(&[0u8, 1, 0x61, 0x62, 0xfe, 0xff])).collect();
        hex(&bs)
    } else {
        rng.pick(KEYS).to_string()
    }
}

fn gen_bound(rng: &mut Rng) -> String {
    if rng.chance(1, 3) {
        "~".into()
    } else {
        gen_key(rng)
    }
}

pub fn gen_overlay(rng: &mut Rng, thorough: bool) -> Vec<String> {
    let mut ops = vec![];
    let nbase = rng.below(7);
    for _ in 0..nbase {
        ops.push(format!("set {} {}", gen_key(rng), rng.pick(VALS)));
    }
    let n = if thorough { rng.range(10, 60) } else { rng.range(8, 40) };
    let mut depth = 0usize;
    let maxd = if thorough { 5 } else { 4 };
    for _ in 0..n {
        let r = rng.below(100);
        if r < 12 && depth < maxd {
            ops.push("push".into());
            depth += 1;
        } else if r < 18 && depth > 0 {
            ops.push("commit".into());
            depth -= 1;
        } else if r < 23 && depth > 0 {
            ops.push("discard".into());
            depth -= 1;
        } else if r < 45 {
            ops.push(format!("set {} {}", gen_key(rng), rng.pick(VALS)));
        } else if r < 60 {
            ops.push(format!("remove {}", gen_key(rng)));
        } else if r < 70 {
            ops.push(format!("get {}", gen_key(rng)));
        } else if r < 90 {
            let o = if rng.chance(1, 2) { "asc" } else { "desc" };
            let op = match rng.below(8) {
                0 => "keys",
                1 => "values",
                _ => "range",
            };
            let skip = if op == "range" && rng.chance(1, 4) { format!(" {}", rng.range(1, 3)) } else { String::new() };
            ops.push(format!("{} {} {} {}{}", op, gen_bound(rng), gen_bound(rng), o, skip));
        } else if r < 94 && depth > 0 {
            let o = if rng.chance(1, 2) { "asc" } else { "desc" };
            ops.push(format!("base-range {} {} {}", gen_bound(rng), gen_bound(rng), o));
        } else {
            ops.push("dump-root".into());
        }
    }
    // close all levels with a random choice and observe the result
    while depth > 0 {
        ops.push("range ~ ~ asc".into());
        ops.push(if rng.chance(2, 3) { "commit".into() } else { "discard".into() });
        depth -= 1;
        ops.push("range ~ ~ asc".into());
    }
    ops.push("dump-root".into());
    ops
}

// ------------------------------------------------------------------------------------------------
// C07: prefixed views over App storage

/// PATH token: `s:<hex>` single-level namespace, `m:<hex>/<hex>/…` multi-level, `m:.` empty path.
fn parse_path(tok: &str) -> (bool, Vec<Vec<u8>>) {
    let (kind, rest) = tok.split_once(':').expect("path");
    if kind == "s" {
        (true, vec![unhex(rest)])
    } else if rest == "." {
        (false, vec![])
    } else {
        (false, rest.split('/').map(unhex).collect())
    }
}

fn with_view<T>(app: &mut App, path: &str, rw: bool, f: impl FnOnce(&mut dyn Storage) -> T) -> Option<T> {
    let (single, segs) = parse_path(path);
    guarded(move || {
        let refs: Vec<&[u8]> = segs.iter().map(|s| s.as_slice()).collect();
        let mut view: Box<dyn Storage + '_> = match (single, rw) {
            (true, false) => app.prefixed_storage(refs[0]),
            (true, true) => app.prefixed_storage_mut(refs[0]),
            (false, false) => app.prefixed_multilevel_storage(&refs),
            (false, true) => app.prefixed_multilevel_storage_mut(&refs),
        };
        f(view.as_mut())
    })
}

pub fn exec_views(lines: &[String]) -> Vec<String> {
    let mut app = App::default();
    let mut out = vec![];
    for line in lines {
        let t: Vec<&str> = line.split_whitespace().collect();
        let res = match t[0] {
            "base-set" => {
                let (k, v) = (unhex(t[1]), unhex(t[2]));
                app.storage_mut().set(&k, &v);
                "ok".to_string()
            }
            "base-remove" => {
                let k = unhex(t[1]);
                app.storage_mut().remove(&k);
                "ok".to_string()
            }
            "dump-root" => do_range(app.storage(), "~", "~", "asc"),
            "vget" => {
                let k = unhex(t[3]);
                match with_view(&mut app, t[1], t[2] == "rw", |v| v.get(&k)) {
                    Some(Some(v)) => format!("some {}", hex(&v)),
                    Some(None) => "none".into(),
                    None => "panic".into(),
                }
            }
            "vset" => {
                let (k, v) = (unhex(t[3]), unhex(t[4]));
                match with_view(&mut app, t[1], t[2] == "rw", |s| s.set(&k, &v)) {
                    Some(()) => "ok".into(),
                    None => "panic".into(),
                }
            }
            "vremove" => {
                let k = unhex(t[3]);
                match with_view(&mut app, t[1], t[2] == "rw", |s| s.remove(&k)) {
                    Some(()) => "ok".into(),
                    None => "panic".into(),
                }
            }
            "vkeys" | "vvalues" => {
                let (s, e, o) = (unhex_opt(t[3]), unhex_opt(t[4]), ord(t[5]));
                let keys = t[0] == "vkeys";
                match with_view(&mut app, t[1], t[2] == "rw", |st| {
                    if keys {
                        st.range_keys(s.as_deref(), e.as_deref(), o).collect::<Vec<_>>()
                    } else {
                        st.range_values(s.as_deref(), e.as_deref(), o).collect::<Vec<_>>()
                    }
                }) {
                    Some(r) => fmt_list(&r),
                    None => "panic".into(),
                }
            }
            "vseq" => {
                // several operations on ONE view instance (a view must not carry state of its own between them)
                let subs: Vec<String> = t[3..].iter().map(|x| x.to_string()).collect();
                match with_view(&mut app, t[1], t[2] == "rw", |st| {
                    let mut outs = vec![];
                    for sub in &subs {
                        let f: Vec<&str> = sub.split(':').collect();
                        outs.push(match f[0] {
                            "g" => match st.get(&unhex(f[1])) {
                                Some(v) => format!("some {}", hex(&v)),
                                None => "none".into(),
                            },
                            "s" => {
                                st.set(&unhex(f[1]), &unhex(f[2]));
                                "ok".into()
                            }
                            "r" => {
                                st.remove(&unhex(f[1]));
                                "ok".into()
                            }
                            "R" => fmt_records(&st.range(unhex_opt(f[1]).as_deref(), unhex_opt(f[2]).as_deref(), ord(f[3])).collect::<Vec<_>>()),
                            "K" => fmt_list(&st.range_keys(unhex_opt(f[1]).as_deref(), unhex_opt(f[2]).as_deref(), ord(f[3])).collect::<Vec<_>>()),
                            "V" => fmt_list(&st.range_values(unhex_opt(f[1]).as_deref(), unhex_opt(f[2]).as_deref(), ord(f[3])).collect::<Vec<_>>()),
                            _ => "bad-op".into(),
                        });
                    }
                    outs.join("|")
                }) {
                    Some(r) => r,
                    None => "panic".into(),
                }
            }
            "vrange" => {
                let (s, e, o) = (unhex_opt(t[3]), unhex_opt(t[4]), ord(t[5]));
                let n: usize = t.get(6).and_then(|x| x.parse().ok()).unwrap_or(0);
                match with_view(&mut app, t[1], t[2] == "rw", |st| {
                    let mut it = st.range(s.as_deref(), e.as_deref(), o);
                    if n > 0 {
                        it.nth(n - 1);
                    }
                    it.collect::<Vec<_>>()
                }) {
                    Some(r) => fmt_records(&r),
                    None => "panic".into(),
                }
            }
            _ => "bad-op".to_string(),
        };
        out.push(res);
    }
    out
}

const SEGS: &[&str] = &["-", "66", "666f", "666f6f", "ff", "ffff", "00", "66ffff", "67"];

fn gen_path(rng: &mut Rng) -> String {
    let r = rng.below(100);
    if r < 30 {
        format!("s:{}", rng.pick(SEGS))
    } else if r < 38 {
        "m:.".to_string()
    } else if r < 40 {
        // boundary lengths of one segment: 65535 is the longest legal one, 65536 must panic
        match rng.below(6) {
            0 | 1 => "s:ff*65535".into(),
            2 => "s:61*65536".into(),
            // the second length byte starts to matter at 256: single- and multi-level encoders must agree there
            3 => format!("{}:61*{}", if rng.chance(1, 2) { "s" } else { "m" }, rng.pick(&[255u32, 256, 257, 512])),
            4 => format!("m:{}/61*{}", rng.pick(SEGS), rng.pick(&[255u32, 256, 257])),
            _ => format!("m:61*{}/{}", rng.pick(&[255u32, 256, 257]), rng.pick(SEGS)),
        }
    } else {
        let n = rng.range(1, 3);
        let segs: Vec<String> = (0..n).map(|_| rng.pick(SEGS).to_string()).collect();
        format!("m:{}", segs.join("/"))
    }
}

fn lp(seg: &[u8]) -> Vec<u8> {
    let mut v = vec![(seg.len() >> 8) as u8, (seg.len() & 0xff) as u8];
    v.extend_from_slice(seg);
    v
}

fn path_prefix(path: &str) -> Vec<u8> {
    let (_, segs) = parse_path(path);
    let mut p = vec![];
    for s in segs {
        if s.len() <= 0xffff {
            p.extend(lp(&s));
        }
    }
    p
}

/// raw root keys that are adversarial for the given paths: inside, just outside, truncations,
/// byte successors, other paths' prefixes
fn gen_raw_key(rng: &mut Rng, paths: &[String]) -> Vec<u8> {
    let p = path_prefix(&rng.pick(paths));
    let r = rng.below(100);
    let tails: &[&[u8]] = &[b"", b"\x00", b"\xff", b"a", b"ab", b"\x00\x03foo", b"\xff\xff"];
    if r < 45 {
        let mut k = p.clone();
        k.extend_from_slice(rng.pick(tails));
        k
    } else if r < 55 && !p.is_empty() {
        // truncation
        let n = rng.below(p.len() as u64) as usize;
        p[..n].to_vec()
    } else if r < 75 && !p.is_empty() {
        // successor of the prefix at some position, possibly shortened (the D1(b) shape)
        let mut k = p.clone();
        while let Some(&0xff) = k.last() {
            k.pop();
        }
        if let Some(l) = k.last_mut() {
            *l += 1;
        }
        if rng.chance(1, 2) {
            k.extend_from_slice(rng.pick(tails));
        }
        k
    } else if r < 85 {
        let q = path_prefix(&rng.pick(paths));
        let mut k = p.clone();
        k.extend(q);
        k.extend_from_slice(rng.pick(tails));
        k
    } else {
        let n = rng.range(0, 4);
        (0..n).map(|_| rng.pick(&[0u8, 1, 2, 3, 0x66, 0x67, 0xff])).collect()
    }
}

pub fn gen_views(rng: &mut Rng, thorough: bool) -> Vec<String> {
    let mut ops = vec![];
    let npaths = rng.range(2, 4);
    let mut paths: Vec<String> = (0..npaths).map(|_| gen_path(rng)).collect();
    // frequently make one path an extension of another
    if rng.chance(1, 2) {
        if let Some(p) = paths.iter().find(|p| p.starts_with("m:") && *p != "m:.").cloned() {
            paths.push(format!("{}/{}", p, rng.pick(SEGS)));
        }
    }
    let small_paths: Vec<String> = paths.iter().filter(|p| !p.contains('*')).cloned().collect();
    let key_paths = if small_paths.is_empty() { vec!["m:.".to_string()] } else { small_paths };
    let nbase = rng.range(2, 10);
    for _ in 0..nbase {
        let k = gen_raw_key(rng, &key_paths);
        ops.push(format!("base-set {} {}", hex(&k), rng.pick(VALS)));
    }
    let vkeys: &[&str] = &["-", "00", "61", "6162", "ff", "0003666f6f", "000166", "ffff"];
    let n = if thorough { rng.range(8, 30) } else { rng.range(6, 20) };
    for _ in 0..n {
        let p = rng.pick(&paths);
        let rw = if rng.chance(3, 4) { "rw" } else { "ro" };
        let r = rng.below(100);
        if r < 25 {
            ops.push(format!("vset {} {} {} {}", p, rw, rng.pick(vkeys), rng.pick(VALS)));
            ops.push("dump-root".into());
        } else if r < 38 {
            ops.push(format!("vremove {} {} {}", p, rw, rng.pick(vkeys)));
            ops.push("dump-root".into());
        } else if r < 50 {
            ops.push(format!("vget {} {} {}", p, rw, rng.pick(vkeys)));
        } else if r < 58 {
            // a burst on one view instance: reads of a key right after it was written / removed through the same view
            let k = rng.pick(vkeys).to_string();
            let mut subs = vec![];
            for _ in 0..rng.range(2, 6) {
                let kk = if rng.chance(2, 3) { k.clone() } else { rng.pick(vkeys).to_string() };
                subs.push(match rng.below(8) {
                    0 | 1 => format!("g:{}", kk),
                    2 | 3 => format!("s:{}:{}", kk, rng.pick(VALS)),
                    4 | 5 => format!("r:{}", kk),
                    _ => {
                        let o = if rng.chance(1, 2) { "asc" } else { "desc" };
                        let s = if rng.chance(1, 2) { "~".to_string() } else { rng.pick(vkeys).to_string() };
                        let e = if rng.chance(1, 2) { "~".to_string() } else { rng.pick(vkeys).to_string() };
                        format!("{}:{}:{}:{}", rng.pick(&["R", "R", "K", "V"]), s, e, o)
                    }
                });
            }
            subs.push(format!("g:{}", k));
            ops.push(format!("vseq {} rw {}", p, subs.join(" ")));
            ops.push("dump-root".into());
        } else if r < 90 {
            let o = if rng.chance(1, 2) { "asc" } else { "desc" };
            let s = if rng.chance(1, 2) { "~".to_string() } else { rng.pick(vkeys).to_string() };
            let e = if rng.chance(1, 2) { "~".to_string() } else { rng.pick(vkeys).to_string() };
            let op = match rng.below(6) {
                0 => "vkeys",
                1 => "vvalues",
                _ => "vrange",
            };
            let skip = if op == "vrange" && rng.chance(1, 4) { format!(" {}", rng.range(1, 3)) } else { String::new() };
            ops.push(format!("{} {} {} {} {} {}{}", op, p, rw, s, e, o, skip));
        } else {
            let k = gen_raw_key(rng, &key_paths);
            ops.push(format!("base-set {} {}", hex(&k), rng.pick(VALS)));
        }
    }
    for p in &paths {
        ops.push(format!("vrange {} ro ~ ~ asc", p));
        ops.push(format!("vkeys {} ro ~ ~ desc", p));
    }
    ops.push("dump-root".into());
    ops
}

// ------------------------------------------------------------------------------------------------
// C06: exhaustive small scope — every sequence of five mutators over a 13-symbol alphabet
// (3 keys that are prefixes of each other incl. the empty key × 2 values, removes, push / commit /
// discard, no-op), each followed by the full observation block (all gets, all 4×4 bound pairs in
// both orders, base range, root dump) and by closing every open level.

pub const EXH_SYMBOLS: u64 = 13;
pub const EXH_LEN: u32 = 5;

pub fn gen_overlay_exh(index: u64) -> Vec<String> {
    let keys = ["-", "61", "6100"];
    let mut ops = vec!["set 61 09".to_string()]; // a base entry, so that deletes and overwrites of base keys occur
    let mut depth = 0usize;
    let mut idx = index;
    for _ in 0..EXH_LEN {
        let sym = idx % EXH_SYMBOLS;
        idx /= EXH_SYMBOLS;
        match sym {
            0..=5 => ops.push(format!("set {} {}", keys[(sym / 2) as usize], if sym % 2 == 0 { "01" } else { "02" })),
            6..=8 => ops.push(format!("remove {}", keys[(sym - 6) as usize])),
            9 => {
                ops.push("push".into());
                depth += 1;
            }
            10 => {
                if depth > 0 {
                    ops.push("commit".into());
                    depth -= 1;
                }
            }
            11 => {
                if depth > 0 {
                    ops.push("discard".into());
                    depth -= 1;
                }
            }
            _ => {}
        }
    }
    for k in keys {
        ops.push(format!("get {}", k));
    }
    let bounds = ["~", "00", "61", "6100"];
    for s in bounds {
        for e in bounds {
            ops.push(format!("range {} {} asc", s, e));
            ops.push(format!("range {} {} desc", s, e));
        }
    }
    if depth > 0 {
        ops.push("base-range ~ ~ asc".into());
    }
    ops.push("dump-root".into());
    while depth > 0 {
        ops.push("commit".into());
        depth -= 1;
        ops.push("range ~ ~ asc".into());
    }
    ops.push("dump-root".into());
    ops
}
