//! cwmt-harness: drives the real cw-multi-test code through the line protocol of /verif/DESIGN.md.
//!
//!   cwmt-harness run  --slice <name> --seed <n> --cases <n> [--thorough] --out <prefix>
//!       generates cases, executes them on the implementation, writes <prefix>.ops / <prefix>.impl
//!   cwmt-harness exec --slice <name> <file.ops>
//!       executes an ops file (same format, `case` separators) and prints the outputs to stdout
mod addr;
mod bank;
mod kv;
mod route;
mod sexp;
mod staking;
mod util;
mod wasm;
mod wasm_gen;
mod wasm_gen2;

use std::fs::File;
use std::io::{BufRead, BufReader, BufWriter, Write};
use util::Rng;

pub fn exec_case(slice: &str, lines: &[String]) -> Vec<String> {
    let r = util::guarded(|| match slice {
        "overlay" | "overlay-exh" => kv::exec_overlay(lines),
        "views" => kv::exec_views(lines),
        "bank" => bank::exec_bank(lines),
        "addr" => addr::exec_addr(lines),
        "route" => route::exec_route(lines),
        "staking" | "staking-det" => staking::exec_staking(lines),
        "wasm-legacy" => wasm::exec_wasm_legacy(lines),
        "wasm-bech" | "wasm-bech-codes" => wasm::exec_wasm_bech(lines),
        "wasm-bech-mix" => wasm::exec_wasm_bech_mix(lines),
        s if s.starts_with("wasm") => wasm::exec_wasm(lines),
        _ => panic!("unknown slice {}", slice),
    });
    match r {
        Some(mut out) => {
            // a case that ended early (e.g. nested level not closed) still yields one line per op
            while out.len() < lines.len() {
                out.push("no-output".into());
            }
            out
        }
        None => lines.iter().map(|_| "harness-panic".to_string()).collect(),
    }
}

pub fn gen_case(slice: &str, rng: &mut Rng, thorough: bool, index: u64) -> Vec<String> {
    let ops = gen_case0(slice, rng, thorough, index);
    if slice.starts_with("wasm") && slice != "wasm-bech-mix" {
        // byte-exact view of the bank and wasm namespaces: after about a third of the typed dumps and at the end of every case
        let mut out = Vec::with_capacity(ops.len() + 4);
        for l in ops {
            let is_dump = l == "dump";
            out.push(l);
            if is_dump && rng.chance(1, 3) {
                out.push("rawdump".into());
            }
        }
        out.push("rawdump".into());
        return out;
    }
    ops
}

fn gen_case0(slice: &str, rng: &mut Rng, thorough: bool, index: u64) -> Vec<String> {
    match slice {
        "overlay-exh" => kv::gen_overlay_exh(index),
        "overlay" => kv::gen_overlay(rng, thorough),
        "views" => kv::gen_views(rng, thorough),
        "bank" => bank::gen_bank(rng, thorough),
        "addr" => addr::gen_addr(rng, thorough),
        "route" => route::gen_route(rng, thorough),
        "staking" => staking::gen_staking(rng, thorough),
        "staking-det" => staking::gen_staking_det(rng, thorough),
        "wasm" => wasm_gen::gen_wasm(rng, thorough),
        "wasm-admin" => wasm_gen2::gen_admin(rng, thorough),
        "wasm-codes" => wasm_gen2::gen_codes(rng, thorough),
        "wasm-resp" => wasm_gen2::gen_resp(rng, thorough),
        "wasm-iso" => wasm_gen2::gen_iso(rng, thorough),
        "wasm-det" => wasm_gen2::gen_det(rng, thorough),
        "wasm-legacy" => wasm_gen2::gen_legacy(rng, thorough),
        "wasm-stk" => wasm_gen2::gen_stk(rng, thorough),
        "wasm-bech" => wasm::rebind_bech(wasm_gen::gen_wasm(rng, thorough)),
        "wasm-bech-codes" => wasm::rebind_bech(wasm_gen2::gen_codes(rng, thorough)),
        "wasm-bech-mix" => {
            let mut ops = wasm::rebind_bechm(if rng.chance(1, 3) { wasm_gen2::gen_codes(rng, thorough) } else { wasm_gen::gen_wasm(rng, thorough) });
            // probes with addresses that only the OTHER configuration (Bech32, same prefix) accepts — its Apps have seen and
            // validated them during the warm-up run in the same thread; a Bech32m App must reject them whatever ran before
            for u in ["u1", "u2"] {
                let foreign = cw_multi_test::MockApiBech32::new("juno").addr_make(u);
                ops.push(format!("q-bal {} d1", foreign));
                ops.push(format!("sudo-mint {} 1:d1", foreign));
            }
            ops.push("nondet".into());
            ops
        }
        _ => panic!("unknown slice {}", slice),
    }
}

fn arg(args: &[String], name: &str) -> Option<String> {
    args.iter().position(|a| a == name).and_then(|i| args.get(i + 1).cloned())
}

fn main() {
    std::panic::set_hook(Box::new(|_| {}));
    let args: Vec<String> = std::env::args().collect();
    let cmd = args.get(1).map(|s| s.as_str()).unwrap_or("");
    let slice = arg(&args, "--slice").unwrap_or_default();
    match cmd {
        "run" => {
            let seed: u64 = arg(&args, "--seed").and_then(|s| s.parse().ok()).unwrap_or(1);
            let cases: u64 = arg(&args, "--cases").and_then(|s| s.parse().ok()).unwrap_or(100);
            let first: u64 = arg(&args, "--first").and_then(|s| s.parse().ok()).unwrap_or(0);
            let thorough = args.iter().any(|a| a == "--thorough");
            let out = arg(&args, "--out").expect("--out");
            let mut fo = BufWriter::new(File::create(format!("{}.ops", out)).unwrap());
            let mut fi = BufWriter::new(File::create(format!("{}.impl", out)).unwrap());
            for c in first..first + cases {
                // every case has its own PRNG stream derived from (seed, case index)
                let mut rng = Rng::new(seed.wrapping_mul(0x9E3779B97F4A7C15) ^ c.wrapping_mul(0xD1B54A32D192ED03));
                rng.next();
                let lines = gen_case(&slice, &mut rng, thorough, c);
                let outs = exec_case(&slice, &lines);
                writeln!(fo, "case {}", c).unwrap();
                writeln!(fi, "case {}", c).unwrap();
                for l in &lines {
                    writeln!(fo, "{}", l).unwrap();
                }
                for l in &outs {
                    writeln!(fi, "{}", l).unwrap();
                }
            }
        }
        "exec" => {
            let file = args.last().expect("file");
            let rd = BufReader::new(File::open(file).unwrap());
            let stdout = std::io::stdout();
            let mut w = BufWriter::new(stdout.lock());
            let mut cur: Vec<String> = vec![];
            let mut header: Option<String> = None;
            let mut flush = |header: &Option<String>, cur: &mut Vec<String>, w: &mut dyn Write| {
                if let Some(h) = header {
                    writeln!(w, "{}", h).unwrap();
                }
                if !cur.is_empty() || header.is_some() {
                    for l in exec_case(&slice, cur) {
                        writeln!(w, "{}", l).unwrap();
                    }
                }
                cur.clear();
            };
            for line in rd.lines() {
                let line = line.unwrap();
                if line.starts_with('#') || line.trim().is_empty() {
                    continue;
                }
                if line.starts_with("case ") {
                    if header.is_some() || !cur.is_empty() {
                        flush(&header, &mut cur, &mut w);
                    }
                    header = Some(line);
                } else {
                    cur.push(line);
                }
            }
            flush(&header, &mut cur, &mut w);
        }
        _ => {
            eprintln!("usage: cwmt-harness run|exec …");
            std::process::exit(2);
        }
    }
}
