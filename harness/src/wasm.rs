//! Engine `wasm`: scripted contracts and the executor of the wasm slice (C01–C05, C08, C10–C13, C19).
//!
//! A scripted contract interprets its message as a list of actions (DESIGN.md appendix A). The same
//! interpreter exists in Lean (CwMt/Driver/Script.lean). Every entry-point invocation pushes one
//! line onto an out-of-band trace (thread local), also when the call fails and is rolled back.
use crate::sexp::{parse, Sx};
use crate::util::*;
use cosmwasm_std::{
    coin, to_json_binary, Addr, AllBalanceResponse, AnyMsg, BankMsg, BankQuery, Binary, BlockInfo, Coin,
    ContractInfoResponse, CosmosMsg, Deps, DepsMut, Empty, Env, Event, GovMsg, IbcMsg, MessageInfo, Order,
    QueryRequest, Reply, ReplyOn, Response, Storage, SubMsg, SubMsgResult, Timestamp, Uint128, VoteOption,
    WasmMsg, WasmQuery,
};
use cw_multi_test::error::AnyResult;
use cw_multi_test::{
    next_block, AddressGenerator, App, AppResponse, BankSudo, Contract, Executor, SimpleAddressGenerator, SudoMsg,
    WasmSudo,
};
use std::cell::RefCell;
use std::collections::{BTreeMap, HashMap};

use cosmwasm_std::testing::MockStorage;
use cosmwasm_std::{Api, CanonicalAddr, RecoverPubkeyError, StdError, StdResult, VerificationError};
use cw_multi_test::{
    AppBuilder, BankKeeper, DistributionKeeper, FailingModule, GovFailingModule, IbcFailingModule, StakeKeeper,
    StargateFailing, WasmKeeper,
};

/// the App type of the wasm slices, generic in the Api
pub type AppOf<A> = App<
    BankKeeper,
    A,
    MockStorage,
    FailingModule<Empty, Empty, Empty>,
    WasmKeeper<Empty, Empty>,
    StakeKeeper,
    DistributionKeeper,
    IbcFailingModule,
    GovFailingModule,
    StargateFailing,
>;

/// Api of the `wasm-legacy` slice: plain names are valid addresses (as in cosmwasm-std 1.x), so
/// that addresses of different lengths — one a prefix of another — can coexist.
#[derive(Clone, Copy)]
pub struct LegacyApi;

impl Api for LegacyApi {
    fn addr_validate(&self, human: &str) -> StdResult<Addr> {
        if human.is_empty() || human.starts_with("bad") {
            return Err(StdError::generic_err("invalid address"));
        }
        Ok(Addr::unchecked(human))
    }
    fn addr_canonicalize(&self, human: &str) -> StdResult<CanonicalAddr> {
        self.addr_validate(human)?;
        Ok(CanonicalAddr::from(human.as_bytes().to_vec()))
    }
    fn addr_humanize(&self, canonical: &CanonicalAddr) -> StdResult<Addr> {
        String::from_utf8(canonical.as_slice().to_vec())
            .map(Addr::unchecked)
            .map_err(|_| StdError::generic_err("invalid canonical address"))
    }
    fn secp256k1_verify(&self, _: &[u8], _: &[u8], _: &[u8]) -> Result<bool, VerificationError> {
        Ok(false)
    }
    fn secp256k1_recover_pubkey(&self, _: &[u8], _: &[u8], _: u8) -> Result<Vec<u8>, RecoverPubkeyError> {
        Err(RecoverPubkeyError::unknown_err(0))
    }
    fn ed25519_verify(&self, _: &[u8], _: &[u8], _: &[u8]) -> Result<bool, VerificationError> {
        Ok(false)
    }
    fn ed25519_batch_verify(&self, _: &[&[u8]], _: &[&[u8]], _: &[&[u8]]) -> Result<bool, VerificationError> {
        Ok(false)
    }
    fn debug(&self, _: &str) {}
}

/// `contract<i>`, except that every fifth instance gets the UPPER-CASE spelling of its predecessor's
/// name (`contract3`, `CONTRACT3`): addresses that are prefixes of each other and addresses that
/// differ only in letter case both occur
pub fn legacy_name(instance: u64) -> String {
    // not injective on purpose: instance 7 gets the address of instance 0, 8 that of 1, … (a classic instantiation at
    // an occupied address must be refused)
    let instance = instance % 7;
    if instance == 2 {
        // an address the App's own Api REJECTS (LegacyApi refuses names starting with `bad`): the contract exists, can be
        // looked at through the App's accessors and dumps, but no message or query can name it
        return "badcontract2".to_string();
    }
    if instance == 5 {
        // a very long address (namespace `contract_data/<addr>` of 256 bytes: the second length byte of the prefix matters)
        return format!("contract5{}", "x".repeat(233));
    }
    if instance == 6 {
        // a non-ASCII address whose characters agree with `contract0` modulo 256 (U+0161 vs U+0061): different UTF-8 bytes,
        // different contract, different key space
        return "contr\u{161}ct0".to_string();
    }
    if instance % 5 == 4 {
        format!("CONTRACT{}", instance - 1)
    } else {
        format!("contract{}", instance)
    }
}

/// hands out `contract<instance>` like older versions of the crate
pub struct LegacyGen;

impl AddressGenerator for LegacyGen {
    fn contract_address(&self, _api: &dyn Api, _storage: &mut dyn Storage, _code_id: u64, instance_id: u64) -> AnyResult<Addr> {
        Ok(Addr::unchecked(legacy_name(instance_id)))
    }
}

pub fn legacy_app() -> AppOf<LegacyApi> {
    AppBuilder::new()
        .with_api(LegacyApi)
        .with_wasm(WasmKeeper::new().with_address_generator(LegacyGen))
        .build(cw_multi_test::no_init)
}

thread_local! {
    static SYMS: RefCell<HashMap<String, String>> = RefCell::new(HashMap::new());
    static TRACE: RefCell<Vec<Vec<String>>> = RefCell::new(vec![vec![], vec![], vec![]]);
    static CUR_APP: RefCell<usize> = RefCell::new(0);
}

pub fn real(sym: &str) -> String {
    if sym == "%empty" {
        return String::new(); // the account whose address is the empty string (`Addr::unchecked("")`)
    }
    SYMS.with(|s| s.borrow().get(sym).cloned()).unwrap_or_else(|| sym.to_string())
}

fn bind_sym(sym: &str, real: &str) {
    SYMS.with(|s| s.borrow_mut().insert(sym.to_string(), real.to_string()));
}

fn reset_tls() {
    SYMS.with(|s| s.borrow_mut().clear());
    TRACE.with(|t| *t.borrow_mut() = vec![vec![], vec![], vec![]]);
    CUR_APP.with(|c| *c.borrow_mut() = 0);
}

// ------------------------------------------------------------------------------------------------
// formatting

pub fn parse_coins(tok: &str) -> Vec<Coin> {
    if tok == "-" {
        return vec![];
    }
    tok.split(',')
        .map(|c| {
            let (a, d) = c.split_once(':').expect("coin");
            coin(a.parse::<u128>().expect("amount"), d)
        })
        .collect()
}

pub fn fmt_coins(cs: &[Coin]) -> String {
    if cs.is_empty() {
        return "-".into();
    }
    cs.iter().map(|c| format!("{}:{}", c.amount, c.denom)).collect::<Vec<_>>().join(",")
}

pub fn fmt_events(evs: &[Event]) -> String {
    let mut s = String::from("[");
    for (i, e) in evs.iter().enumerate() {
        if i > 0 {
            s.push(',');
        }
        s.push_str(&penc(&e.ty));
        s.push('{');
        for (j, a) in e.attributes.iter().enumerate() {
            if j > 0 {
                s.push(';');
            }
            s.push_str(&penc(&a.key));
            s.push('=');
            s.push_str(&penc(&a.value));
        }
        s.push('}');
    }
    s.push(']');
    s
}

fn fmt_data(d: &Option<Binary>) -> String {
    match d {
        None => "~".into(),
        Some(b) => hex(b.as_slice()),
    }
}

fn fmt_resp(r: &AppResponse) -> String {
    format!("{} {}", fmt_events(&r.events), fmt_data(&r.data))
}

// ------------------------------------------------------------------------------------------------
// messages

fn one_coin(tok: &str) -> Option<Coin> {
    parse_coins(tok).into_iter().next()
}

fn reply_on(tok: &str) -> ReplyOn {
    match tok {
        "always" => ReplyOn::Always,
        "error" => ReplyOn::Error,
        "success" => ReplyOn::Success,
        _ => ReplyOn::Never,
    }
}

fn opt_real(tok: &str) -> Option<String> {
    if tok == "~" {
        None
    } else {
        Some(real(tok))
    }
}

/// scripts travel as JSON strings (the script alphabet needs no escaping), so that contracts built
/// with `ContractWrapper` (which deserialises its message) can run them too
fn json_str(text: &str) -> Vec<u8> {
    format!("\"{}\"", text).into_bytes()
}

/// MSG s-expression → CosmosMsg (None if malformed)
pub fn to_msg(m: &Sx) -> Option<CosmosMsg> {
    let l = m.list();
    let head = l.first()?.atom();
    Some(match head {
        "exec" => WasmMsg::Execute {
            contract_addr: real(l.get(1)?.atom()),
            msg: Binary::from(json_str(&l.get(2)?.print())),
            funds: parse_coins(l.get(3)?.atom()),
        }
        .into(),
        "inst" => {
            let code_id: u64 = l.get(1)?.atom().parse().ok()?;
            let msg = Binary::from(json_str(&l.get(2)?.print()));
            let funds = parse_coins(l.get(3)?.atom());
            let label = pdec(l.get(4)?.atom());
            let admin = opt_real(l.get(5)?.atom());
            match l.get(6)?.atom() {
                "~" => WasmMsg::Instantiate { admin, code_id, msg, funds, label }.into(),
                salt => WasmMsg::Instantiate2 { admin, code_id, msg, funds, label, salt: Binary::from(unhex(salt)) }.into(),
            }
        }
        "mig" => WasmMsg::Migrate {
            contract_addr: real(l.get(1)?.atom()),
            new_code_id: l.get(2)?.atom().parse().ok()?,
            // `~`: a zero-length message (not even valid JSON)
            msg: if l.get(3)?.print() == "~" { Binary::default() } else { Binary::from(json_str(&l.get(3)?.print())) },
        }
        .into(),
        "upd" => WasmMsg::UpdateAdmin { contract_addr: real(l.get(1)?.atom()), admin: real(l.get(2)?.atom()) }.into(),
        "clr" => WasmMsg::ClearAdmin { contract_addr: real(l.get(1)?.atom()) }.into(),
        "deleg" => cosmwasm_std::StakingMsg::Delegate { validator: l.get(1)?.atom().to_string(), amount: one_coin(l.get(2)?.atom())? }.into(),
        "undeleg" => cosmwasm_std::StakingMsg::Undelegate { validator: l.get(1)?.atom().to_string(), amount: one_coin(l.get(2)?.atom())? }.into(),
        "redeleg" => cosmwasm_std::StakingMsg::Redelegate {
            src_validator: l.get(1)?.atom().to_string(),
            dst_validator: l.get(2)?.atom().to_string(),
            amount: one_coin(l.get(3)?.atom())?,
        }
        .into(),
        "withdraw" => cosmwasm_std::DistributionMsg::WithdrawDelegatorReward { validator: l.get(1)?.atom().to_string() }.into(),
        "setwd" => cosmwasm_std::DistributionMsg::SetWithdrawAddress { address: real(l.get(1)?.atom()) }.into(),
        "send" => BankMsg::Send { to_address: real(l.get(1)?.atom()), amount: parse_coins(l.get(2)?.atom()) }.into(),
        "burn" => BankMsg::Burn { amount: parse_coins(l.get(1)?.atom()) }.into(),
        "ext" => {
            let payload = unhex(l.get(2)?.atom());
            match l.get(1)?.atom() {
                "custom" => CosmosMsg::Custom(Empty {}),
                "ibc" => IbcMsg::CloseChannel { channel_id: hex(&payload) }.into(),
                "gov" => GovMsg::Vote { proposal_id: payload.len() as u64, option: VoteOption::Yes }.into(),
                #[allow(deprecated)]
                "stargate" => CosmosMsg::Stargate { type_url: "/verif".into(), value: Binary::from(payload) },
                "any" => CosmosMsg::Any(AnyMsg { type_url: "/verif".into(), value: Binary::from(payload) }),
                _ => return None,
            }
        }
        _ => return None,
    })
}

// ------------------------------------------------------------------------------------------------
// the scripted contract

pub struct Scripted {
    pub tag: String,
    /// `Contract::checksum` override (None = the keeper's checksum generator decides)
    pub checksum: Option<cosmwasm_std::Checksum>,
}

enum Store<'a> {
    Rw(&'a mut dyn Storage),
    Ro(&'a dyn Storage),
}

fn unquote(msg: &[u8]) -> String {
    let s = String::from_utf8_lossy(msg).to_string();
    if s.len() >= 2 && s.starts_with('"') && s.ends_with('"') {
        s[1..s.len() - 1].to_string()
    } else {
        s
    }
}

/// Runs the actions; returns (Ok(response) | Err, notes)
fn interp(
    actions: &[Sx],
    mut store: Store,
    querier: &cosmwasm_std::QuerierWrapper<Empty>,
) -> (Result<Response, ()>, Vec<String>) {
    let mut resp = Response::new();
    let mut notes: Vec<String> = vec![];
    for act in actions {
        let l = act.list();
        let head = match l.first() {
            Some(h) => h.atom(),
            None => return (Err(()), notes),
        };
        let a = |i: usize| l.get(i).map(|x| x.atom()).unwrap_or("");
        match head {
            "w" => match &mut store {
                Store::Rw(s) => s.set(&unhex(a(1)), &unhex(a(2))),
                Store::Ro(_) => return (Err(()), notes),
            },
            "rm" => match &mut store {
                Store::Rw(s) => s.remove(&unhex(a(1))),
                Store::Ro(_) => return (Err(()), notes),
            },
            "rd" => {
                let k = unhex(a(1));
                let v = match &store {
                    Store::Rw(s) => s.get(&k),
                    Store::Ro(s) => s.get(&k),
                };
                notes.push(format!("rd={}", match v { Some(v) => hex(&v), None => "none".into() }));
            }
            "rng" => {
                let (s, e) = (unhex_opt(a(1)), unhex_opt(a(2)));
                let o = if a(3) == "desc" { Order::Descending } else { Order::Ascending };
                let recs: Vec<_> = match &store {
                    Store::Rw(st) => st.range(s.as_deref(), e.as_deref(), o).collect(),
                    Store::Ro(st) => st.range(s.as_deref(), e.as_deref(), o).collect(),
                };
                notes.push(format!("rng={}", fmt_records(&recs)));
            }
            "rngk" => {
                // Storage::range_keys on the contract's (prefixed) storage
                let (s, e) = (unhex_opt(a(1)), unhex_opt(a(2)));
                let o = if a(3) == "desc" { Order::Descending } else { Order::Ascending };
                let ks: Vec<Vec<u8>> = match &store {
                    Store::Rw(st) => st.range_keys(s.as_deref(), e.as_deref(), o).collect(),
                    Store::Ro(st) => st.range_keys(s.as_deref(), e.as_deref(), o).collect(),
                };
                notes.push(format!("rngk=[{}]", ks.iter().map(|k| hex(k)).collect::<Vec<_>>().join(",")));
            }
            "rngv" => {
                // Storage::range_values on the contract's (prefixed) storage
                let (s, e) = (unhex_opt(a(1)), unhex_opt(a(2)));
                let o = if a(3) == "desc" { Order::Descending } else { Order::Ascending };
                let vs: Vec<Vec<u8>> = match &store {
                    Store::Rw(st) => st.range_values(s.as_deref(), e.as_deref(), o).collect(),
                    Store::Ro(st) => st.range_values(s.as_deref(), e.as_deref(), o).collect(),
                };
                notes.push(format!("rngv=[{}]", vs.iter().map(|k| hex(k)).collect::<Vec<_>>().join(",")));
            }
            "attr" => resp = resp.add_attribute(pdec(a(1)), pdec(a(2))),
            "ev" => {
                let mut ev = Event::new(pdec(a(1)));
                for kv in &l[2..] {
                    let kv = kv.list();
                    if kv.len() == 2 {
                        ev = ev.add_attribute(pdec(kv[0].atom()), pdec(kv[1].atom()));
                    }
                }
                resp = resp.add_event(ev);
            }
            "data" => resp = resp.set_data(unhex(a(1))),
            "qbal" => notes.push(match querier.query_balance(real(a(1)), a(2)) {
                Ok(c) => format!("qbal={}", c.amount),
                Err(_) => "qbal=err".into(),
            }),
            "qall" => {
                #[allow(deprecated)]
                let r: Result<AllBalanceResponse, _> =
                    querier.query(&QueryRequest::Bank(BankQuery::AllBalances { address: real(a(1)) }));
                notes.push(match r {
                    Ok(r) => format!("qall={}", fmt_coins(&r.amount)),
                    Err(_) => "qall=err".into(),
                });
            }
            "qsup" => notes.push(match querier.query_supply(a(1)) {
                Ok(c) => format!("qsup={}", c.amount),
                Err(_) => "qsup=err".into(),
            }),
            "qraw" => notes.push(match querier.query_wasm_raw(real(a(1)), unhex(a(2))) {
                Ok(Some(v)) => format!("qraw={}", hex(&v)),
                Ok(None) => "qraw=-".into(),
                Err(_) => "qraw=err".into(),
            }),
            "qsmart" => {
                let text = l.get(2).map(|x| x.print()).unwrap_or_default();
                notes.push(match querier.query_wasm_smart::<String>(real(a(1)), &text) {
                    Ok(s) => format!("qsmart={}", penc(&s)),
                    Err(_) => "qsmart=err".into(),
                });
            }
            "qinfo" => notes.push(match querier.query_wasm_contract_info(real(a(1))) {
                Ok(i) => format!("qinfo={}", fmt_info(&i)),
                Err(_) => "qinfo=err".into(),
            }),
            "qcode" => notes.push(match a(1).parse::<u64>().ok().map(|id| querier.query_wasm_code_info(id)) {
                Some(Ok(c)) => format!("qcode={},{}", c.creator, hex(c.checksum.as_slice())),
                _ => "qcode=err".into(),
            }),
            "qdeleg" => notes.push(match querier.query_delegation(real(a(1)), a(2)) {
                Ok(Some(d)) => format!("qdeleg={}:{}", d.amount.amount, fmt_coins(&d.accumulated_rewards)),
                Ok(None) => "qdeleg=none".into(),
                Err(_) => "qdeleg=err".into(),
            }),
            "qalldeleg" => notes.push(match querier.query_all_delegations(real(a(1))) {
                Ok(ds) => format!(
                    "qalldeleg={}",
                    ds.iter().map(|d| format!("{}:{}", d.validator, d.amount.amount)).collect::<Vec<_>>().join(",")
                ),
                Err(_) => "qalldeleg=err".into(),
            }),
            "qbonded" => notes.push(match querier.query_bonded_denom() {
                Ok(d) => format!("qbonded={}", d),
                Err(_) => "qbonded=err".into(),
            }),
            "sub" => {
                let id: u64 = a(1).parse().unwrap_or(0);
                let payload = l.get(3).map(|x| x.print()).unwrap_or_default();
                match l.get(4).and_then(to_msg) {
                    Some(m) => {
                        let mut sm = SubMsg::new(m);
                        sm.id = id;
                        sm.reply_on = reply_on(a(2));
                        sm.payload = Binary::from(payload.into_bytes());
                        resp = resp.add_submessage(sm);
                    }
                    None => return (Err(()), notes),
                }
            }
            "msg" => match l.get(1).and_then(to_msg) {
                Some(m) => resp = resp.add_message(m),
                None => return (Err(()), notes),
            },
            "fail" => return (Err(()), notes),
            _ => return (Err(()), notes),
        }
    }
    (Ok(resp), notes)
}

/// FNV-1a (32 bit) of the script text: lets a reader of the trace tell which script an invocation ran
pub fn fnv(text: &str) -> u32 {
    let mut h: u32 = 0x811c9dc5;
    for b in text.bytes() {
        h ^= b as u32;
        h = h.wrapping_mul(0x01000193);
    }
    h
}

fn fmt_info(i: &ContractInfoResponse) -> String {
    format!("{},{},{}", i.code_id, i.creator, i.admin.as_ref().map(|a| a.to_string()).unwrap_or_else(|| "~".into()))
}

impl Scripted {
    fn run(
        &self,
        deps: DepsMut,
        env: Env,
        entry: &str,
        info: Option<&MessageInfo>,
        script_text: String,
        extra: String,
    ) -> AnyResult<Response> {
        let actions = parse(&script_text).and_then(|v| v.into_iter().next()).map(|s| s.list().to_vec());
        let (res, notes) = match actions {
            Some(acts) => interp(&acts, Store::Rw(deps.storage), &deps.querier),
            None => (Err(()), vec!["unparsed".into()]),
        };
        // the chain id the contract is told is noted when it is not the default one
        let mut notes = notes;
        if env.block.chain_id != "cosmos-testnet-14002" {
            notes.insert(0, format!("cid={}", penc(&env.block.chain_id)));
        }
        let line = format!(
            "{} {} {} {} {} {} {} {}#{:08x}|{}",
            env.contract.address,
            entry,
            self.tag,
            info.map(|i| i.sender.to_string()).unwrap_or_else(|| "-".into()),
            info.map(|i| fmt_coins(&i.funds)).unwrap_or_else(|| "-".into()),
            env.block.height,
            env.block.time.nanos(),
            extra,
            fnv(&script_text),
            notes.join(";")
        );
        let cur = CUR_APP.with(|c| *c.borrow());
        TRACE.with(|t| t.borrow_mut()[cur].push(line));
        res.map_err(|_| anyhow::anyhow!("scripted failure"))
    }
}

impl Contract<Empty> for Scripted {
    fn execute(&self, deps: DepsMut, env: Env, info: MessageInfo, msg: Vec<u8>) -> AnyResult<Response> {
        self.run(deps, env, "execute", Some(&info), unquote(&msg), "-".into())
    }
    fn instantiate(&self, deps: DepsMut, env: Env, info: MessageInfo, msg: Vec<u8>) -> AnyResult<Response> {
        self.run(deps, env, "instantiate", Some(&info), unquote(&msg), "-".into())
    }
    fn query(&self, deps: Deps, _env: Env, msg: Vec<u8>) -> AnyResult<Binary> {
        let text = unquote(&msg);
        let actions = parse(&text).and_then(|v| v.into_iter().next()).map(|s| s.list().to_vec());
        match actions {
            Some(acts) => {
                let (res, notes) = interp(&acts, Store::Ro(deps.storage), &deps.querier);
                match res {
                    Ok(_) => Ok(to_json_binary(&format!("{}:{}", self.tag, notes.join(";")))?),
                    Err(_) => Err(anyhow::anyhow!("scripted query failure")),
                }
            }
            None => Err(anyhow::anyhow!("unparsed")),
        }
    }
    fn sudo(&self, deps: DepsMut, env: Env, msg: Vec<u8>) -> AnyResult<Response> {
        self.run(deps, env, "sudo", None, unquote(&msg), "-".into())
    }
    fn reply(&self, deps: DepsMut, env: Env, msg: Reply) -> AnyResult<Response> {
        #[allow(deprecated)]
        let res = match &msg.result {
            SubMsgResult::Ok(r) => format!("ok:{}:{}", fmt_data(&r.data), fmt_events(&r.events)),
            SubMsgResult::Err(_) => "err".to_string(),
        };
        let text = String::from_utf8_lossy(msg.payload.as_slice()).to_string();
        // Reply::gas_used is not metered by the simulator: always 0
        let extra = format!("reply:{}:{}~g{}", msg.id, res, msg.gas_used);
        self.run(deps, env, "reply", None, text, extra)
    }
    fn migrate(&self, deps: DepsMut, env: Env, msg: Vec<u8>) -> AnyResult<Response> {
        self.run(deps, env, "migrate", None, unquote(&msg), "-".into())
    }
    fn checksum(&self) -> Option<cosmwasm_std::Checksum> {
        self.checksum
    }
}

// ------------------------------------------------------------------------------------------------
// the same scripted behaviour packaged the way users write contracts: plain functions over the
// `Empty` message type, lifted by `ContractWrapper::new_with_empty` / `with_*_empty`

const WTAG: &str = "W";

fn w_exec(deps: DepsMut, env: Env, info: MessageInfo, msg: String) -> AnyResult<Response> {
    Scripted { tag: WTAG.into(), checksum: None }.run(deps, env, "execute", Some(&info), msg, "-".into())
}
fn w_inst(deps: DepsMut, env: Env, info: MessageInfo, msg: String) -> AnyResult<Response> {
    Scripted { tag: WTAG.into(), checksum: None }.run(deps, env, "instantiate", Some(&info), msg, "-".into())
}
fn w_query(deps: Deps, env: Env, msg: String) -> AnyResult<Binary> {
    Scripted { tag: WTAG.into(), checksum: None }.query(deps, env, json_str(&msg))
}
fn w_sudo(deps: DepsMut, env: Env, msg: String) -> AnyResult<Response> {
    Scripted { tag: WTAG.into(), checksum: None }.run(deps, env, "sudo", None, msg, "-".into())
}
fn w_migrate(deps: DepsMut, env: Env, msg: String) -> AnyResult<Response> {
    Scripted { tag: WTAG.into(), checksum: None }.run(deps, env, "migrate", None, msg, "-".into())
}
fn w_reply(deps: DepsMut, env: Env, msg: Reply) -> AnyResult<Response> {
    Scripted { tag: WTAG.into(), checksum: None }.reply(deps, env, msg)
}

// the same behaviour packaged WITHOUT the optional entry points: `ContractWrapper::new_with_empty(exec, inst, query)` only.
// Asking such a contract for `reply`, `sudo` or `migrate` is an error (never a silent success).
fn n_exec(deps: DepsMut, env: Env, info: MessageInfo, msg: String) -> AnyResult<Response> {
    Scripted { tag: "N".into(), checksum: None }.run(deps, env, "execute", Some(&info), msg, "-".into())
}
fn n_inst(deps: DepsMut, env: Env, info: MessageInfo, msg: String) -> AnyResult<Response> {
    Scripted { tag: "N".into(), checksum: None }.run(deps, env, "instantiate", Some(&info), msg, "-".into())
}
fn n_query(deps: Deps, env: Env, msg: String) -> AnyResult<Binary> {
    Scripted { tag: "N".into(), checksum: None }.query(deps, env, json_str(&msg))
}

pub fn bare_contract() -> Box<dyn Contract<Empty>> {
    Box::new(cw_multi_test::ContractWrapper::new_with_empty(n_exec, n_inst, n_query))
}

pub fn wrapped_contract() -> Box<dyn Contract<Empty>> {
    Box::new(
        cw_multi_test::ContractWrapper::new_with_empty(w_exec, w_inst, w_query)
            .with_sudo_empty(w_sudo)
            .with_reply_empty(w_reply)
            .with_migrate_empty(w_migrate),
    )
}

// ------------------------------------------------------------------------------------------------
// address computation for `bind`

pub fn classic_addr<A: Api>(app: &AppOf<A>, code_id: u64, instance: u64) -> String {
    let mut st = cosmwasm_std::testing::MockStorage::new();
    SimpleAddressGenerator
        .contract_address(app.api(), &mut st, code_id, instance)
        .map(|a| a.to_string())
        .unwrap_or_else(|_| "addr-error".into())
}

pub fn default_checksum(code_id: u64) -> Vec<u8> {
    cosmwasm_std::Checksum::generate(format!("contract code {}", code_id).as_bytes()).as_slice().to_vec()
}

pub fn salted_addr<A: Api>(app: &AppOf<A>, checksum: &[u8], creator_real: &str, salt: &[u8]) -> String {
    use cosmwasm_std::Api;
    let mut st = cosmwasm_std::testing::MockStorage::new();
    let canon = match app.api().addr_canonicalize(creator_real) {
        Ok(c) => c,
        Err(_) => return "addr-error".into(),
    };
    SimpleAddressGenerator
        .predictable_contract_address(app.api(), &mut st, 0, 0, checksum, &canon, salt)
        .map(|a| a.to_string())
        .unwrap_or_else(|_| "addr-error".into())
}

/// real address of a symbol that the harness can compute by itself
pub fn compute_sym(app: &App, sym: &str) -> Option<String> {
    if let Some(rest) = sym.strip_prefix('c') {
        if let Some((c, i)) = rest.split_once('_') {
            if let (Ok(c), Ok(i)) = (c.parse::<u64>(), i.parse::<u64>()) {
                return Some(classic_addr(app, c, i));
            }
        }
    }
    if sym.starts_with('u') || sym.starts_with('n') || sym == "creator" {
        return Some(app.api().addr_make(sym).to_string());
    }
    None
}

// ------------------------------------------------------------------------------------------------
// dumps

fn strip<'a>(k: &'a [u8], p: &[u8]) -> Option<&'a [u8]> {
    if k.starts_with(p) {
        Some(&k[p.len()..])
    } else {
        None
    }
}

pub fn dump<A: Api>(app: &AppOf<A>) -> String {
    let mut bank: BTreeMap<String, String> = BTreeMap::new();
    let mut contracts: BTreeMap<String, String> = BTreeMap::new();
    let mut store: BTreeMap<String, Vec<(Vec<u8>, Vec<u8>)>> = BTreeMap::new();
    let mut other: Vec<String> = vec![];
    let mut stk = StkDump::default();
    for (k, v) in app.storage().range(None, None, Order::Ascending) {
        if let Some(a) = strip(&k, b"\x00\x04bank\x00\x08balances") {
            let coins: Vec<Coin> = serde_json::from_slice(&v).unwrap_or_default();
            bank.insert(String::from_utf8_lossy(a).to_string(), fmt_coins(&coins));
            continue;
        }
        if let Some(rest) = strip(&k, b"\x00\x04wasm") {
            if let Some(a) = strip(rest, b"\x00\x09contracts") {
                let j: serde_json::Value = serde_json::from_slice(&v).unwrap_or(serde_json::Value::Null);
                let s = format!(
                    "{},{},{},{},{}",
                    j["code_id"].as_u64().unwrap_or(0),
                    j["creator"].as_str().unwrap_or("?"),
                    j["admin"].as_str().unwrap_or("~"),
                    penc(j["label"].as_str().unwrap_or("?")),
                    j["created"].as_u64().unwrap_or(0)
                );
                contracts.insert(String::from_utf8_lossy(a).to_string(), s);
                continue;
            }
            if rest.len() >= 2 {
                let n = ((rest[0] as usize) << 8) | rest[1] as usize;
                if rest.len() >= 2 + n {
                    let ns = &rest[2..2 + n];
                    if let Some(a) = strip(ns, b"contract_data/") {
                        store
                            .entry(String::from_utf8_lossy(a).to_string())
                            .or_default()
                            .push((rest[2 + n..].to_vec(), v.clone()));
                        continue;
                    }
                }
            }
        }
        if let Some(rest) = strip(&k, b"\x00\x07staking") {
            if stk.absorb_staking(rest, &v) {
                continue;
            }
        }
        if let Some(rest) = strip(&k, b"\x00\x0cdistribution") {
            if let Some(a) = strip(rest, b"\x00\x10withdraw_address") {
                let to: String = serde_json::from_slice(&v).unwrap_or_default();
                stk.wd.push(format!("{}>{}", String::from_utf8_lossy(a), to));
                continue;
            }
        }
        // set_block/update_block run the staking module's process_queue, which persists the
        // (here always empty) unbonding queue; an empty queue is the same state as no queue
        if k == b"\x00\x07stakingunbonding_queue" && v == b"[]" {
            continue;
        }
        other.push(format!("{}={}", hex(&k), hex(&v)));
    }
    let j = |m: &BTreeMap<String, String>| m.iter().map(|(k, v)| format!("{}={}", k, v)).collect::<Vec<_>>().join(";");
    let st = store.iter().map(|(k, v)| format!("{}={}", k, fmt_records(v))).collect::<Vec<_>>().join(";");
    format!("bank{{{}}} contracts{{{}}} store{{{}}} other{{{}}}{}", j(&bank), j(&contracts), st, other.join(";"), stk.render())
}

/// decoded staking / distribution state (present in the dump only when the modules hold any record)
#[derive(Default)]
struct StkDump {
    info: Option<String>,
    vals: BTreeMap<u32, String>,
    stakes: Vec<String>,
    vinfo: Vec<String>,
    queue: Option<String>,
    wd: Vec<String>,
}

impl StkDump {
    /// `rest` = raw key below the `staking` namespace; returns false when the key is not understood
    fn absorb_staking(&mut self, rest: &[u8], v: &[u8]) -> bool {
        let j: serde_json::Value = serde_json::from_slice(v).unwrap_or(serde_json::Value::Null);
        let dec = |x: &serde_json::Value| -> String {
            // Decimal is serialised as a decimal string; print its atomics (18 fractional digits)
            x.as_str()
                .and_then(|s| s.parse::<cosmwasm_std::Decimal>().ok())
                .map(|d| d.atomics().to_string())
                .unwrap_or_else(|| "?".into())
        };
        let secs = |x: &serde_json::Value| -> String {
            x.as_str().and_then(|s| s.parse::<u128>().ok()).map(|n| n.to_string()).unwrap_or_else(|| "?".into())
        };
        if rest == b"staking_info" {
            self.info = Some(format!("{}:{}:{}", j["bonded_denom"].as_str().unwrap_or("?"), j["unbonding_time"], dec(&j["apr"])));
            return true;
        }
        if rest == b"unbonding_queue" {
            let items: Vec<String> = j
                .as_array()
                .map(|a| {
                    a.iter()
                        .map(|u| {
                            format!(
                                "{}/{}:{}:{}",
                                u["delegator"].as_str().unwrap_or("?"),
                                u["validator"].as_str().unwrap_or("?"),
                                u["amount"].as_str().unwrap_or("?"),
                                secs(&u["payout_at"])
                            )
                        })
                        .collect()
                })
                .unwrap_or_default();
            if !items.is_empty() {
                self.queue = Some(items.join(","));
            }
            return true;
        }
        if let Some(r) = strip(rest, b"\x00\x06stakes") {
            if r.len() >= 2 {
                let n = ((r[0] as usize) << 8) | r[1] as usize;
                if r.len() >= 2 + n {
                    self.stakes.push(format!(
                        "{}/{}:{}:{}",
                        String::from_utf8_lossy(&r[2..2 + n]),
                        String::from_utf8_lossy(&r[2 + n..]),
                        dec(&j["stake"]),
                        dec(&j["rewards"])
                    ));
                    return true;
                }
            }
            return false;
        }
        if let Some(r) = strip(rest, b"\x00\x0evalidator_info") {
            let mut stakers: Vec<String> =
                j["stakers"].as_array().map(|a| a.iter().map(|x| x.as_str().unwrap_or("?").to_string()).collect()).unwrap_or_default();
            stakers.sort();
            self.vinfo.push(format!(
                "{}:{}:{}:{}",
                String::from_utf8_lossy(r),
                j["stake"].as_str().unwrap_or("?"),
                secs(&j["last_rewards_calculation"]),
                stakers.join("+")
            ));
            return true;
        }
        if strip(rest, b"\x00\x0dvalidator_map").is_some() {
            return true; // same records as the `validators` deque
        }
        if let Some(r) = strip(rest, b"\x00\x0avalidators") {
            if r == b"h" || r == b"t" {
                return true;
            }
            if r.len() == 4 {
                self.vals.insert(
                    u32::from_be_bytes([r[0], r[1], r[2], r[3]]),
                    format!("{}:{}", j["address"].as_str().unwrap_or("?"), dec(&j["commission"])),
                );
                return true;
            }
        }
        false
    }

    fn render(mut self) -> String {
        if self.info.is_none() && self.vals.is_empty() && self.stakes.is_empty() && self.vinfo.is_empty() && self.queue.is_none() && self.wd.is_empty() {
            return String::new();
        }
        self.stakes.sort();
        self.vinfo.sort();
        self.wd.sort();
        format!(
            " stk{{info={};vals={};stakes={};vinfo={};queue={};wd={}}}",
            self.info.unwrap_or_else(|| "TOKEN:60:100000000000000000".into()),
            self.vals.values().cloned().collect::<Vec<_>>().join(","),
            self.stakes.join(","),
            self.vinfo.join(","),
            self.queue.unwrap_or_default(),
            self.wd.join(",")
        )
    }
}

fn raw_hash<A: Api>(app: &AppOf<A>) -> String {
    use std::hash::{Hash, Hasher};
    let mut h = std::collections::hash_map::DefaultHasher::new();
    for (k, v) in app.storage().range(None, None, Order::Ascending) {
        k.hash(&mut h);
        v.hash(&mut h);
    }
    format!("!h={:016x}", h.finish())
}

// ------------------------------------------------------------------------------------------------
// executor

fn outcome<T>(r: Option<AnyResult<T>>, f: impl FnOnce(T) -> String) -> String {
    match r {
        None => "panic".into(),
        Some(Err(_)) => "err".into(),
        Some(Ok(v)) => f(v),
    }
}

pub fn exec_wasm(lines: &[String]) -> Vec<String> {
    exec_wasm_on(vec![App::default(), App::default(), App::default()], compute_sym, lines)
}

fn compute_sym_legacy(_app: &AppOf<LegacyApi>, sym: &str) -> Option<String> {
    if let Some(rest) = sym.strip_prefix('c') {
        if let Some((c, i)) = rest.split_once('_') {
            if c.parse::<u64>().is_ok() && i.parse::<u64>().is_ok() {
                return Some(legacy_name(i.parse().unwrap_or(0)));
            }
        }
    }
    if sym == "creator" {
        // App::store_code always uses MockApi's address for the default creator
        return Some(cosmwasm_std::testing::MockApi::default().addr_make("creator").to_string());
    }
    if sym.starts_with('u') || sym.starts_with('n') {
        return Some(sym.to_string());
    }
    None
}

/// App whose Api is the crate's own `MockApiBech32` with prefix `juno`
pub fn bech_app() -> AppOf<cw_multi_test::MockApiBech32> {
    AppBuilder::new().with_api(cw_multi_test::MockApiBech32::new("juno")).build(cw_multi_test::no_init)
}

fn compute_sym_with<A: Api>(app: &AppOf<A>, sym: &str, make: &dyn Fn(&str) -> String) -> Option<String> {
    if let Some(rest) = sym.strip_prefix('c') {
        if let Some((c, i)) = rest.split_once('_') {
            if let (Ok(c), Ok(i)) = (c.parse::<u64>(), i.parse::<u64>()) {
                return Some(classic_addr(app, c, i));
            }
        }
    }
    if sym == "creator" {
        return Some(cosmwasm_std::testing::MockApi::default().addr_make("creator").to_string());
    }
    if sym.starts_with('u') || sym.starts_with('n') {
        return Some(make(sym));
    }
    None
}

fn compute_sym_bech(app: &AppOf<cw_multi_test::MockApiBech32>, sym: &str) -> Option<String> {
    compute_sym_with(app, sym, &|s| app.api().addr_make(s).to_string())
}

fn compute_sym_bechm(app: &AppOf<cw_multi_test::MockApiBech32m>, sym: &str) -> Option<String> {
    compute_sym_with(app, sym, &|s| app.api().addr_make(s).to_string())
}

pub fn exec_wasm_bech(lines: &[String]) -> Vec<String> {
    exec_wasm_on(vec![bech_app(), bech_app(), bech_app()], compute_sym_bech, lines)
}

/// App whose Api is the crate's own `MockApiBech32m` with the SAME prefix `juno`
pub fn bechm_app() -> AppOf<cw_multi_test::MockApiBech32m> {
    AppBuilder::new().with_api(cw_multi_test::MockApiBech32m::new("juno")).build(cw_multi_test::no_init)
}

/// Slice `wasm-bech-mix` (C19: "nothing depends on what other application instances in the same process have
/// done", here instances of a *different configuration*): the case is run (a) on fresh Bech32m Apps in a fresh
/// thread — the reference —, (b) on Bech32 Apps with the same prefix in this thread (discarded), (c) on fresh
/// Bech32m Apps in this thread. The transcript of (c) is what is compared with the model; if it differs from
/// (a) anywhere, an implementation-only line `!nondet …` is appended to the last op's output.
pub fn exec_wasm_bech_mix(lines: &[String]) -> Vec<String> {
    let owned: Vec<String> = lines.to_vec();
    let reference = std::thread::spawn(move || {
        exec_wasm_on(vec![bechm_app(), bechm_app(), bechm_app()], compute_sym_bechm, &owned)
    })
    .join()
    .ok();
    // the same history with the addresses of the other variant: binds are recomputed by the executor, results discarded
    let _ = crate::util::guarded(|| exec_wasm_on(vec![bech_app(), bech_app(), bech_app()], compute_sym_bech, lines));
    let mut out = exec_wasm_on(vec![bechm_app(), bechm_app(), bechm_app()], compute_sym_bechm, lines);
    let verdict = match reference {
        None => Some("!nondet reference run in a fresh thread panicked".to_string()),
        Some(r) => r.iter().zip(out.iter()).position(|(a, b)| a != b).map(|k| {
            let cut = |x: &String| x.chars().take(160).collect::<String>();
            format!("!nondet op={} fresh-thread=`{}` after-other-variant=`{}`", k, cut(&r[k]), cut(&out[k]))
        }),
    };
    // the generator ends every case of this slice with the op `nondet`, whose answer is implementation-only
    if let Some(v) = verdict {
        match lines.iter().rposition(|l| l == "nondet") {
            Some(k) if k < out.len() => out[k] = v,
            _ => out.push(v),
        }
    }
    out
}

/// re-declares the `bind*` lines of a generated case with the addresses of the Bech32m App
pub fn rebind_bechm(lines: Vec<String>) -> Vec<String> {
    rebind_with(&bechm_app(), compute_sym_bechm, lines)
}

/// re-declares the `bind*` lines of a generated case with the addresses of the Bech32 App
pub fn rebind_bech(lines: Vec<String>) -> Vec<String> {
    rebind_with(&bech_app(), compute_sym_bech, lines)
}

fn rebind_with<A: Api>(app: &AppOf<A>, sym_fn: fn(&AppOf<A>, &str) -> Option<String>, lines: Vec<String>) -> Vec<String> {
    let mut syms: HashMap<String, String> = HashMap::new();
    let mut out = vec![];
    for l in lines {
        let t: Vec<&str> = l.split(' ').collect();
        if t[0] == "bind" && t.len() >= 3 {
            let r = sym_fn(app, t[1]).unwrap_or_else(|| t[2].to_string());
            syms.insert(t[1].to_string(), r.clone());
            out.push(format!("bind {} {}", t[1], r));
        } else if t[0] == "bind2" && t.len() >= 5 {
            let creator = syms.get(t[2]).cloned().unwrap_or_else(|| t[2].to_string());
            let r = salted_addr(app, &default_checksum(t[1].parse().unwrap_or(0)), &creator, &unhex(t[3]));
            out.push(format!("bind2 {} {} {} {}", t[1], t[2], t[3], r));
        } else if t[0] == "bind2x" && t.len() >= 5 {
            let creator = syms.get(t[2]).cloned().unwrap_or_else(|| t[2].to_string());
            let r = salted_addr(app, &unhex(t[1]), &creator, &unhex(t[3]));
            out.push(format!("bind2x {} {} {} {}", t[1], t[2], t[3], r));
        } else {
            out.push(l);
        }
    }
    out
}

pub fn exec_wasm_legacy(lines: &[String]) -> Vec<String> {
    exec_wasm_on(vec![legacy_app(), legacy_app(), legacy_app()], compute_sym_legacy, lines)
}

fn exec_wasm_on<A: Api>(mut apps: Vec<AppOf<A>>, sym_fn: fn(&AppOf<A>, &str) -> Option<String>, lines: &[String]) -> Vec<String> {
    reset_tls();
    let mut cur = 0usize;
    let mut out = vec![];
    for line in lines {
        let items = match parse(line) {
            Some(v) if !v.is_empty() => v,
            _ => {
                out.push("bad-op".into());
                continue;
            }
        };
        let a = |i: usize| items.get(i).map(|x| x.atom()).unwrap_or("");
        let app = &mut apps[cur];
        let res: String = match a(0) {
            "app" => {
                cur = match a(1) {
                    "2" => 1,
                    "3" => 2,
                    _ => 0,
                };
                CUR_APP.with(|c| *c.borrow_mut() = cur);
                "ok".into()
            }
            "section" => "ok".into(),
            "bind" => {
                let r = sym_fn(app, a(1)).unwrap_or_else(|| a(2).to_string());
                bind_sym(a(1), &r);
                format!("bound {}", r)
            }
            "bind2" => {
                // bind2 <codeid whose default checksum is used> <creator sym> <salt hex> <real>
                let chk = default_checksum(a(1).parse().unwrap_or(0));
                let r = salted_addr(app, &chk, &real(a(2)), &unhex(a(3)));
                bind_sym(&format!("i2_{}_{}_{}", a(1), a(2), a(3)), &r);
                format!("bound {}", r)
            }
            "bindc" => format!("bound {}", hex(&default_checksum(a(1).parse().unwrap_or(0)))),
            "store" => {
                let tag = a(1).to_string();
                outcome(guarded(|| Ok(app.store_code(Box::new(Scripted { tag, checksum: None })))), |id| format!("id {}", id))
            }
            "store-c" => {
                // store-c TAG CHKHEX: the code carries its own 32-byte checksum
                let tag = a(1).to_string();
                let mut arr = [0u8; 32];
                let bytes = unhex(a(2));
                if bytes.len() == 32 {
                    arr.copy_from_slice(&bytes);
                }
                let checksum = Some(cosmwasm_std::Checksum::from(arr));
                outcome(guarded(|| Ok(app.store_code(Box::new(Scripted { tag, checksum })))), |id| format!("id {}", id))
            }
            "bind2x" => {
                // bind2x <checksum hex> <creator sym> <salt hex> <real>
                let r = salted_addr(app, &unhex(a(1)), &real(a(2)), &unhex(a(3)));
                format!("bound {}", r)
            }
            "store-w" => outcome(guarded(|| Ok(app.store_code(wrapped_contract()))), |id| format!("id {}", id)),
            "store-n" => outcome(guarded(|| Ok(app.store_code(bare_contract()))), |id| format!("id {}", id)),
            "store-as" => {
                let (c, tag) = (Addr::unchecked(real(a(1))), a(2).to_string());
                outcome(guarded(|| Ok(app.store_code_with_creator(c, Box::new(Scripted { tag, checksum: None })))), |id| format!("id {}", id))
            }
            "store-id" => {
                let (c, id, tag) = (Addr::unchecked(real(a(1))), a(2).parse::<u64>().unwrap_or(0), a(3).to_string());
                outcome(guarded(|| app.store_code_with_id(c, id, Box::new(Scripted { tag, checksum: None }))), |id| format!("id {}", id))
            }
            "dup" => {
                let id = a(1).parse::<u64>().unwrap_or(0);
                outcome(guarded(|| app.duplicate_code(id)), |id| format!("id {}", id))
            }
            "block" => {
                // `block same T`: set_block with the CURRENT height and another time
                let h = if a(1) == "same" { app.block_info().height } else { a(1).parse::<u64>().unwrap_or(0) };
                let t = a(2).parse::<u64>().unwrap_or(0);
                let chain_id = app.block_info().chain_id;
                outcome(
                    guarded(|| {
                        app.set_block(BlockInfo { height: h, time: Timestamp::from_nanos(t), chain_id });
                        Ok(())
                    }),
                    |_| "ok".into(),
                )
            }
            // `block-chain ID`: set_block with the current height and time and another chain id
            "block-chain" => {
                let b = app.block_info();
                let chain_id = pdec(a(1));
                outcome(
                    guarded(|| {
                        app.set_block(BlockInfo { height: b.height, time: b.time, chain_id });
                        Ok(())
                    }),
                    |_| "ok".into(),
                )
            }
            "next-block" => outcome(guarded(|| { app.update_block(next_block); Ok(()) }), |_| "ok".into()),
            "block-info" => {
                let b = app.block_info();
                format!("{} {} {}", b.height, b.time.nanos(), penc(&b.chain_id))
            }
            "init-bal" => {
                let (addr, coins) = (Addr::unchecked(real(a(1))), parse_coins(a(2)));
                outcome(
                    guarded(|| app.init_modules(|router, _, storage| router.bank.init_balance(storage, &addr, coins))),
                    |_| "ok".into(),
                )
            }
            // `exec-bare`: the same as `exec`; a separate name because the tree involves a contract without a reply entry point
            // (the model-free predicates, which assume that every contract has one, leave these transactions alone)
            "exec" | "exec-bare" => {
                let sender = Addr::unchecked(real(a(1)));
                match items.get(2).and_then(to_msg) {
                    Some(m) => outcome(guarded(|| app.execute(sender, m)), |r| format!("ok {}", fmt_resp(&r))),
                    None => "bad-op".into(),
                }
            }
            "multi" => {
                let sender = Addr::unchecked(real(a(1)));
                let msgs: Option<Vec<CosmosMsg>> = items.get(2).map(|l| l.list().iter().map(to_msg).collect()).unwrap_or(None);
                match msgs {
                    Some(ms) => outcome(guarded(|| app.execute_multi(sender, ms)), |rs| {
                        format!("ok {}", rs.iter().map(fmt_resp).collect::<Vec<_>>().join(" / "))
                    }),
                    None => "bad-op".into(),
                }
            }
            "sudo-mint" => {
                let m = BankSudo::Mint { to_address: real(a(1)), amount: parse_coins(a(2)) };
                outcome(guarded(|| app.sudo(m.into())), |r| format!("ok {}", fmt_resp(&r)))
            }
            "stk-setup" => {
                let info = cw_multi_test::StakingInfo {
                    bonded_denom: a(1).to_string(),
                    unbonding_time: a(2).parse().unwrap_or(60),
                    apr: cosmwasm_std::Decimal::new(Uint128::new(a(3).parse().unwrap_or(0))),
                };
                outcome(guarded(|| app.init_modules(|router, _, storage| router.staking.setup(storage, info))), |_| "ok".into())
            }
            "stk-val" => {
                let val = cosmwasm_std::Validator::create(
                    a(1).to_string(),
                    cosmwasm_std::Decimal::new(Uint128::new(a(2).parse().unwrap_or(0))),
                    cosmwasm_std::Decimal::one(),
                    cosmwasm_std::Decimal::one(),
                );
                let block = app.block_info();
                outcome(
                    guarded(|| app.init_modules(|router, api, storage| router.staking.add_validator(api, storage, &block, val))),
                    |_| "ok".into(),
                )
            }
            "sudo-slash" => {
                let m = cw_multi_test::StakingSudo::Slash {
                    validator: a(1).to_string(),
                    percentage: cosmwasm_std::Decimal::new(Uint128::new(a(2).parse().unwrap_or(0))),
                };
                outcome(guarded(|| app.sudo(m.into())), |r| format!("ok {}", fmt_resp(&r)))
            }
            "q-deleg" => outcome(
                guarded(|| app.wrap().query_delegation(real(a(1)), a(2)).map_err(Into::into)),
                |d| match d {
                    Some(d) => format!("{}:{}", d.amount.amount, fmt_coins(&d.accumulated_rewards)),
                    None => "none".into(),
                },
            ),
            "q-alldeleg" => outcome(guarded(|| app.wrap().query_all_delegations(real(a(1))).map_err(Into::into)), |ds| {
                let v: Vec<String> = ds.iter().map(|d| format!("{}:{}", d.validator, d.amount.amount)).collect();
                if v.is_empty() { "-".to_string() } else { v.join(",") }
            }),
            "sudo-wasm" => {
                let m = SudoMsg::Wasm(WasmSudo {
                    contract_addr: Addr::unchecked(real(a(1))),
                    message: Binary::from(json_str(&items.get(2).map(|x| x.print()).unwrap_or_default())),
                });
                outcome(guarded(|| app.sudo(m)), |r| format!("ok {}", fmt_resp(&r)))
            }
            "wasm-sudo" => {
                let addr = Addr::unchecked(real(a(1)));
                let text = items.get(2).map(|x| x.print()).unwrap_or_default();
                outcome(guarded(|| app.wasm_sudo(addr, &text)), |r| format!("ok {}", fmt_resp(&r)))
            }
            "h-inst" => {
                // h-inst CODE SENDER (SCRIPT) FUNDS LABEL ADMIN SALT
                let code: u64 = a(1).parse().unwrap_or(0);
                let sender = Addr::unchecked(real(a(2)));
                let text = items.get(3).map(|x| x.print()).unwrap_or_default();
                let funds = parse_coins(a(4));
                let label = pdec(a(5));
                let admin = opt_real(a(6));
                let salt = a(7).to_string();
                outcome(
                    guarded(|| {
                        if salt == "~" {
                            app.instantiate_contract(code, sender, &text, &funds, label, admin)
                        } else {
                            app.instantiate2_contract(code, sender, &text, &funds, label, admin, unhex(&salt))
                        }
                    }),
                    |addr| format!("ok {}", addr),
                )
            }
            "h-exec" => {
                let sender = Addr::unchecked(real(a(1)));
                let contract = Addr::unchecked(real(a(2)));
                let text = items.get(3).map(|x| x.print()).unwrap_or_default();
                let funds = parse_coins(a(4));
                outcome(guarded(|| app.execute_contract(sender, contract, &text, &funds)), |r| format!("ok {}", fmt_resp(&r)))
            }
            "h-mig" => {
                let sender = Addr::unchecked(real(a(1)));
                let contract = Addr::unchecked(real(a(2)));
                let code: u64 = a(3).parse().unwrap_or(0);
                let text = items.get(4).map(|x| x.print()).unwrap_or_default();
                outcome(guarded(|| app.migrate_contract(sender, contract, &text, code)), |r| format!("ok {}", fmt_resp(&r)))
            }
            "h-send" => {
                let (s, r, c) = (Addr::unchecked(real(a(1))), Addr::unchecked(real(a(2))), parse_coins(a(3)));
                outcome(guarded(|| app.send_tokens(s, r, &c)), |r| format!("ok {}", fmt_resp(&r)))
            }
            "q-bal" => outcome(
                guarded(|| app.wrap().query_balance(real(a(1)), a(2)).map_err(Into::into)),
                |c| c.amount.to_string(),
            ),
            "q-all" => outcome(
                guarded(|| {
                    #[allow(deprecated)]
                    let r: Result<AllBalanceResponse, _> =
                        app.wrap().query(&QueryRequest::Bank(BankQuery::AllBalances { address: real(a(1)) }));
                    r.map_err(Into::into)
                }),
                |r| fmt_coins(&r.amount),
            ),
            "q-sup" => outcome(guarded(|| app.wrap().query_supply(a(1)).map_err(Into::into)), |c| c.amount.to_string()),
            "q-smart" => {
                let text = items.get(2).map(|x| x.print()).unwrap_or_default();
                outcome(
                    guarded(|| app.wrap().query_wasm_smart::<String>(real(a(1)), &text).map_err(Into::into)),
                    |s| penc(&s),
                )
            }
            "q-raw" => outcome(
                guarded(|| app.wrap().query_wasm_raw(real(a(1)), unhex(a(2))).map_err(Into::into)),
                |v| hex(&v.unwrap_or_default()),
            ),
            "q-info" => outcome(
                guarded(|| app.wrap().query_wasm_contract_info(real(a(1))).map_err(Into::into)),
                |i| fmt_info(&i),
            ),
            "q-code" => {
                let id: u64 = a(1).parse().unwrap_or(0);
                outcome(guarded(|| app.wrap().query_wasm_code_info(id).map_err(Into::into)), |c| {
                    format!("{},{}", c.creator, hex(c.checksum.as_slice()))
                })
            }
            "q-ext" => {
                // queries for kinds whose module fails by default
                let r: Option<AnyResult<Binary>> = guarded(|| {
                    let req: QueryRequest<Empty> = match a(1) {
                        "custom" => QueryRequest::Custom(Empty {}),
                        #[allow(deprecated)]
                        "stargate" => QueryRequest::Stargate { path: "/verif".into(), data: Binary::from(unhex(a(2))) },
                        "grpc" => QueryRequest::Grpc(cosmwasm_std::GrpcQuery { path: "/verif".into(), data: Binary::from(unhex(a(2))) }),
                        _ => cosmwasm_std::IbcQuery::PortId {}.into(),
                    };
                    let raw = cosmwasm_std::to_json_vec(&req)?;
                    use cosmwasm_std::Querier;
                    match app.raw_query(&raw) {
                        cosmwasm_std::SystemResult::Ok(cosmwasm_std::ContractResult::Ok(b)) => Ok(b),
                        _ => Err(anyhow::anyhow!("query failed")),
                    }
                });
                outcome(r, |b| hex(b.as_slice()))
            }
            "cdata" => outcome(guarded(|| app.contract_data(&Addr::unchecked(real(a(1))))), |d| {
                format!(
                    "{},{},{},{},{}",
                    d.code_id,
                    d.creator,
                    d.admin.map(|a| a.to_string()).unwrap_or_else(|| "~".into()),
                    penc(&d.label),
                    d.created
                )
            }),
            "wdump" => outcome(guarded(|| Ok(app.dump_wasm_raw(&Addr::unchecked(real(a(1)))))), |r| fmt_records(&r)),
            "cstore" => outcome(
                guarded(|| {
                    let s = app.contract_storage(&Addr::unchecked(real(a(1))));
                    let o = if a(4) == "desc" { Order::Descending } else { Order::Ascending };
                    Ok(s.range(unhex_opt(a(2)).as_deref(), unhex_opt(a(3)).as_deref(), o).collect::<Vec<_>>())
                }),
                |r| fmt_records(&r),
            ),
            // App::contract_storage_mut: the test author's direct write access to one contract's key space
            "cs-set" => outcome(
                guarded(|| {
                    let mut s = app.contract_storage_mut(&Addr::unchecked(real(a(1))));
                    s.set(&unhex(a(2)), &unhex(a(3)));
                    Ok(())
                }),
                |_| "ok".into(),
            ),
            "cs-rm" => outcome(
                guarded(|| {
                    let mut s = app.contract_storage_mut(&Addr::unchecked(real(a(1))));
                    s.remove(&unhex(a(2)));
                    Ok(())
                }),
                |_| "ok".into(),
            ),
            "cs-get" => outcome(
                guarded(|| Ok(app.contract_storage(&Addr::unchecked(real(a(1)))).get(&unhex(a(2))))),
                |r| r.map(|v| format!("some {}", hex(&v))).unwrap_or_else(|| "none".into()),
            ),
            "dump" => dump(app),
            "rawhash" => raw_hash(app),
            // byte-exact records of the bank and wasm namespaces (keys, JSON text, contract values)
            "rawdump" => {
                let recs: Vec<(Vec<u8>, Vec<u8>)> = app
                    .storage()
                    .range(None, None, Order::Ascending)
                    .filter(|(k, _)| k.starts_with(b"\x00\x04bank") || k.starts_with(b"\x00\x04wasm"))
                    .collect();
                format!("raw{}", fmt_records(&recs))
            }
            // verdict slot of slice wasm-bech-mix (filled in by exec_wasm_bech_mix)
            "nondet" => "!det".into(),
            "trace" => TRACE.with(|t| {
                let v = std::mem::take(&mut t.borrow_mut()[cur]);
                format!("trace[{}]", v.join(" || "))
            }),
            _ => "bad-op".into(),
        };
        out.push(res);
    }
    out
}

#[allow(dead_code)]
fn _unused(_: Uint128) {}
