#!/bin/bash
# selftest/lab.sh <n> — (re)creates a private mutant lab /tmp/lab<n>/{repo,verif}: a detached worktree of /repo's HEAD and a copy
# of /verif's working tree (with its build outputs) whose harness depends on that worktree, so that mutants can be applied and
# checked there (VERIF_REPO=/tmp/lab<n>/repo /tmp/lab<n>/verif/selftest/run.py …) without touching /repo. Scratch: remove with
#   git -C /repo worktree remove --force /tmp/lab<n>/repo; rm -rf /tmp/lab<n>
set -e
N=$1; L=/tmp/lab$N
mkdir -p $L
if [ ! -d $L/repo ]; then git -C /repo worktree add -q --detach $L/repo HEAD; fi
git -C $L/repo checkout -q -- . ; git -C $L/repo checkout -q --detach $(git -C /repo rev-parse HEAD)
rsync -a --delete --exclude .git --exclude 'work/' --exclude 'replays/' /verif/ $L/verif/
sed -i "s#path = \"/repo\"#path = \"$L/repo\"#" $L/verif/harness/Cargo.toml
sed -i "s#/verif/.build/cargo#$L/verif/.build/cargo#" $L/verif/harness/.cargo/config.toml
echo "lab $L ready"
