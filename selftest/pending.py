#!/usr/bin/env python3
"""selftest/pending.py [--redo-missed] — names of seeded changes that have a meta.json but no entry in selftest/results.json"""
import os, json, glob, sys
ROOT = os.path.dirname(os.path.dirname(os.path.abspath(__file__)))
res = json.load(open(os.path.join(ROOT, "selftest", "results.json")))
for d in sorted(glob.glob(os.path.join(ROOT, "seeded", "*", "meta.json"))):
    sid = os.path.basename(os.path.dirname(d))
    pid = json.load(open(d))["property"]
    r = res.get("seeded-%s %s" % (sid, pid))
    if r is None or ("--redo-missed" in sys.argv and r["status"] != "DETECTED"):
        print("seeded-" + sid)
