#!/bin/bash
# hunt.sh <seed> [ids…]: thorough tier with another seed on the unchanged tree (evidence to work/hunt_evidence); prints one line
# per property and keeps the replays of anything that is not clean. Development helper (defect hunting).
cd "$(dirname "$0")/.."
S=$1; shift
IDS=${@:-"C14 C15 C16 C09 C06 C07 C18 C11 C12 C01 C02 C03 C04 C05 C08 C10 C13 C17 C19 C20"}
for c in $IDS; do
  out=$(VERIF_SEED=$S VERIF_EVIDENCE_DIR=work/hunt_evidence ./check $c --tier thorough 2>&1); rc=$?
  echo "$c seed=$S rc=$rc $(echo "$out" | tail -1 | cut -c1-200)"
  if [ $rc -ne 0 ]; then echo "$out" | grep -E "VIOLATION|KNOWN" | head -8; fi
done
