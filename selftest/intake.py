#!/usr/bin/env python3
"""
selftest/intake.py <wave-dir> [PID ...] — takes the deliverables of independent sub-agents (<wave-dir>/<PID>_out/{a,b}_patch.diff,
_demo_test.rs, _notes.md), files each as seeded/<PID>-<slug>/ (patch.diff, demo_test.rs, notes.md), confirms it in a fresh scratch
worktree (selftest/confirm_seeded.sh: builds with default and full features, baseline suite passes, demo fails with / passes without
the patch), writes meta.json, and — for confirmed ones — runs selftest/run.py on it. Already filed ones are skipped.
"""
import sys, os, re, json, subprocess, shutil, glob
ROOT = os.path.dirname(os.path.dirname(os.path.abspath(__file__)))
MODE = [a for a in sys.argv[1:] if a.startswith("--")]
sys.argv = [a for a in sys.argv if not a.startswith("--")]
wave = sys.argv[1]
pids = sys.argv[2:] or sorted({os.path.basename(d)[:3] for d in glob.glob(os.path.join(wave, "C??_out"))})
wave_name = os.path.basename(wave.rstrip("/"))
for pid in pids:
    for x in ("a", "b"):
        base = os.path.join(wave, pid + "_out", x + "_")
        if not all(os.path.exists(base + f) for f in ("patch.diff", "demo_test.rs", "notes.md")):
            continue
        notes = open(base + "notes.md").read()
        m = re.search(r"\b([a-z0-9]+(?:-[a-z0-9]+){2,})\b", notes)
        slug = m.group(1) if m else "%s-%s" % (wave_name, x)
        sid = "%s-%s" % (pid, slug)
        d = os.path.join(ROOT, "seeded", sid)
        if os.path.exists(os.path.join(d, "meta.json")) or os.path.exists(os.path.join(d, "meta.rejected.json")):
            if "--check-only" in MODE and os.path.exists(os.path.join(d, "meta.json")):
                try:
                    res = json.load(open(os.path.join(ROOT, "selftest", "results.json")))
                except Exception:
                    res = {}
                if ("seeded-%s %s" % (sid, pid)) not in res:
                    r = subprocess.run([sys.executable, os.path.join(ROOT, "selftest", "run.py"), "seeded-" + sid], stdout=subprocess.PIPE, stderr=subprocess.STDOUT, text=True)
                    print(r.stdout[-1500:], flush=True)
            continue
        if "--check-only" in MODE:
            continue
        os.makedirs(d, exist_ok=True)
        shutil.copy(base + "patch.diff", os.path.join(d, "patch.diff"))
        shutil.copy(base + "demo_test.rs", os.path.join(d, "demo_test.rs"))
        shutil.copy(base + "notes.md", os.path.join(d, "notes.md"))
        feat = ""
        fm = re.search(r"--features[ =]([\w,]+)", notes)
        if fm:
            feat = "--features " + fm.group(1)
        r = subprocess.run(["bash", os.path.join(ROOT, "selftest", "confirm_seeded.sh"), sid] + feat.split(),
                           stdout=subprocess.PIPE, stderr=subprocess.STDOUT, text=True)
        out = " | ".join(l.strip() for l in r.stdout.splitlines() if l.strip() and not l.startswith("WARNING"))
        lines = r.stdout.splitlines()
        def after(tag):
            for i, l in enumerate(lines):
                if l.startswith(tag):
                    return " ".join(lines[i + 1:i + 4])
            return ""
        ok = ("0 errors" in out and "FAILED" not in after("suite with patch") and after("suite with patch").count("test result: ok") >= 2
              and ("FAILED" in after("demo with patch") or "error" in after("demo with patch"))
              and "test result: ok" in after("demo without patch") and "FAILED" not in after("demo without patch"))
        first = [l for l in notes.splitlines() if l.strip() and not l.startswith("#")]
        meta = {"property": pid, "needs_to_manifest": " ".join(first[:6])[:900],
                "demo": "copy demo_test.rs into the crate's tests/ directory; cargo test --offline %s --test demo_test fails with patch.diff applied and passes without" % feat,
                "confirmed": ("selftest/confirm_seeded.sh %s %s : " % (sid, feat)) + out,
                "confirmed_ok": ok,
                "source": "independent sub-agent (%s) given only the property text and a scratch worktree" % wave_name}
        if not ok:
            print("NOT CONFIRMED", sid, out, flush=True)
            json.dump(meta, open(os.path.join(d, "meta.rejected.json"), "w"), indent=1)
            continue
        json.dump(meta, open(os.path.join(d, "meta.json"), "w"), indent=1)
        print("confirmed", sid, flush=True)
        if "--confirm-only" in MODE:
            continue
        r = subprocess.run([sys.executable, os.path.join(ROOT, "selftest", "run.py"), "seeded-" + sid], stdout=subprocess.PIPE, stderr=subprocess.STDOUT, text=True)
        print(r.stdout[-1500:], flush=True)
