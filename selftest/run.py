#!/usr/bin/env python3
"""
Self-test of the machinery (never used by MANIFEST commands): applies each mutant patch of
selftest/mutants (and seeded/<id>/patch.diff) to /repo, runs the named checks, expects exit 1 with a
VIOLATION line, and restores /repo (git checkout) afterwards.

   selftest/run.py [--fast] [name-substring …]
--fast: do not run ./check; only harness + driver + predicates of the mapped slices (no proofs)
"""
import sys, os, subprocess, glob, json, re
ROOT = os.path.dirname(os.path.dirname(os.path.abspath(__file__)))
REPO = os.environ.get("VERIF_REPO", "/repo")   # a mutant lab (selftest/lab.sh) points this at its own worktree
sys.path.insert(0, os.path.join(ROOT, "checklib"))

MAP = {
    "M01": ["C01"], "M02": ["C01"], "M14": ["C01"],
    "M03": ["C02"], "M04": ["C03"], "M15": ["C03"], "M05": ["C04"], "M06": ["C05"], "M07": ["C05"],
    "M08": ["C08"], "M16": ["C08"], "M09": ["C09"], "M10": ["C11"], "M11": ["C11"], "M12": ["C12"], "M13": ["C13"],
}


def sh(cmd, **kw):
    return subprocess.run(cmd, shell=isinstance(cmd, str), stdout=subprocess.PIPE, stderr=subprocess.STDOUT, text=True, **kw)


def record(name, pid, status, nviol, nf):
    """selftest/results.json: last outcome per (patch, property); read by DESIGN.md's detection matrix"""
    import fcntl
    path = os.environ.get("VERIF_RESULTS", os.path.join(ROOT, "selftest", "results.json"))
    with open(path + ".lock", "w") as lk:
        fcntl.flock(lk, fcntl.LOCK_EX)
        try:
            data = json.load(open(path))
        except Exception:
            data = {}
        data[name + " " + pid] = {"status": status, "violation_lines": nviol, "without_failing_input": nf}
        json.dump(data, open(path, "w"), indent=1, sort_keys=True)


def main():
    args = [a for a in sys.argv[1:] if not a.startswith("--")]
    patches = sorted(glob.glob(os.path.join(ROOT, "selftest", "mutants", "*.diff")))
    for d in sorted(glob.glob(os.path.join(ROOT, "seeded", "*", "patch.diff"))):
        patches.append(d)
    st = sh("git -C %s status --porcelain" % REPO).stdout.strip()
    if st:
        print("refusing: /repo has uncommitted changes"); return 2
    results = []
    for p in patches:
        name = os.path.basename(p)[:-5] if "mutants" in p else "seeded-" + os.path.basename(os.path.dirname(p))
        if args and not any(a in name for a in args):
            continue
        if "mutants" in p:
            props = MAP.get(name.split("_")[0], [])
        else:
            meta = json.load(open(os.path.join(os.path.dirname(p), "meta.json")))
            props = [meta["property"]]
        r = sh(["git", "-C", REPO, "apply", p])
        if r.returncode != 0:
            print(name, "patch does not apply:", r.stdout[-300:]); results.append((name, "no-apply")); continue
        try:
            for pid in props:
                # evidence of runs against mutated sources must never land in /verif/evidence
                env = dict(os.environ, VERIF_EVIDENCE_DIR=os.path.join(ROOT, "work", "selftest_evidence"))
                c = sh([os.path.join(ROOT, "check"), pid], cwd=ROOT, env=env)
                viol = [l for l in c.stdout.splitlines() if l.startswith("VIOLATION")]
                status = "DETECTED" if c.returncode == 1 and viol else "MISSED(rc=%d)" % c.returncode
                nf = sum(1 for l in viol if l.endswith("no-failing-input-found"))
                print("%-45s %s %s (%d violation lines, %d without failing input)" % (name, pid, status, len(viol), nf), flush=True)
                if status != "DETECTED":
                    print(c.stdout[-800:])
                results.append((name, pid, status))
                record(name, pid, status, len(viol), nf)
        finally:
            sh("git -C %s checkout -- ." % REPO)
    return 0


if __name__ == "__main__":
    sys.exit(main())
