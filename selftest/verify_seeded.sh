#!/bin/bash
# verify_seeded.sh <Cxx> <k> <seed-id>: confirm a sub-agent's mutant in its scratch worktree, store it under /verif/seeded/<seed-id>,
# then remove the worktree. Usage is manual (development helper).
set -u
P=$1; K=$2; ID=$3
WT=/tmp/mut_${P}_${K}; OUT=/tmp/mut_${P}_${K}_out
export CARGO_TARGET_DIR=$WT/target CARGO_NET_OFFLINE=true
cd $WT || exit 2
FEAT=$(grep -o "\-\-features [a-z0-9_,]*" $OUT/notes.md | head -1)
mkdir -p tests && cp $OUT/demo_test.rs tests/demo_test.rs
echo "== with patch: full suite"; cargo test --offline 2>&1 | grep -E "^test result" | head -3
echo "== with patch: demo ($FEAT)"; cargo test --offline $FEAT --test demo_test 2>&1 | grep -E "^test result|panicked" | head -4
git stash -q -- src
echo "== without patch: demo"; cargo test --offline $FEAT --test demo_test 2>&1 | grep -E "^test result" | head -2
git stash pop -q
mkdir -p /verif/seeded/$ID
cp $OUT/patch.diff /verif/seeded/$ID/patch.diff
cp $OUT/demo_test.rs /verif/seeded/$ID/demo_test.rs
cp $OUT/notes.md /verif/seeded/$ID/notes.md
cd /; git -C /repo worktree remove --force $WT; rm -rf $OUT
