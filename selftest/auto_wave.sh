#!/bin/bash
# selftest/auto_wave.sh <wave-dir> <lab> — until stopped: files and confirms new sub-agent deliverables of the wave, then runs every
# confirmed change that has no result yet in lab <lab>
W=$1; N=$2
while true; do
  python3 /verif/selftest/intake.py --confirm-only $W > /dev/null 2>&1
  P=$(python3 /verif/selftest/pending.py | grep seeded)
  if [ -n "$P" ]; then /verif/selftest/lab_queue.sh $N $P; else sleep 60; fi
done
