#!/bin/bash
# intake6.sh <Cxx> <k> <slug> "<needs-to-manifest>" [cargo feature args for the demo]
# copies /tmp/w6_<Cxx>/out/<k> to seeded/<Cxx>-<slug>, writes meta.json, confirms it in a fresh worktree (confirm_seeded.sh).
set -u
P=$1; K=$2; SLUG=$3; NEEDS=$4; shift 4; FEAT="$*"
ID=$P-$SLUG
SRC=/tmp/${WAVE:-w6}_$P/out/$K
mkdir -p /verif/seeded/$ID
cp $SRC/patch.diff $SRC/demo_test.rs $SRC/notes.md /verif/seeded/$ID/
OUT=$(/verif/selftest/confirm_seeded.sh $ID $FEAT 2>&1)
echo "$OUT"
python3 - "$ID" "$P" "$NEEDS" "$FEAT" "$OUT" <<'PY'
import json,sys
id_,p,needs,feat,out=sys.argv[1:6]
json.dump({"property":p,"needs_to_manifest":needs,
 "demo":"copy demo_test.rs into the crate's tests/ directory; cargo test --offline %s --test demo_test fails with patch.diff applied and passes without"%feat,
 "confirmed":"selftest/confirm_seeded.sh %s %s : %s"%(id_,feat," | ".join(l.strip() for l in out.splitlines() if l.strip())),
 "source":"independent sub-agent (wave 6/7) given only the property text and a scratch worktree"},
 open("/verif/seeded/%s/meta.json"%id_,"w"),indent=1)
PY
