#!/bin/bash
# selftest/lab_queue.sh <n> <name> ... — runs the named mutants one after another in lab <n> (selftest/lab.sh), results into /verif/selftest/results.json
N=$1; shift; L=/tmp/lab$N
for name in "$@"; do
  rsync -a /verif/seeded/ $L/verif/seeded/
  (cd $L/verif && VERIF_REPO=$L/repo VERIF_RESULTS=/verif/selftest/results.json python3 selftest/run.py "$name" 2>&1 | grep -v "WARNING conda")
done
