#!/bin/bash
# confirm_seeded.sh <seed-id> [cargo feature args for the demo]: in a fresh scratch worktree of /repo, checks that with
# seeded/<id>/patch.diff the crate builds (default + full features), the baseline suite passes, the demo fails; and that
# without the patch the demo passes. Removes the worktree and its build output afterwards.
set -u
ID=$1; shift; FEAT="$*"
WT=/tmp/confirm_$ID
git -C /repo worktree remove --force $WT 2>/dev/null
git -C /repo worktree add -q --detach $WT HEAD || exit 2
export CARGO_TARGET_DIR=$WT/target CARGO_NET_OFFLINE=true
cd $WT
git apply /verif/seeded/$ID/patch.diff || { echo "PATCH DOES NOT APPLY"; cd /; git -C /repo worktree remove --force $WT; exit 2; }
mkdir -p tests && cp /verif/seeded/$ID/demo_test.rs tests/demo_test.rs
echo "build(full features): $(cargo build --offline --features staking,stargate,cosmwasm_2_2 2>&1 | grep -cE '^error')" errors
echo "suite with patch:"; cargo test --offline --lib --test mod 2>&1 | grep -E "^test result" | head -3
echo "demo with patch ($FEAT):"; cargo test --offline $FEAT --test demo_test 2>&1 | grep -E "^test result|^error" | head -3
git checkout -q -- src
echo "demo without patch:"; cargo test --offline $FEAT --test demo_test 2>&1 | grep -E "^test result|^error" | head -3
cd /; git -C /repo worktree remove --force $WT
