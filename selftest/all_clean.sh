#!/bin/bash
# all_clean.sh [seeds…]: runs every claimed check (quick tier) on the unchanged tree for the given seeds (default 1)
# and prints only what is NOT clean. Development helper.
cd "$(dirname "$0")/.."
SEEDS="${@:-1}"
IDS=$(python3 -c "import json;print(' '.join(c['property_id'] for c in json.load(open('MANIFEST.json'))['checks']))")
bad=0
for s in $SEEDS; do for c in $IDS; do
  out=$(VERIF_SEED=$s ./check $c 2>&1); rc=$?
  if [ $rc -ne 0 ] || ! echo "$out" | grep -q "disagreements 0, predicate failures 0"; then echo "NOT CLEAN: $c seed=$s rc=$rc"; echo "$out" | tail -4 | cut -c1-250; bad=1; fi
done; done
[ $bad -eq 0 ] && echo "all clean: seeds [$SEEDS] ids [$IDS]"
