#!/bin/bash
# Self-test of the translator tie (T) of C17 / C20. Never touches /repo or the Gen files of the tree it
# is started from: everything happens in a scratch directory (default /tmp/route_selftest).
#   usage: selftest/route_mutants.sh [VERIF_ROOT] [SCRATCH]
# For each mutant: copy /repo, apply the edit, point the translators (VERIF_REPO) and a copy of the
# harness crate (VERIF_HARNESS_DIR, path dependency rewritten) at the copy, and expect
#   (1) the generated table to differ from the committed one,
#   (2) `lake build CwMt.Props.Cxx` to fail,
#   (3) the counter-example finder to name the expected row, with the expected confirmation status.
set -u
ROOT=${1:-$(cd "$(dirname "$0")/.." && pwd)}
S=${2:-/tmp/route_selftest}
rm -rf "$S"; mkdir -p "$S"
cp -r "$ROOT/lean" "$S/lean"; cp -r "$ROOT/harness" "$S/harness"; cp -r "$ROOT/checklib" "$S/checklib"
sed -i "s|path = \"/repo\"|path = \"$S/repo\"|" "$S/harness/Cargo.toml"
export VERIF_REPO="$S/repo" VERIF_HARNESS_DIR="$S/harness" CARGO_TARGET_DIR="${CARGO_TARGET_DIR:-$S/target}"
fail=0
run() {  # name translator prop expect-substring expect-confirmed python-edit
  name=$1; tr=$2; prop=$3; want=$4; conf=$5; edit=$6
  rm -rf "$S/repo"; cp -r /repo "$S/repo"; rm -rf "$S/repo/target"
  python3 -c "$edit" "$S/repo/src" || { echo "MUTANT $name: edit failed"; fail=1; return; }
  for t in tr_router tr_builder; do python3 "$S/checklib/$t.py" "$S" > "$S/$name.$t.log" 2>&1; done
  changed=no; diff -rq "$ROOT/lean/CwMt/Gen" "$S/lean/CwMt/Gen" > /dev/null || changed=yes
  (cd "$S/lean" && lake build CwMt.Props.$prop > "$S/$name.lake.log" 2>&1) && built=yes || built=no
  found=$(python3 - "$S/$name.$tr.log" "$want" <<'PY'
import sys, json
t = open(sys.argv[1]).read(); r = json.loads(t[t.index('{\n'):])
hits = [c for c in r["counterexamples"] if sys.argv[2] in json.dumps({k: c.get(k) for k in ("table", "step", "field", "kind")})]
print("none" if not hits else ("confirmed" if any(c.get("confirmed_on_impl") for c in hits) else "unconfirmed"))
PY
)
  if [ "$changed" = yes ] && [ "$built" = no ] && [ "$found" = "$conf" ]; then echo "MUTANT $name: ok (table changed, $prop fails to build, counter-example $want $found)"
  else echo "MUTANT $name: UNEXPECTED changed=$changed theorem-built=$built counter-example=$found (wanted $conf)"; fail=1; fi
}
run d6_with_reply_checksum tr_builder C20 '"step": "with_reply", "field": "checksum"' confirmed '
import sys; p=sys.argv[1]+"/contracts.rs"; s=open(p).read()
old="reply_fn: Some(Box::new(reply_fn)),\n            migrate_fn: self.migrate_fn,\n            checksum: self.checksum,"
assert s.count(old)==1; open(p,"w").write(s.replace(old, old.replace("checksum: self.checksum","checksum: None")))'
run d4_no_gov_arm tr_router C17 '"kind": "gov"' confirmed '
import sys; p=sys.argv[1]+"/contracts.rs"; s=open(p).read()
old="            #[cfg(feature = \"stargate\")]\n            CosmosMsg::Gov(gov) => CosmosMsg::Gov(gov),\n"
assert s.count(old)==1; open(p,"w").write(s.replace(old,""))'
run sudo_bank_arm_deleted tr_router C17 '"kind": "bank"' confirmed '
import sys; p=sys.argv[1]+"/app.rs"; s=open(p).read()
old="            SudoMsg::Bank(msg) => self.bank.sudo(api, storage, self, block, msg),\n"
assert s.count(old)==1; open(p,"w").write(s.replace(old,""))'
run with_storage_resets_block tr_builder C20 '"step": "with_storage", "field": "block"' confirmed '
import sys; p=sys.argv[1]+"/app_builder.rs"; s=open(p).read()
i=s.index("pub fn with_storage<"); j=s.index("AppBuilder {\n            api,\n            block,", i)
open(p,"w").write(s[:j]+s[j:].replace("            block,\n","            block: mock_env().block,\n",1))'
run harmless_refactoring_with_gov tr_builder C20 '"step": "with_gov"' unconfirmed '
import sys; p=sys.argv[1]+"/app_builder.rs"; s=open(p).read()
i=s.index("pub fn with_gov<"); j=s.index("        AppBuilder {\n            api,", i); k=s.index("        }\n    }", j)
open(p,"w").write(s[:j]+"        let b = "+s[j:k].lstrip()+"        };\n        b\n    }"+s[k+len("        }\n    }"):])'
rm -rf "$S/repo"
[ $fail = 0 ] && echo "route selftest: all mutants behaved as expected" || echo "route selftest: FAILED"
exit $fail
