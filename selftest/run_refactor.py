#!/usr/bin/env python3
"""
selftest/run_refactor.py <wave-dir> [PID ...] — the opposite of run.py: semantics-preserving refactorings written by independent
sub-agents (<wave-dir>/<PID>_out/{a,b,c}_patch.diff + _notes.md) are filed under selftest/refactorings/<PID>-<slug>/, applied to the
repository named by VERIF_REPO (a lab, see lab.sh), the property's check (and those sharing its translators) is run and must exit 0
without a VIOLATION line; the outcome goes to selftest/refactor_results.json (VERIF_REFACTOR_RESULTS overrides the path).
An alarm here is either a false alarm of the machinery (to be corrected) or a broken tie T, which the check reports as
`no-failing-input-found` (the table no longer matches; the property is no longer shown to hold by the theorem over it).
"""
import sys, os, re, json, subprocess, shutil, glob, fcntl
ROOT = os.path.dirname(os.path.dirname(os.path.abspath(__file__)))
REPO = os.environ.get("VERIF_REPO", "/repo")
RES = os.environ.get("VERIF_REFACTOR_RESULTS", os.path.join(ROOT, "selftest", "refactor_results.json"))
ALSO = {"C01": ["C02"], "C17": ["C20"], "C20": ["C17"]}
wave = sys.argv[1]
pids = sys.argv[2:] or sorted({os.path.basename(d)[:3] for d in glob.glob(os.path.join(wave, "C??_out"))})


def sh(cmd, **kw):
    return subprocess.run(cmd, stdout=subprocess.PIPE, stderr=subprocess.STDOUT, text=True, **kw)


for pid in pids:
    for x in ("a", "b", "c"):
        base = os.path.join(wave, pid + "_out", x + "_")
        if not (os.path.exists(base + "patch.diff") and os.path.exists(base + "notes.md")):
            continue
        notes = open(base + "notes.md").read()
        m = re.search(r"\b([a-z0-9]+(?:-[a-z0-9]+){1,})\b", notes)
        rid = "%s-%s" % (pid, m.group(1) if m else x)
        d = os.path.join("/verif", "selftest", "refactorings", rid)
        os.makedirs(d, exist_ok=True)
        shutil.copy(base + "patch.diff", os.path.join(d, "patch.diff"))
        shutil.copy(base + "notes.md", os.path.join(d, "notes.md"))
        try:
            done = json.load(open(RES))
        except Exception:
            done = {}
        if rid in done:
            continue
        if sh(["git", "-C", REPO, "status", "--porcelain"]).stdout.strip():
            print("refusing: %s has uncommitted changes" % REPO); sys.exit(2)
        r = sh(["git", "-C", REPO, "apply", base + "patch.diff"])
        if r.returncode != 0:
            print(rid, "patch does not apply"); continue
        out = {}
        try:
            for p in [pid] + ALSO.get(pid, []):
                env = dict(os.environ, VERIF_EVIDENCE_DIR=os.path.join(ROOT, "work", "selftest_evidence"))
                c = sh([os.path.join(ROOT, "check"), p], cwd=ROOT, env=env)
                viol = [l for l in c.stdout.splitlines() if l.startswith("VIOLATION")]
                out[p] = {"rc": c.returncode, "violation_lines": len(viol),
                          "without_failing_input": sum(1 for l in viol if l.endswith("no-failing-input-found")),
                          "tail": c.stdout[-600:] if c.returncode != 0 else ""}
                print("%-60s %s rc=%d violations=%d" % (rid, p, c.returncode, len(viol)), flush=True)
        finally:
            sh(["git", "-C", REPO, "checkout", "--", "."])
        with open(RES + ".lock", "w") as lk:
            fcntl.flock(lk, fcntl.LOCK_EX)
            try:
                done = json.load(open(RES))
            except Exception:
                done = {}
            done[rid] = out
            json.dump(done, open(RES, "w"), indent=1, sort_keys=True)
