#!/usr/bin/env python3
"""Prints the detection matrix (markdown) from selftest/results.json, selftest/mutants and seeded/*/meta.json;
`--write` replaces the block between the MATRIX markers of DESIGN.md."""
import json, os, sys, glob, re
ROOT = os.path.dirname(os.path.dirname(os.path.abspath(__file__)))
res = json.load(open(os.path.join(ROOT, "selftest", "results.json")))
rows = ["| change | property | result of `./check` | VIOLATION lines | of which with a failing input confirmed by the model-free predicate |", "|---|---|---|---|---|"]
def what(name):
    if name.startswith("seeded-"):
        m = json.load(open(os.path.join(ROOT, "seeded", name[7:], "meta.json")))
        return m["needs_to_manifest"]
    p = glob.glob(os.path.join(ROOT, "selftest", "mutants", name + ".diff"))
    if p:
        for l in open(p[0]):
            if l.startswith("# "):
                return l[2:].strip()
    return name.split("_", 1)[-1].replace("_", " ")
missing = []
for key in sorted(res, key=lambda k: (k.split()[1], k)):
    name, pid = key.split()
    r = res[key]
    w = what(name)
    w = w if len(w) <= 230 else w[:227] + "…"
    rows.append("| `%s` — %s | %s | %s | %d | %d |" % (name, w.replace("|", "/"), pid, r["status"], r["violation_lines"], r["violation_lines"] - r["without_failing_input"]))
for d in sorted(glob.glob(os.path.join(ROOT, "seeded", "*"))):
    n = "seeded-" + os.path.basename(d)
    if not any(k.startswith(n + " ") for k in res):
        missing.append(n)
text = "\n".join(rows) + "\n"
if missing:
    text += "\nnot yet run through selftest/run.py: " + ", ".join(missing) + "\n"
if "--write" in sys.argv:
    p = os.path.join(ROOT, "DESIGN.md")
    s = open(p).read()
    a, b = "<!-- MATRIX-BEGIN -->", "<!-- MATRIX-END -->"
    i, j = s.index(a), s.index(b)
    s = s[:i + len(a)] + "\n" + text + s[j:]
    open(p, "w").write(s)
else:
    print(text)
