#!/bin/bash
# all_thorough.sh: runs every claimed check at the thorough tier on the unchanged tree (evidence to work/thorough_evidence),
# prints one line per property. Development helper; never run concurrently with selftest/run.py.
cd "$(dirname "$0")/.."
IDS=$(python3 -c "import json;print(' '.join(c['property_id'] for c in json.load(open('MANIFEST.json'))['checks']))")
for c in ${@:-$IDS}; do
  out=$(VERIF_EVIDENCE_DIR=work/thorough_evidence ./check $c --tier thorough 2>&1); rc=$?
  echo "$c rc=$rc $(echo "$out" | tail -1 | cut -c1-220)"
  if [ $rc -ne 0 ]; then echo "$out" | grep -E "VIOLATION|KNOWN" | head -5; fi
done
